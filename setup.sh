#!/bin/sh
# Offline build of the whole framework from files on disk: Coq development (full .vo build),
# extracted OCaml model runner, Go harness (warms the Go build cache).
set -e
cd "$(dirname "$0")"
export GOFLAGS=-mod=mod GOPROXY=off GOSUMDB=off GOTOOLCHAIN=local
python3 - <<'PY'
import sys
sys.path.insert(0, '.')
from checks import lib
ok, log = lib.ensure_coq()
print(log[-2000:])
if not ok: sys.exit("coq build failed")
ok, log = lib.ensure_modelrun()
if not ok: print(log[-3000:]); sys.exit("modelrun build failed")
ok, log = lib.ensure_harness()
if not ok: print(log[-3000:]); sys.exit("harness build failed")
from checks import resplib
err = resplib.build(want_c03=True)      # resprun, c03run, harness_resp (C02, C03)
if err: print(err); sys.exit("resp runners/harness build failed")
print("setup ok")
PY
