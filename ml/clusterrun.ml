(* clusterrun: evaluates the extracted cluster models (coq/Cluster) on case files written by
   harness_cluster / the checks, one result line per case. *)
open Clustermodel
open Clusterutil

let args_str (l : byte list list) = String.concat " " (List.map hx l)

(* enc: "A <idhex> <arghex>*"  ->  "<payloadhex> | <idhex> <arghex>* | <pinned arghex>*" *)
let run_enc infile outfile =
  let oc = open_out_bin outfile in
  List.iter (fun l ->
      match split_ws l with
      | "A" :: id :: args ->
        let id = unhx id and args = List.map unhx args in
        let p = encode_proposal args id in
        let dec = (match decode_proposal p with
            | Some (a, i) -> String.trim (hx i ^ " " ^ args_str a)
            | None -> "NONE") in
        Printf.fprintf oc "%s | %s | %s\n" (hx p) dec (args_str (pinned_roundtrip args))
      | _ -> ()) (read_lines infile);
  close_out oc

(* entries: "P <case> <step> <arghex>* | <payloadhex>": the payload the implementation put into the
   log must decode to exactly the client's argument vector, and must be byte for byte what the
   model encodes for that vector and the id found in the payload *)
let run_entries infile outfile =
  let oc = open_out_bin outfile in
  let n = ref 0 and bad = ref 0 in
  List.iter (fun l ->
      if String.length l > 2 && String.sub l 0 2 = "P " then begin
        incr n;
        let bar = String.index l '|' in
        let left = split_ws (String.sub l 0 bar) in
        let pay = unhx (String.trim (String.sub l (bar + 1) (String.length l - bar - 1))) in
        match left with
        | _ :: case :: step :: args ->
          let args = List.map unhx args in
          let verdict =
            (match decode_proposal pay with
             | None -> "model-cannot-decode"
             | Some (a, id) ->
               if a <> args then "decoded-args-differ model_decoded=" ^ args_str a
               else if not (id_plain id) then "id-not-plain"
               else if encode_proposal args id <> pay then "payload-differs model=" ^ hx (encode_proposal args id)
               else "") in
          if verdict <> "" then begin
            incr bad; Printf.fprintf oc "BAD %s %s %s\n" case step verdict end
        | _ -> ()
      end) (read_lines infile);
  Printf.fprintf oc "SUMMARY entries=%d bad=%d\n" !n !bad;
  close_out oc

(* route: the S lines of a cluster-path trace ("S now nowms conn arghex* | reply") -> one letter per
   step: R refused by the filter, L executed locally (rconf), P proposed to the log *)
let run_route infile outfile =
  let oc = open_out_bin outfile in
  List.iter (fun l ->
      if String.length l > 5 && String.sub l 0 5 = "CASE " then output_string oc (l ^ "\n")
      else if String.length l > 2 && String.sub l 0 2 = "S " then begin
        let bar = String.index l '|' in
        match split_ws (String.sub l 0 bar) with
        | _ :: _ :: _ :: _ :: args ->
          let args = List.map unhx args in
          output_string oc (match cluster_filter args with
              | None -> "R\n"
              | Some a -> if is_rconf a then "L\n" else "P\n")
        | _ -> output_string oc "?\n"
      end) (read_lines infile);
  close_out oc

(* apply: C07 (D).  Case file:
     CASE <name> <base> <payload kinds: string over c/e/f>   (c = command, e = empty, f = conf change)
     W <lo> <len>                                            (one Ready batch = window of the log)
     END
   Output per W: "B <n entries counted> <applied after> <indices of published commands>" or "B FATAL" *)
let int_of_n_str (x : n) = string_of_int (int_of_n x)

let run_apply infile outfile =
  let oc = open_out_bin outfile in
  let log = ref [] and applied = ref N0 and dead = ref false in
  List.iter (fun l ->
      match split_ws l with
      | ["CASE"; name; base; kinds] ->
        let base = int_of_string base in
        let pl = List.mapi (fun i ch ->
            match ch with
            | 'c' -> PCmd (bytes_of_string (string_of_int (base + 1 + i)), [])
            | 'e' -> PEmpty
            | _ -> PConf) (List.init (String.length kinds) (String.get kinds)) in
        log := number_log (n_of_int (base + 1)) pl;
        applied := n_of_int base; dead := false;
        Printf.fprintf oc "CASE %s\n" name
      | ["CASE"; name; base] ->
        log := []; applied := n_of_int (int_of_string base); dead := false;
        Printf.fprintf oc "CASE %s\n" name
      | ["W"; lo; len] ->
        if !dead then Printf.fprintf oc "B DEAD\n" else begin
          let b = log_window !log (nat_of_int (int_of_string lo)) (nat_of_int (int_of_string len)) in
          match ready_step !applied b with
          | None -> dead := true; Printf.fprintf oc "B FATAL\n"
          | Some ((a', nents), batch) ->
            applied := a';
            Printf.fprintf oc "B %d %s %s\n" (List.length nents) (int_of_n_str a')
              (String.concat "," (List.map (fun (id, _) -> string_of_bytes id) batch))
        end
      | ["END"] -> Printf.fprintf oc "END\n"
      | _ -> ()) (read_lines infile);
  close_out oc

(* ---- lin: linearizability of a recorded history against the sequential model [exec] ----
   Input (one block per key; every operation touches exactly that key):
     KEY <name>
     O <invoke_us> <response_us|inf> <reply, blanks written as '_'|?> <arghex>*
     END
   "?" / inf: the client got no definite answer (time-out, connection lost): the operation may
   have taken effect at any point after its invocation, or never.
   Search: Wing & Gong / Lowe -- repeatedly pick an operation that no other pending operation
   strictly precedes in real time, apply it to the model state, require the model's reply to be
   the observed one; memoise (set of linearised operations, model state). *)
let has_crlf (b : byte list) = List.exists (fun c -> let ch = char_of_byte c in ch = '\r' || ch = '\n') b
let starts_with (s : string) (p : string) =
  String.length s >= String.length p && String.sub s 0 (String.length p) = p
let string_of_z (z : z) : string = string_of_bytes (z_to_dec z)
let rec print_reply (r : reply) : string =
  match r with
  | RSimple s -> "+" ^ hx s ^ (if has_crlf s then "!" else "")
  | RErr s ->
    let t = string_of_bytes s in
    (if starts_with t "WRONGTYPE" then "-W" else "-E") ^ (if has_crlf s then "!" else "")
  | RInt z -> ":" ^ string_of_z z
  | RBulk b -> "$" ^ hx b
  | RNil -> "$nil"
  | RArr l -> "*[" ^ String.concat " " (List.map print_reply l) ^ "]"
  | RNilArr -> "*nil"
  | RPlain s -> "~" ^ hx s

type hop = { inv : float; resp : float; obs : string; args : byte list list }

let check_lin (ops : hop array) : bool * int =
  let n = Array.length ops in
  let seen = Hashtbl.create 4096 in
  let explored = ref 0 in
  let key (lin : Bytes.t) (d : db) = Bytes.to_string lin ^ Marshal.to_string d [] in
  let rec go (lin : Bytes.t) (d : db) : bool =
    incr explored;
    (* all operations with a definite answer linearised? *)
    let pending_def = ref false and min_resp = ref infinity in
    for i = 0 to n - 1 do
      if Bytes.get lin i = '0' then begin
        if ops.(i).obs <> "?" then pending_def := true;
        if ops.(i).resp < !min_resp then min_resp := ops.(i).resp
      end
    done;
    if not !pending_def then true
    else begin
      let ok = ref false in
      let i = ref 0 in
      while not !ok && !i < n do
        let o = ops.(!i) in
        if Bytes.get lin !i = '0' && o.inv <= !min_resp then begin
          let (r, d') = exec d Z0 Z0 o.args RNil in
          if o.obs = "?" || print_reply r = o.obs then begin
            let lin' = Bytes.copy lin in
            Bytes.set lin' !i '1';
            let k = key lin' d' in
            if not (Hashtbl.mem seen k) then begin
              Hashtbl.add seen k ();
              if go lin' d' then ok := true
            end
          end
        end;
        incr i
      done;
      !ok
    end in
  let r = go (Bytes.make n '0') empty_db in
  (r, !explored)

let run_lin infile outfile =
  let oc = open_out_bin outfile in
  let name = ref "" and cur = ref [] in
  List.iter (fun l ->
      match split_ws l with
      | ["KEY"; k] -> name := k; cur := []
      | "O" :: inv :: resp :: obs :: args ->
        cur := { inv = float_of_string inv;
                 resp = (if resp = "inf" then infinity else float_of_string resp);
                 obs = String.map (fun c -> if c = '_' then ' ' else c) obs; args = List.map unhx args } :: !cur
      | ["END"] ->
        let ops = Array.of_list (List.rev !cur) in
        let (ok, explored) = check_lin ops in
        Printf.fprintf oc "%s %s ops=%d explored=%d\n" (if ok then "LIN" else "NONLIN") !name (Array.length ops) explored
      | _ -> ()) (read_lines infile);
  close_out oc

(* ---- steporder: the statements of the Ready case in the order the model executes them ---- *)
let step_name = function
  | SSaveSnap -> "saveSnap" | SWalSave -> "wal.Save" | SApplySnap -> "ApplySnapshot"
  | SAppend -> "raftStorage.Append" | SSend -> "transport.Send" | SPublish -> "publishEntries"
  | STrigger -> "maybeTriggerSnapshot" | SAdvance -> "Node.Advance"

let run_steporder outfile =
  let oc = open_out_bin outfile in
  List.iter (fun s -> output_string oc (step_name s ^ "\n")) step_order;
  close_out oc

(* ---- recover: C08.  Input:
     SNAPCOUNT <n>
     E c <idhex> <arghex>*  |  E e  |  E f        (log entries from index 1; one Ready per entry)
     END
   The model runs the Readys (every command acknowledged), then the process is killed and
   restarted.  Output:
     BEFORE up|down snap=<index|-> acked=<n>
     AFTER up|down snap=<index|-> keys=<sorted hex keys of the recovered keyspace>  *)
let run_recover infile outfile =
  let oc = open_out_bin outfile in
  let sc = ref N0 and pl = ref [] in
  let env1 = [((Z0, Z0), RNil)] in
  let snap_str d = match d.d_snap with Some i -> string_of_int (int_of_n i) | None -> "-" in
  let updown n = match n with Up (_, _) -> "up" | Down (_, _) -> "down" in
  List.iter (fun l ->
      match split_ws l with
      | ["SNAPCOUNT"; n] -> sc := n_of_int (int_of_string n); pl := []
      | "E" :: "c" :: id :: args -> pl := PCmd (unhx id, List.map unhx args) :: !pl
      | ["E"; "e"] -> pl := PEmpty :: !pl
      | ["E"; "f"] -> pl := PConf :: !pl
      | ["END"] ->
        let log = number_log (n_of_int 1) (List.rev !pl) in
        let rds = List.map (fun e -> ({ r_entries = [e]; r_commit = e.eidx; r_committed = [e] }, env1)) log in
        let start = Up ({ d_wal = []; d_commit = N0; d_snap = None },
                        { v_applied = N0; v_snapidx = N0; v_ks = empty_db; v_acked = [] }) in
        let n1 = run_readys !sc rds start in
        Printf.fprintf oc "BEFORE %s snap=%s acked=%d\n" (updown n1) (snap_str (durable_of n1)) (List.length (acked_of n1));
        let envs = List.map (fun _ -> ((Z0, Z0), RNil)) log in
        let n2 = restart !sc envs (durable_of (crash n1)) in
        let keys = (match keyspace_of n2 with
            | Some ks -> String.concat "," (List.sort compare (List.map (fun (k, _) -> hx k) ks.kv))
            | None -> "") in
        Printf.fprintf oc "AFTER %s snap=%s keys=%s\n" (updown n2) (snap_str (durable_of n2)) keys
      | _ -> ()) (read_lines infile);
  close_out oc

let () =
  match Array.to_list Sys.argv with
  | [_; "steporder"; o] -> run_steporder o
  | [_; "recover"; i; o] -> run_recover i o
  | [_; "lin"; i; o] -> run_lin i o
  | [_; "enc"; i; o] -> run_enc i o
  | [_; "entries"; i; o] -> run_entries i o
  | [_; "apply"; i; o] -> run_apply i o
  | [_; "route"; i; o] -> run_route i o
  | _ -> prerr_endline "usage: clusterrun <enc|entries|apply> <in> <out>"; exit 2
