(* Trusted glue for the C16 runner: conversions between OCaml ints/strings and the extracted Coq
   datatypes of module Walmodel (same conventions as util.ml). *)
open Walmodel

let rec pos_of_int (i : int) : positive =
  if i = 1 then XH
  else if i land 1 = 0 then XO (pos_of_int (i lsr 1))
  else XI (pos_of_int (i lsr 1))

let n_of_int (i : int) : n = if i = 0 then N0 else Npos (pos_of_int i)

let rec int_of_pos (p : positive) : int =
  match p with XH -> 1 | XO q -> 2 * int_of_pos q | XI q -> 2 * int_of_pos q + 1

let int_of_n (x : n) : int = match x with N0 -> 0 | Npos p -> int_of_pos p

let rec nat_of_int (i : int) : nat = if i <= 0 then O else S (nat_of_int (i - 1))
let rec int_of_nat (x : nat) : int =
  let rec go acc = function O -> acc | S k -> go (acc + 1) k in go 0 x

let byte_tab : byte array =
  Array.init 256 (fun i -> match of_N (n_of_int i) with Some b -> b | None -> assert false)

let byte_of_char (c : char) : byte = byte_tab.(Char.code c)
let char_of_byte (b : byte) : char = Char.chr (int_of_n (to_N b))

let bytes_of_string (s : string) : byte list =
  let rec go i acc = if i < 0 then acc else go (i - 1) (byte_of_char s.[i] :: acc) in
  go (String.length s - 1) []

let string_of_bytes (l : byte list) : string =
  let b = Buffer.create 16 in
  List.iter (fun x -> Buffer.add_char b (char_of_byte x)) l;
  Buffer.contents b

let hexval c =
  match c with
  | '0' .. '9' -> Char.code c - 48
  | 'a' .. 'f' -> Char.code c - 87
  | 'A' .. 'F' -> Char.code c - 55
  | _ -> failwith "bad hex"

let unhex (h : string) : string =
  let n = String.length h / 2 in
  String.init n (fun i -> Char.chr ((hexval h.[2 * i] lsl 4) lor hexval h.[(2 * i) + 1]))

let hex (s : string) : string =
  let b = Buffer.create (2 * String.length s) in
  String.iter (fun c -> Buffer.add_string b (Printf.sprintf "%02x" (Char.code c))) s;
  Buffer.contents b

(* unsigned numbers up to 2^64 and beyond travel as lower-case hex without leading zeros *)
let n_of_hexnum (h : string) : n =
  (* build the positive from the most significant hex digit down *)
  let acc = ref N0 in
  String.iter (fun c ->
      let d = hexval c in
      for bit = 3 downto 0 do
        let b = (d lsr bit) land 1 in
        acc := (match !acc with
                | N0 -> if b = 1 then Npos XH else N0
                | Npos p -> Npos (if b = 1 then XI p else XO p))
      done) h;
  !acc

let hexnum_of_n (x : n) : string =
  match x with
  | N0 -> "0"
  | Npos p ->
    (* collect bits least significant first *)
    let rec bits p acc = match p with
      | XH -> 1 :: acc
      | XO q -> bits q (0 :: acc)
      | XI q -> bits q (1 :: acc) in
    let msb_first = bits p [] in
    let nb = List.length msb_first in
    let padn = (4 - nb mod 4) mod 4 in
    let all = List.init padn (fun _ -> 0) @ msb_first in
    let b = Buffer.create 16 in
    let rec go = function
      | a :: b1 :: c :: d :: r ->
        Buffer.add_char b "0123456789abcdef".[(a lsl 3) lor (b1 lsl 2) lor (c lsl 1) lor d]; go r
      | _ -> () in
    go all; Buffer.contents b

(* optional byte strings travel as "nil" or "x<hex>" *)
let opt_of_token (t : string) : byte list option =
  if t = "nil" then None
  else Some (bytes_of_string (unhex (String.sub t 1 (String.length t - 1))))

let token_of_opt (o : byte list option) : string =
  match o with None -> "nil" | Some b -> "x" ^ hex (string_of_bytes b)

let read_lines (path : string) : string list =
  let ic = open_in_bin path in
  let rec go acc = match input_line ic with
    | l -> go (l :: acc)
    | exception End_of_file -> close_in ic; List.rev acc in
  go []

let split_ws (s : string) : string list =
  List.filter (fun x -> x <> "") (String.split_on_char ' ' s)
