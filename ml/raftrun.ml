(* raftrun: runs the extracted Coq models of C15 (coq/Raft) on files written by harness_raft.
   Trusted glue: line parsing, int<->nat conversion, printing.

   raftrun quorum <qcases.txt> <out>
     in : K <n0> <id>*n0 <n1> <id>*n1 <na> (<id> <idx>)*na <nv> (<id> <0|1>)*nv
     out: <ci0> <vr0> <jci> <jvr>     (same rendering as harness_raft quorum: inf / P L W) *)
open Raftmodel

let rec nat_of_int (i : int) : nat = if i <= 0 then O else S (nat_of_int (i - 1))
let int_of_nat (n : nat) : int =
  let rec go n acc = match n with O -> acc | S m -> go m (acc + 1) in
  go n 0

let read_lines (path : string) : string list =
  let ic = open_in_bin path in
  let rec go acc = match input_line ic with
    | l -> go (l :: acc)
    | exception End_of_file -> close_in ic; List.rev acc in
  go []

let split_ws (s : string) : string list =
  List.filter (fun x -> x <> "") (String.split_on_char ' ' s)

let xindex_str = function Top -> "inf" | Fin n -> string_of_int (int_of_nat n)
let vr_str = function VotePending -> "P" | VoteLost -> "L" | VoteWon -> "W"

(* ---------------------------------------------------------------- quorum mode *)

let take_n (n : int) (l : 'a list) : 'a list * 'a list =
  let rec go n l acc =
    if n = 0 then (List.rev acc, l)
    else match l with x :: t -> go (n - 1) t (x :: acc) | [] -> failwith "short line" in
  go n l []

let rec pairs = function
  | a :: b :: t -> (a, b) :: pairs t
  | [] -> []
  | _ -> failwith "odd pair list"

let run_quorum infile outfile =
  let oc = open_out_bin outfile in
  List.iter (fun l ->
      match split_ws l with
      | "K" :: rest ->
        let ints = List.map int_of_string rest in
        let n0, r = (List.hd ints, List.tl ints) in
        let c0, r = take_n n0 r in
        let n1, r = (List.hd r, List.tl r) in
        let c1, r = take_n n1 r in
        let na, r = (List.hd r, List.tl r) in
        let acks, r = take_n (2 * na) r in
        let nv, r = (List.hd r, List.tl r) in
        let votes, r = take_n (2 * nv) r in
        if r <> [] then failwith "trailing tokens";
        let acks = List.map (fun (i, x) -> (i, nat_of_int x)) (pairs acks) in
        let votes = List.map (fun (i, b) -> (i, b = 1)) (pairs votes) in
        let acked (id : nat) : nat option = List.assoc_opt (int_of_nat id) acks in
        let voted (id : nat) : bool option = List.assoc_opt (int_of_nat id) votes in
        let c0 = List.map nat_of_int c0 and c1 = List.map nat_of_int c1 in
        Printf.fprintf oc "%s %s %s %s\n"
          (xindex_str (majority_committed_index c0 acked))
          (vr_str (majority_vote_result c0 voted))
          (xindex_str (joint_committed_index c0 c1 acked))
          (vr_str (joint_vote_result c0 c1 voted))
      | [] -> ()
      | _ -> failwith ("bad line: " ^ l)) (read_lines infile);
  close_out oc

let () =
  match Array.to_list Sys.argv with
  | [_; "quorum"; i; o] -> run_quorum i o
  | _ -> prerr_endline "usage: raftrun quorum <in> <out>"; exit 3
