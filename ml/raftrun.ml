(* raftrun: runs the extracted Coq models of C15 (coq/Raft) on files written by harness_raft.
   Trusted glue: line parsing, int<->nat conversion, printing.

   raftrun quorum <qcases.txt> <out>
     in : K <n0> <id>*n0 <n1> <id>*n1 <na> (<id> <idx>)*na <nv> (<id> <0|1>)*nv
     out: <ci0> <vr0> <jci> <jvr>     (same rendering as harness_raft quorum: inf / P L W) *)
open Raftmodel

let rec nat_of_int (i : int) : nat = if i <= 0 then O else S (nat_of_int (i - 1))
let int_of_nat (n : nat) : int =
  let rec go n acc = match n with O -> acc | S m -> go m (acc + 1) in
  go n 0

let read_lines (path : string) : string list =
  let ic = open_in_bin path in
  let rec go acc = match input_line ic with
    | l -> go (l :: acc)
    | exception End_of_file -> close_in ic; List.rev acc in
  go []

let split_ws (s : string) : string list =
  List.filter (fun x -> x <> "") (String.split_on_char ' ' s)

let xindex_str = function Top -> "inf" | Fin n -> string_of_int (int_of_nat n)
let vr_str = function VotePending -> "P" | VoteLost -> "L" | VoteWon -> "W"

(* ---------------------------------------------------------------- quorum mode *)

let take_n (n : int) (l : 'a list) : 'a list * 'a list =
  let rec go n l acc =
    if n = 0 then (List.rev acc, l)
    else match l with x :: t -> go (n - 1) t (x :: acc) | [] -> failwith "short line" in
  go n l []

let rec pairs = function
  | a :: b :: t -> (a, b) :: pairs t
  | [] -> []
  | _ -> failwith "odd pair list"

let run_quorum infile outfile =
  let oc = open_out_bin outfile in
  List.iter (fun l ->
      match split_ws l with
      | "K" :: rest ->
        let ints = List.map int_of_string rest in
        let n0, r = (List.hd ints, List.tl ints) in
        let c0, r = take_n n0 r in
        let n1, r = (List.hd r, List.tl r) in
        let c1, r = take_n n1 r in
        let na, r = (List.hd r, List.tl r) in
        let acks, r = take_n (2 * na) r in
        let nv, r = (List.hd r, List.tl r) in
        let votes, r = take_n (2 * nv) r in
        if r <> [] then failwith "trailing tokens";
        let acks = List.map (fun (i, x) -> (i, nat_of_int x)) (pairs acks) in
        let votes = List.map (fun (i, b) -> (i, b = 1)) (pairs votes) in
        let acked (id : nat) : nat option = List.assoc_opt (int_of_nat id) acks in
        let voted (id : nat) : bool option = List.assoc_opt (int_of_nat id) votes in
        let c0 = List.map nat_of_int c0 and c1 = List.map nat_of_int c1 in
        Printf.fprintf oc "%s %s %s %s\n"
          (xindex_str (majority_committed_index c0 acked))
          (vr_str (majority_vote_result c0 voted))
          (xindex_str (joint_committed_index c0 c1 acked))
          (vr_str (joint_vote_result c0 c1 voted))
      | [] -> ()
      | _ -> failwith ("bad line: " ^ l)) (read_lines infile);
  close_out oc

(* ---------------------------------------------------------------- trace mode
   raftrun trace <traces.txt> <out>
   in : the trace format of harness_raft sim (see harness_raft/sim.go)
   out: one line per schedule
        S <k> OK events=.. nodes=.. elections=.. commits=.. truncs=.. restarts=.. maxterm=.. maxcommit=.. hash=..
        S <k> FAIL event=<i> reason=<...> | <details> *)

let opt_of_id (i : int) : nat option = if i = 0 then None else Some (nat_of_int i)

let rec ents_of_tokens (toks : string list) : (nat * nat) list =
  match toks with
  | t :: p :: rest -> (nat_of_int (int_of_string t), nat_of_int (int_of_string p)) :: ents_of_tokens rest
  | [] -> []
  | _ -> failwith "odd entry list"

exception Unmodelled of string

let mtype_of_code = function
  | "V" -> MsgVote | "W" -> MsgVoteResp | "A" -> MsgApp | "B" -> MsgAppResp
  | "H" -> MsgHeartbeat | "I" -> MsgHeartbeatResp | "S" -> MsgSnap
  | c -> raise (Unmodelled c)

(* <type> <from> <to> <term> <logterm> <index> <commit> <reject> <nents> (t p)* *)
let msg_of_tokens (toks : string list) : msg =
  match toks with
  | ty :: from :: to_ :: term :: logterm :: index :: commit :: rej :: nents :: rest ->
    let n = int_of_string nents in
    let ents = ents_of_tokens rest in
    if List.length ents <> n then failwith "entry count";
    { m_type = mtype_of_code ty; m_from = nat_of_int (int_of_string from); m_to = nat_of_int (int_of_string to_);
      m_term = nat_of_int (int_of_string term); m_logterm = nat_of_int (int_of_string logterm);
      m_index = nat_of_int (int_of_string index); m_ents = ents; m_commit = nat_of_int (int_of_string commit);
      m_reject = (rej = "1") }
  | ty :: _ when String.length ty > 0 && ty.[0] = 'X' -> raise (Unmodelled ty)
  | _ -> failwith "bad message"

let role_of_code = function "F" -> Follower | "C" -> Candidate | "L" -> Leader | c -> raise (Unmodelled ("role " ^ c))
let role_str = function Follower -> "F" | Candidate -> "C" | Leader -> "L"

let ents_str (l : (nat * nat) list) : string =
  String.concat " " (string_of_int (List.length l) :: List.map (fun (t, p) -> Printf.sprintf "%d %d" (int_of_nat t) (int_of_nat p)) l)

let optid_str = function None -> "0" | Some i -> string_of_int (int_of_nat i)

let proj_str (p : nproj) : string =
  Printf.sprintf "%d %s %d %s %s %s" (int_of_nat p.p_term) (optid_str p.p_vote) (int_of_nat p.p_commit)
    (role_str p.p_role) (optid_str p.p_lead) (ents_str p.p_log)

let mtype_code = function
  | MsgVote -> "V" | MsgVoteResp -> "W" | MsgApp -> "A" | MsgAppResp -> "B" | MsgHeartbeat -> "H" | MsgHeartbeatResp -> "I"
  | MsgSnap -> "S"

let msg_str (m : msg) : string =
  Printf.sprintf "%s %d %d %d %d %d %d %d %s" (mtype_code m.m_type) (int_of_nat m.m_from) (int_of_nat m.m_to)
    (int_of_nat m.m_term) (int_of_nat m.m_logterm) (int_of_nat m.m_index) (int_of_nat m.m_commit)
    (if m.m_reject then 1 else 0) (ents_str m.m_ents)

(* ST <id> <term> <vote> <commit> <role> <lead> <n> (t p)* *)
let proj_of_tokens (toks : string list) : int * nproj =
  match toks with
  | id :: term :: vote :: commit :: role :: lead :: nlog :: rest ->
    let ents = ents_of_tokens rest in
    if List.length ents <> int_of_string nlog then failwith "log length";
    (int_of_string id,
     { p_term = nat_of_int (int_of_string term); p_vote = opt_of_id (int_of_string vote);
       p_commit = nat_of_int (int_of_string commit); p_role = role_of_code role;
       p_lead = opt_of_id (int_of_string lead); p_log = ents })
  | _ -> failwith "bad ST line"

(* re-tabulate the node map so that lookups do not walk the whole update history
   (extensionally the same function) *)
let normalize (n : int) (x : xstate) : xstate =
  let arr = Array.init (n + 1) (fun i -> x.x_nodes (nat_of_int i)) in
  { x_nodes = (fun y -> let i = int_of_nat y in if i <= n then arr.(i) else init_node); x_msgs = x.x_msgs }

let rec is_prefix a b = match a, b with
  | [], _ -> true
  | x :: a', y :: b' -> x = y && is_prefix a' b'
  | _, [] -> false

type group = { g_kind : string; g_id : int; g_args : string list; g_out : string list list; g_st : string list option; g_panic : string option }

let run_trace infile outfile =
  let oc = open_out_bin outfile in
  let lines = read_lines infile in
  (* split into schedules *)
  let cur_k = ref "" and cur_n = ref 0 and header = ref "" in
  let groups : group list ref = ref [] in
  let cur : group option ref = ref None in
  let flush_group () = (match !cur with Some g -> groups := { g with g_out = List.rev g.g_out } :: !groups | None -> ()); cur := None in
  let finish () =
    flush_group ();
    let gs = List.rev !groups in
    groups := [];
    let n = !cur_n in
    let ids = List.init n (fun i -> nat_of_int (i + 1)) in
    let c0 = ids and c1 = [] in
    let x = ref (normalize n x_init) in
    let prev = Array.make (n + 1) (proj_of init_node) in
    let elections = ref 0 and commits = ref 0 and truncs = ref 0 and restarts = ref 0 and maxterm = ref 0 and maxcommit = ref 0 in
    let compactions = ref 0 and snapshots = ref 0 and unstable_deliveries = ref 0 in
    let evtext = Buffer.create 4096 in
    let fail = ref None in
    let idx = ref 0 in
    (try
       List.iter (fun g ->
           incr idx;
           Buffer.add_string evtext (g.g_kind ^ " " ^ string_of_int g.g_id ^ " " ^ String.concat " " g.g_args ^ "\n");
           let idn = nat_of_int g.g_id in
           (match g.g_panic with
            | Some p -> fail := Some (Printf.sprintf "event=%d reason=implementation-panic | %s %d %s | %s" !idx g.g_kind g.g_id (String.concat " " g.g_args) p); raise Exit
            | None -> ());
           let obs = match g.g_st with Some t -> snd (proj_of_tokens t) | None -> failwith "missing ST" in
           let outs = (try List.filter_map (fun t -> match t with "P" :: _ -> None | _ -> Some (msg_of_tokens t)) g.g_out
                       with Unmodelled c -> fail := Some (Printf.sprintf "event=%d reason=unmodelled-message %s" !idx c); raise Exit) in
           let base = if String.length g.g_kind > 1 && g.g_kind.[0] = 'X' then "R" else g.g_kind in
           (* PD = a proposal and, before the Ready loop runs, the delivery of a message: two steps of the
              model (the proposal has no replies), one observation *)
           let base, g_args, outs =
             if base = "PD" then
               (match g.g_args with
                | p :: rest ->
                  (* messages built by the proposal (before the delivered message changed the node) are
                     sent by the same Ready: they are emissions of the FIRST model step *)
                  let ev1 = EvPropose (nat_of_int (int_of_string p)) in
                  let ok1 m = (match model_step c0 c1 !x idn ev1 [m] with Some _ -> true | None -> false) in
                  let extras1 = List.filter ok1 outs in
                  (match model_step c0 c1 !x idn ev1 extras1 with
                   | Some x1 -> x := normalize n x1; incr unstable_deliveries
                   | None -> fail := Some (Printf.sprintf "event=%d reason=bad-event PD" !idx); raise Exit);
                  ("D", rest, List.filter (fun m -> not (ok1 m)) outs)
                | [] -> failwith "bad PD")
             else (base, g.g_args, outs) in
           let candidates : event list =
             (try match base with
                | "C" -> [EvCampaign]
                | "P" -> [EvPropose (nat_of_int (int_of_string (List.hd g.g_args)))]
                | "T" -> [EvTick; EvCampaign]
                | "K" | "SR" -> [EvTick]   (* compaction / snapshot-status report: no modelled state changes *)
                | "R" -> [EvRestart]
                | "D" | "DD" -> [EvRecv (msg_of_tokens g_args)]
                | "FP" | "FPD" -> (match g.g_args with _ :: _ :: _ :: p :: _ -> [EvPropose (nat_of_int (int_of_string p))] | _ -> failwith "bad FP")
                | k -> failwith ("unknown event kind " ^ k)
              with Unmodelled c -> fail := Some (Printf.sprintf "event=%d reason=unmodelled-message %s" !idx c); raise Exit) in
           let rec try_all_ok evs = match evs with
             | [] -> None
             | ev :: rest -> (match check_step c0 c1 !x idn ev outs obs with VOk x' -> Some x' | _ -> try_all_ok rest) in
           let first_verdict = check_step c0 c1 !x idn (List.hd candidates) outs obs in
           let verdict = match first_verdict with
             | VOk _ -> first_verdict
             | v -> (match try_all_ok (List.tl candidates) with Some x' -> VOk x' | None -> v) in
           (match verdict with
            | VOk x' ->
              let x' = normalize n x' in
              let old_n = !x.x_nodes idn and new_n = x'.x_nodes idn in
              if not (step_okb old_n new_n) then
                (fail := Some (Printf.sprintf "event=%d reason=step-safety | before %s | after %s" !idx (proj_str (proj_of old_n)) (proj_str (proj_of new_n))); raise Exit);
              List.iter (fun b ->
                  (* the pair predicates are re-evaluated on every event while logs are short, on
                     long logs (> 64 entries) on every 16th event (matching_okb, quadratic, on every
                     64th): they are implied by the state equality and the theorems anyway *)
                  let long = List.length obs.p_log > 64 in
                  let do_pairs = not long || !idx mod 16 = 0 in
                  let do_match = not long || !idx mod 64 = 0 in
                  if not (election_okb x' idn b
                          && (not do_match || (matching_okb x' idn b && matching_okb x' b idn))
                          && (not do_pairs || (sms_okb x' idn b && lc_okb x' idn b && lc_okb x' b idn))) then
                    (fail := Some (Printf.sprintf "event=%d reason=safety-predicate nodes %d %d | %s | %s" !idx g.g_id (int_of_nat b)
                                     (proj_str (proj_of (x'.x_nodes idn))) (proj_str (proj_of (x'.x_nodes b)))); raise Exit)) ids;
              let p0 = prev.(g.g_id) in
              if obs.p_role = Leader && p0.p_role <> Leader then incr elections;
              if int_of_nat obs.p_commit > int_of_nat p0.p_commit then incr commits;
              if not (is_prefix p0.p_log obs.p_log) then incr truncs;
              if base = "R" then incr restarts;
              if base = "K" then incr compactions;
              if (base = "D" || base = "DD") && (match g.g_args with "S" :: _ -> true | _ -> false) then incr snapshots;
              maxterm := max !maxterm (int_of_nat obs.p_term);
              maxcommit := max !maxcommit (int_of_nat obs.p_commit);
              prev.(g.g_id) <- obs;
              x := x'
            | VBadEvent -> fail := Some (Printf.sprintf "event=%d reason=delivered-message-never-sent | %s" !idx (String.concat " " g.g_args)); raise Exit
            | VMissingReply m -> fail := Some (Printf.sprintf "event=%d reason=missing-reply | model replies: %s | %s %d %s" !idx (msg_str m) g.g_kind g.g_id (String.concat " " g.g_args)); raise Exit
            | VBadEmit m -> fail := Some (Printf.sprintf "event=%d reason=forbidden-message | impl sent: %s | %s %d %s" !idx (msg_str m) g.g_kind g.g_id (String.concat " " g.g_args)); raise Exit
            | VStateMismatch e -> fail := Some (Printf.sprintf "event=%d reason=state-mismatch | model: %s | impl: %s | %s %d %s" !idx (proj_str e) (proj_str obs) g.g_kind g.g_id (String.concat " " g.g_args)); raise Exit)) gs
     with Exit -> ());
    (match !fail with
     | Some f -> Printf.fprintf oc "S %s FAIL %s\n" !cur_k f
     | None ->
       Printf.fprintf oc "S %s OK events=%d nodes=%d elections=%d commits=%d truncs=%d restarts=%d compactions=%d snapshots=%d maxterm=%d maxcommit=%d unstabledeliveries=%d hash=%s\n"
         !cur_k !idx n !elections !commits !truncs !restarts !compactions !snapshots !maxterm !maxcommit !unstable_deliveries (Digest.to_hex (Digest.string (!header ^ Buffer.contents evtext)))) in
  List.iter (fun l ->
      match split_ws l with
      | ["SCHEDULE"; k] -> cur_k := k; groups := []; cur := None
      | "N" :: n :: rest -> cur_n := int_of_string n; header := String.concat " " (n :: rest)
      | "EV" :: kind :: id :: args -> flush_group (); cur := Some { g_kind = kind; g_id = int_of_string id; g_args = args; g_out = []; g_st = None; g_panic = None }
      | "OUT" :: toks -> (match !cur with Some g -> cur := Some { g with g_out = toks :: g.g_out } | None -> ())
      | "ST" :: toks -> (match !cur with Some g -> cur := Some { g with g_st = Some toks } | None -> ())
      | "PANIC" :: toks -> (match !cur with Some g -> cur := Some { g with g_panic = Some (String.concat " " toks) } | None -> ())
      | ["END"; _] -> finish ()
      | [] -> ()
      | _ -> failwith ("bad trace line: " ^ l)) lines;
  close_out oc

(* ---------------------------------------------------------------- tracecc mode
   raftrun tracecc <traces.txt> <out>
   Trace validation of schedules WITH membership changes against RaftCC.exec_cc through the
   extracted check_step_cc (same acceptance rule as trace mode, plus equality of the node's
   configuration).  Header: N <n> <electionTick> <rngseed> <MaxSizePerMsg> <k>: the initial voters
   are 1..k; one committed entry per Ready iff MaxSizePerMsg = 0. *)

let conf_str (c : conf) : string =
  let l x = String.concat "," (List.map (fun i -> string_of_int (int_of_nat i)) x) in
  Printf.sprintf "(%s)&&(%s)%s learners(%s)" (l c.c_in) (l c.c_out) (if c.c_auto then " autoleave" else "") (l c.c_learn)

(* ... <nlog> (t p)* CFG <nin> ids <nout> ids <auto> *)
let split_cfg (toks : string list) : string list * conf =
  let rec go acc = function
    | "CFG" :: rest -> (List.rev acc, rest)
    | x :: t -> go (x :: acc) t
    | [] -> failwith "ST line without CFG" in
  let st, rest = go [] toks in
  let ints = List.map int_of_string rest in
  let nin, r = (List.hd ints, List.tl ints) in
  let cin, r = take_n nin r in
  let nout, r = (List.hd r, List.tl r) in
  let cout, r = take_n nout r in
  let auto, r = (match r with a :: r -> (a = 1, r) | _ -> failwith "bad CFG") in
  let learn = (match r with [] -> [] | nl :: r -> fst (take_n nl r)) in
  (st, { c_in = List.map nat_of_int cin; c_out = List.map nat_of_int cout; c_auto = auto; c_learn = List.map nat_of_int learn })

(* do all quorums of configurations a and b intersect?  (ids 1..n; brute force over the 2^n
   subsets p: a quorum of a inside p and a quorum of b inside the complement of p would be disjoint) *)
let confs_intersect (n : int) (a : nat list * nat list) (b : nat list * nat list) : bool =
  let ok = ref true in
  for mask = 0 to (1 lsl n) - 1 do
    let p (x : nat) = let i = int_of_nat x in i >= 1 && i <= n && (mask lsr (i - 1)) land 1 = 1 in
    let np (x : nat) = not (p x) in
    if joint_satb (fst a) (snd a) p && joint_satb (fst b) (snd b) np then ok := false
  done;
  !ok

let normalize_cc (n : int) (x : cxstate) : cxstate =
  let arr = Array.init (n + 1) (fun i -> x.cx_nodes (nat_of_int i)) in
  { cx_nodes = (fun y -> let i = int_of_nat y in if i <= n then arr.(i) else (init_node, O)); cx_msgs = x.cx_msgs }

let run_tracecc infile outfile =
  let oc = open_out_bin outfile in
  let lines = read_lines infile in
  let cur_k = ref "" and cur_n = ref 0 and header = ref "" and cur_boot = ref 0 and cur_page1 = ref false and cur_skip = ref false and cur_learners = ref false in
  let groups : group list ref = ref [] in
  let cur : group option ref = ref None in
  let flush_group () = (match !cur with Some g -> groups := { g with g_out = List.rev g.g_out } :: !groups | None -> ()); cur := None in
  let finish () =
    flush_group ();
    let gs = List.rev !groups in
    groups := [];
    if !cur_skip then Printf.fprintf oc "S %s SKIP learners\n" !cur_k else
    let n = !cur_n in
    let boot = { c_in = List.init !cur_boot (fun i -> nat_of_int (i + 1)); c_out = []; c_auto = false; c_learn = [] } in
    let page1 = !cur_page1 in
    let x = ref (normalize_cc n cx_init) in
    let fail = ref None in
    let idx = ref 0 and confs = ref 0 and elections = ref 0 and batches = ref 0 and batchconfs = ref 0 and batchconfs_late = ref 0 in
    let prevrole = Array.make (n + 1) Follower and prevcfg = Array.make (n + 1) boot in
    (* every configuration obtained from a prefix of any log seen in this schedule *)
    let family : (nat list * nat list) list ref = ref [(boot.c_in, boot.c_out)] in
    let add_cfg (c : conf) = let k = (c.c_in, c.c_out) in if not (List.mem k !family) then family := k :: !family in
    (try
       List.iter (fun g ->
           incr idx;
           let idn = nat_of_int g.g_id in
           (match g.g_panic with
            | Some p -> fail := Some (Printf.sprintf "event=%d reason=implementation-panic | %s %d %s | %s" !idx g.g_kind g.g_id (String.concat " " g.g_args) p); raise Exit
            | None -> ());
           let sttoks, obs_cfg = match g.g_st with Some t -> split_cfg t | None -> failwith "missing ST" in
           let obs = snd (proj_of_tokens sttoks) in
           let outs = (try List.filter_map (fun t -> match t with "P" :: _ -> None | _ -> Some (msg_of_tokens t)) g.g_out
                       with Unmodelled c -> fail := Some (Printf.sprintf "event=%d reason=unmodelled-message %s" !idx c); raise Exit) in
           let base = if String.length g.g_kind > 1 && g.g_kind.[0] = 'X' then "R" else g.g_kind in
           let candidates : cevent list =
             (try match base with
                | "C" -> [CEv EvCampaign]
                | "P" | "CC" -> [CEv (EvPropose (nat_of_int (int_of_string (List.hd g.g_args))))]
                | "PB" ->
                  (* one MsgProp with several entries, stepped at a leader *)
                  incr batches;
                  List.iteri (fun i a -> let v = int_of_string a in if v >= 100 then (incr batchconfs; if i > 0 then incr batchconfs_late)) g.g_args;
                  [CBatch (List.map (fun a -> nat_of_int (int_of_string a)) g.g_args)]
                | "T" -> [CEv EvTick; CEv EvCampaign]
                | "SR" | "K" -> [CEv EvTick]
                | "R" -> [CEv EvRestart]
                | "D" | "DD" -> [CEv (EvRecv (msg_of_tokens g.g_args))]
                | "FP" | "FPD" -> (match g.g_args with _ :: _ :: _ :: p :: _ -> [CEv (EvPropose (nat_of_int (int_of_string p)))] | _ -> failwith "bad FP")
                | k -> failwith ("unknown event kind " ^ k)
              with Unmodelled c -> fail := Some (Printf.sprintf "event=%d reason=unmodelled-message %s" !idx c); raise Exit) in
           let rec try_all_ok evs = match evs with
             | [] -> None
             | ev :: rest -> (match check_step_cc boot page1 !x idn ev outs obs obs_cfg with CVOk x' -> Some x' | _ -> try_all_ok rest) in
           let first_verdict = check_step_cc boot page1 !x idn (List.hd candidates) outs obs obs_cfg in
           let verdict = match first_verdict with
             | CVOk _ -> first_verdict
             | v -> (match try_all_ok (List.tl candidates) with Some x' -> CVOk x' | None -> v) in
           (match verdict with
            | CVOk x' ->
              if obs.p_role = Leader && prevrole.(g.g_id) <> Leader then incr elections;
              prevrole.(g.g_id) <- obs.p_role;
              if prevcfg.(g.g_id) <> obs_cfg then incr confs;
              prevcfg.(g.g_id) <- obs_cfg;
              (* the envelope of the proved part: the configurations along the COMMITTED prefix *)
              (let rec go k c = function [] -> () | e :: t -> if k > 0 then (let c' = cfg_of c [e] in add_cfg c'; go (k - 1) c' t) in
               go (int_of_nat obs.p_commit) boot obs.p_log);
              x := normalize_cc n x'
            | CVBadEvent -> fail := Some (Printf.sprintf "event=%d reason=delivered-message-never-sent | %s" !idx (String.concat " " g.g_args)); raise Exit
            | CVMissingReply m -> fail := Some (Printf.sprintf "event=%d reason=missing-reply | model replies: %s | %s %d %s" !idx (msg_str m) g.g_kind g.g_id (String.concat " " g.g_args)); raise Exit
            | CVBadEmit m -> fail := Some (Printf.sprintf "event=%d reason=forbidden-message | impl sent: %s | %s %d %s" !idx (msg_str m) g.g_kind g.g_id (String.concat " " g.g_args)); raise Exit
            | CVStateMismatch (e, c) -> fail := Some (Printf.sprintf "event=%d reason=state-mismatch | model: %s cfg %s | impl: %s cfg %s | %s %d %s" !idx (proj_str e) (conf_str c) (proj_str obs) (conf_str obs_cfg) g.g_kind g.g_id (String.concat " " g.g_args)); raise Exit)) gs
     with Exit -> ());
    (match !fail with
     | Some f -> Printf.fprintf oc "S %s FAIL %s\n" !cur_k f
     | None ->
       let fam = !family in
       let inside = List.for_all (fun a -> List.for_all (fun b -> confs_intersect n a b) fam) fam in
       Printf.fprintf oc "S %s OK events=%d nodes=%d elections=%d confswitches=%d configs=%d envelope=%d learners=%d batches=%d batchconfs=%d batchconfslate=%d\n" !cur_k !idx n !elections !confs
         (List.length fam) (if inside then 1 else 0)
         (if !cur_learners then 1 else 0) !batches !batchconfs !batchconfs_late) in
  List.iter (fun l ->
      match split_ws l with
      | ["SCHEDULE"; k] -> cur_k := k; groups := []; cur := None
      | "N" :: n :: _ :: _ :: ms :: k :: rest -> cur_n := int_of_string n; cur_boot := int_of_string k; cur_page1 := (ms = "0"); header := l;
        cur_skip := false; cur_learners := (match rest with f :: _ -> int_of_string f land 4 <> 0 | [] -> false)
      | "EV" :: kind :: id :: args -> flush_group (); cur := Some { g_kind = kind; g_id = int_of_string id; g_args = args; g_out = []; g_st = None; g_panic = None }
      | "OUT" :: toks -> (match !cur with Some g -> cur := Some { g with g_out = toks :: g.g_out } | None -> ())
      | "ST" :: toks -> (match !cur with Some g -> cur := Some { g with g_st = Some toks } | None -> ())
      | "PANIC" :: toks -> (match !cur with Some g -> cur := Some { g with g_panic = Some (String.concat " " toks) } | None -> ())
      | ["END"; _] -> finish ()
      | [] -> ()
      | _ -> failwith ("bad trace line: " ^ l)) lines;
  close_out oc

(* ---------------------------------------------------------------- monitor mode
   raftrun monitor <traces.txt> <out>
   Evaluates the safety predicates directly on the OBSERVED states of the implementation (no
   model stepping): used when trace validation has found a deviation, to look for an actual
   violation of the property.  Per schedule: "S <k> SAFE events=.." or
   "S <k> UNSAFE event=<i> reason=<...> | details". *)

let strip_cfg (toks : string list) : string list =
  let rec go acc = function
    | "CFG" :: _ -> List.rev acc
    | x :: t -> go (x :: acc) t
    | [] -> List.rev acc in
  go [] toks

let nstate_of_proj (p : nproj) : nstate =
  { n_term = p.p_term; n_vote = p.p_vote; n_log = p.p_log; n_commit = p.p_commit; n_role = p.p_role;
    n_lead = p.p_lead; n_votes = (fun _ -> None); n_match = (fun _ -> O) }

let rec take k l = if k <= 0 then [] else match l with [] -> [] | x :: t -> x :: take (k - 1) t

let run_monitor infile outfile =
  let oc = open_out_bin outfile in
  let lines = read_lines infile in
  let cur_k = ref "" and cur_n = ref 0 in
  let groups : group list ref = ref [] in
  let cur : group option ref = ref None in
  let flush_group () = (match !cur with Some g -> groups := { g with g_out = List.rev g.g_out } :: !groups | None -> ()); cur := None in
  let finish () =
    flush_group ();
    let gs = List.rev !groups in
    groups := [];
    let n = !cur_n in
    let ids = List.init n (fun i -> nat_of_int (i + 1)) in
    let arr = Array.make (n + 1) init_node in
    let mk () = { x_nodes = (fun y -> let i = int_of_nat y in if i <= n then arr.(i) else init_node); x_msgs = [] } in
    let leaders : (int, int) Hashtbl.t = Hashtbl.create 16 in
    let committed : (nat * nat) list ref = ref [] in
    let fail = ref None in
    let idx = ref 0 in
    (try
       List.iter (fun g ->
           incr idx;
           (match g.g_panic with
            | Some p -> fail := Some (Printf.sprintf "event=%d reason=implementation-panic | %s %d %s | %s" !idx g.g_kind g.g_id (String.concat " " g.g_args) p); raise Exit
            | None -> ());
           let obs = match g.g_st with Some t -> snd (proj_of_tokens (List.map (fun x -> if x = "Q" then "C" else x) (strip_cfg t))) | None -> failwith "missing ST" in
           let idn = nat_of_int g.g_id in
           let old_n = arr.(g.g_id) in
           let new_n = nstate_of_proj obs in
           if not (step_okb old_n new_n) then begin
             (* which conjunct of step_okb failed (label only) *)
             let ti n = int_of_nat n.n_term and ci n = int_of_nat n.n_commit in
             let why =
               if ti new_n < ti old_n then "term-regressed"
               else if ci new_n < ci old_n then "commit-regressed"
               else if ti new_n = ti old_n && old_n.n_vote <> None && new_n.n_vote <> old_n.n_vote then "vote-changed-within-a-term"
               else if take (ci old_n) new_n.n_log <> take (ci old_n) old_n.n_log then "committed-entry-removed-or-rewritten"
               else "leader-committed-an-entry-of-an-older-term" in
             fail := Some (Printf.sprintf "event=%d reason=%s | node %d before %s | after %s" !idx why g.g_id (proj_str (proj_of old_n)) (proj_str obs)); raise Exit
           end;
           arr.(g.g_id) <- new_n;
           let x = mk () in
           let long = List.length obs.p_log > 64 in
           let do_match = not long || !idx mod 64 = 0 in
           List.iter (fun b ->
               let bad what = fail := Some (Printf.sprintf "event=%d reason=%s nodes %d %d | %s | %s" !idx what g.g_id (int_of_nat b)
                                                (proj_str obs) (proj_str (proj_of (x.x_nodes b)))); raise Exit in
               if not (election_okb x idn b) then bad "two-leaders-in-one-term";
               if do_match && not (matching_okb x idn b && matching_okb x b idn) then bad "log-matching";
               if not (sms_okb x idn b) then bad "different-entries-at-a-committed-index";
               if not (lc_okb x idn b && lc_okb x b idn) then bad "leader-lacks-committed-entry") ids;
           (* one leader per term over the whole run *)
           if obs.p_role = Leader then begin
             let t = int_of_nat obs.p_term in
             (match Hashtbl.find_opt leaders t with
              | Some l when l <> g.g_id -> fail := Some (Printf.sprintf "event=%d reason=two-leaders-in-one-term-over-time term %d nodes %d %d" !idx t l g.g_id); raise Exit
              | _ -> Hashtbl.replace leaders t g.g_id)
           end;
           (* whatever was committed once stays committed, everywhere, forever *)
           let c = int_of_nat obs.p_commit in
           let mine = take c obs.p_log in
           let k = min c (List.length !committed) in
           if take k mine <> take k !committed then
             (fail := Some (Printf.sprintf "event=%d reason=committed-entry-changed | node %d %s" !idx g.g_id (proj_str obs)); raise Exit);
           if c > List.length !committed then committed := mine) gs
     with Exit -> ());
    (match !fail with
     | Some f -> Printf.fprintf oc "S %s UNSAFE %s\n" !cur_k f
     | None ->
       let conf = List.length (List.filter (fun (_, p) -> let i = int_of_nat p in i >= 100 && i < 230) !committed) in
       Printf.fprintf oc "S %s SAFE events=%d leaders=%d committed=%d confcommitted=%d\n" !cur_k !idx
         (Hashtbl.length leaders) (List.length !committed) conf) in
  List.iter (fun l ->
      match split_ws l with
      | ["SCHEDULE"; k] -> cur_k := k; groups := []; cur := None
      | "N" :: n :: _ -> cur_n := int_of_string n
      | "EV" :: kind :: id :: args -> flush_group (); cur := Some { g_kind = kind; g_id = int_of_string id; g_args = args; g_out = []; g_st = None; g_panic = None }
      | "OUT" :: _ -> ()
      | "ST" :: toks -> (match !cur with Some g -> cur := Some { g with g_st = Some toks } | None -> ())
      | "PANIC" :: toks -> (match !cur with Some g -> cur := Some { g with g_panic = Some (String.concat " " toks) } | None -> ())
      | ["END"; _] -> finish ()
      | [] -> ()
      | _ -> failwith ("bad trace line: " ^ l)) lines;
  close_out oc

(* ---------------------------------------------------------------- tracepv mode
   raftrun tracepv <traces.txt> <out>
   Trace validation of schedules with Config.PreVote (header flags = 1, or 3 = with
   Config.CheckQuorum, whose two effects are accepted angelically: PvStepDown on a tick, the
   no-op for an ignored vote request; other schedules are skipped) against RaftPV.exec_pv through the extracted
   check_step_pv.  XPV / XPW = MsgPreVote / MsgPreVoteResp; role Q = pre-candidate. *)

let pmsg_of_tokens (toks : string list) : pmsg =
  match toks with
  | "XPV" :: from :: to_ :: term :: logterm :: index :: _ ->
    PV (nat_of_int (int_of_string from), nat_of_int (int_of_string to_), nat_of_int (int_of_string term),
        nat_of_int (int_of_string logterm), nat_of_int (int_of_string index))
  | "XPW" :: from :: to_ :: term :: _ :: _ :: _ :: rej :: _ ->
    PW (nat_of_int (int_of_string from), nat_of_int (int_of_string to_), nat_of_int (int_of_string term), rej = "1")
  | "XMsgTimeoutNow" :: from :: to_ :: term :: _ ->
    PT (nat_of_int (int_of_string from), nat_of_int (int_of_string to_), nat_of_int (int_of_string term))
  | "XMsgTransferLeader" :: from :: to_ :: term :: _ ->
    PL (nat_of_int (int_of_string from), nat_of_int (int_of_string to_), nat_of_int (int_of_string term))
  | _ -> PB (msg_of_tokens toks)

let pmsg_str = function
  | PB m -> msg_str m
  | PV (f, t, tm, lt, i) -> Printf.sprintf "XPV %d %d %d %d %d" (int_of_nat f) (int_of_nat t) (int_of_nat tm) (int_of_nat lt) (int_of_nat i)
  | PW (f, t, tm, r) -> Printf.sprintf "XPW %d %d %d %s" (int_of_nat f) (int_of_nat t) (int_of_nat tm) (if r then "reject" else "grant")
  | PT (f, t, tm) -> Printf.sprintf "XMsgTimeoutNow %d %d %d" (int_of_nat f) (int_of_nat t) (int_of_nat tm)
  | PL (f, t, tm) -> Printf.sprintf "XMsgTransferLeader %d %d %d" (int_of_nat f) (int_of_nat t) (int_of_nat tm)

let normalize_pv (n : int) (x : pxstate) : pxstate =
  let arr = Array.init (n + 1) (fun i -> x.px_nodes (nat_of_int i)) in
  { px_nodes = (fun y -> let i = int_of_nat y in if i <= n then arr.(i) else (init_node, false)); px_msgs = x.px_msgs }

let run_tracepv infile outfile =
  let oc = open_out_bin outfile in
  let lines = read_lines infile in
  let cur_k = ref "" and cur_n = ref 0 and cur_flags = ref 0 in
  let groups : group list ref = ref [] in
  let cur : group option ref = ref None in
  let flush_group () = (match !cur with Some g -> groups := { g with g_out = List.rev g.g_out } :: !groups | None -> ()); cur := None in
  let finish () =
    flush_group ();
    let gs = List.rev !groups in
    groups := [];
    if (!cur_flags land 1) = 0 || (!cur_flags land 4) <> 0 then Printf.fprintf oc "S %s SKIP flags=%d\n" !cur_k !cur_flags else begin
    let cq = (!cur_flags land 2) <> 0 in
    let tl = (!cur_flags land 8) <> 0 in
    let n = !cur_n in
    let ids = List.init n (fun i -> nat_of_int (i + 1)) in
    let c0 = ids and c1 = [] in
    let x = ref (normalize_pv n px_init) in
    let fail = ref None in
    let idx = ref 0 and prevotes = ref 0 and precand = ref 0 and elections = ref 0 and stepdowns = ref 0 and leased = ref 0 and dropped = ref 0 and timeoutnow = ref 0 in
    let prevrole = Array.make (n + 1) "F" in
    (try
       List.iter (fun g ->
           incr idx;
           let idn = nat_of_int g.g_id in
           (match g.g_panic with
            | Some p -> fail := Some (Printf.sprintf "event=%d reason=implementation-panic | %s %d %s | %s" !idx g.g_kind g.g_id (String.concat " " g.g_args) p); raise Exit
            | None -> ());
           let sttoks = match g.g_st with Some t -> strip_cfg t | None -> failwith "missing ST" in
           let rolecode = List.nth sttoks 4 in
           let obs_pre = (rolecode = "Q") in
           let obs = snd (proj_of_tokens (List.map (fun t -> if t = "Q" then "F" else t) sttoks)) in
           let outs = (try List.filter_map (fun t -> match t with "P" :: _ -> None | _ -> Some (pmsg_of_tokens t)) g.g_out
                       with Unmodelled c -> fail := Some (Printf.sprintf "event=%d reason=unmodelled-message %s" !idx c); raise Exit) in
           let base = if String.length g.g_kind > 1 && g.g_kind.[0] = 'X' then "R" else g.g_kind in
           let candidates : pevent list =
             (try match base with
                | "C" -> [PvCampaign]
                | "P" ->
                  (* a leader drops proposals while a leadership transfer is in progress *)
                  [PvPropose (nat_of_int (int_of_string (List.hd g.g_args)))] @ (if tl then [PvTick] else [])
                | "TL" -> [PvTick]      (* RawNode.TransferLeader: nothing observed changes; it may send MsgTimeoutNow / forward *)
                | "T" ->
                  (* a tick that fired the election timeout of a pre-candidate changes nothing that is
                     observed (same term, same role) but restarts the pre-election: tell it by the
                     MsgPreVote it sends *)
                  (if List.exists (fun m -> match m with PV _ -> true | _ -> false) outs then [PvCampaign; PvTick] else [PvTick; PvCampaign])
                  (* Config.CheckQuorum: the tick may be the one on which the leader finds no active quorum *)
                  @ (if cq then [PvStepDown] else [])
                | "K" | "SR" -> [PvTick]
                | "R" -> [PvRestart]
                | "D" | "DD" ->
                  (* Config.CheckQuorum: a vote request may be ignored altogether (leader lease) *)
                  [PvRecv (pmsg_of_tokens g.g_args)]
                  @ (match g.g_args with ("V" | "XPV") :: _ when cq -> [PvTick] | _ -> [])
                | "FP" | "FPD" -> (match g.g_args with _ :: _ :: _ :: p :: _ -> [PvPropose (nat_of_int (int_of_string p))] @ (if tl then [PvTick] else []) | _ -> failwith "bad FP")
                | k -> failwith ("unknown event kind " ^ k)
              with Unmodelled c -> fail := Some (Printf.sprintf "event=%d reason=unmodelled-message %s" !idx c); raise Exit) in
           let rec try_all_ok evs = match evs with
             | [] -> None
             | ev :: rest -> (match check_step_pv c0 c1 !x idn ev outs obs obs_pre with
                 | PVOk x' ->
                   (match ev, base with
                    | PvStepDown, _ -> incr stepdowns
                    | PvTick, ("D" | "DD") -> incr leased
                    | PvTick, ("P" | "FP" | "FPD") -> incr dropped
                    | _ -> ());
                   Some x'
                 | _ -> try_all_ok rest) in
           let first_verdict = check_step_pv c0 c1 !x idn (List.hd candidates) outs obs obs_pre in
           let verdict = match first_verdict with
             | PVOk _ -> first_verdict
             | v -> (match try_all_ok (List.tl candidates) with Some x' -> PVOk x' | None -> v) in
           (match verdict with
            | PVOk x' ->
              if rolecode = "Q" && prevrole.(g.g_id) <> "Q" then incr precand;
              if rolecode = "L" && prevrole.(g.g_id) <> "L" then incr elections;
              prevrole.(g.g_id) <- rolecode;
              (match g.g_args with "XPW" :: _ when base = "D" || base = "DD" -> incr prevotes | _ -> ());
              (match g.g_args with "XMsgTimeoutNow" :: _ when base = "D" || base = "DD" -> incr timeoutnow | _ -> ());
              x := normalize_pv n x'
            | PVBadEvent -> fail := Some (Printf.sprintf "event=%d reason=delivered-message-never-sent | %s" !idx (String.concat " " g.g_args)); raise Exit
            | PVMissingReply m -> fail := Some (Printf.sprintf "event=%d reason=missing-reply | model replies: %s | %s %d %s" !idx (pmsg_str m) g.g_kind g.g_id (String.concat " " g.g_args)); raise Exit
            | PVBadEmit m -> fail := Some (Printf.sprintf "event=%d reason=forbidden-message | impl sent: %s | %s %d %s" !idx (pmsg_str m) g.g_kind g.g_id (String.concat " " g.g_args)); raise Exit
            | PVStateMismatch (e, pre) -> fail := Some (Printf.sprintf "event=%d reason=state-mismatch | model: %s pre=%b | impl: %s pre=%b | %s %d %s" !idx (proj_str e) pre (proj_str obs) obs_pre g.g_kind g.g_id (String.concat " " g.g_args)); raise Exit)) gs
     with Exit -> ());
    (match !fail with
     | Some f -> Printf.fprintf oc "S %s FAIL %s\n" !cur_k f
     | None -> Printf.fprintf oc "S %s OK events=%d nodes=%d elections=%d precandidacies=%d prevoteresp=%d checkquorum=%d stepdowns=%d leased=%d transfer=%d timeoutnow=%d dropped=%d\n" !cur_k !idx n !elections !precand !prevotes (if cq then 1 else 0) !stepdowns !leased (if tl then 1 else 0) !timeoutnow !dropped)
    end in
  List.iter (fun l ->
      match split_ws l with
      | ["SCHEDULE"; k] -> cur_k := k; groups := []; cur := None
      | "N" :: n :: rest -> cur_n := int_of_string n; cur_flags := (match rest with _ :: _ :: _ :: _ :: f :: _ -> int_of_string f | _ -> 0)
      | "EV" :: kind :: id :: args -> flush_group (); cur := Some { g_kind = kind; g_id = int_of_string id; g_args = args; g_out = []; g_st = None; g_panic = None }
      | "OUT" :: toks -> (match !cur with Some g -> cur := Some { g with g_out = toks :: g.g_out } | None -> ())
      | "ST" :: toks -> (match !cur with Some g -> cur := Some { g with g_st = Some toks } | None -> ())
      | "PANIC" :: toks -> (match !cur with Some g -> cur := Some { g with g_panic = Some (String.concat " " toks) } | None -> ())
      | ["END"; _] -> finish ()
      | [] -> ()
      | _ -> failwith ("bad trace line: " ^ l)) lines;
  close_out oc

let () =
  match Array.to_list Sys.argv with
  | [_; "quorum"; i; o] -> run_quorum i o
  | [_; "trace"; i; o] -> run_trace i o
  | [_; "monitor"; i; o] -> run_monitor i o
  | [_; "tracecc"; i; o] -> run_tracecc i o
  | [_; "tracepv"; i; o] -> run_tracepv i o
  | _ -> prerr_endline "usage: raftrun quorum|trace|monitor|tracecc|tracepv <in> <out>"; exit 3
