(* walrun: replays the case files written by harness_wal through the extracted Coq models of
   C16 (CRC-32C, WAL encoder/decoder/ReadAll/Verify/Repair, crash images, snapshot files) and
   prints one result line per case, in the same format as the harness prints what the Go code did.
   Trusted glue: line parsing, hex, printing, md5 of the canonical result text. *)
open Walmodel
open Walutil

let md5 (s : string) : string = Digest.to_hex (Digest.string s)

let class_name = function
  | CUnexpEOF -> "unexpected_eof" | CSizeLimit -> "size_limit" | CUnmarshal -> "unmarshal"
  | CRecCrc -> "rec_crc" | CChainCrc -> "chain_crc" | CSliceOOR -> "slice_oor"
  | CMetaConflict -> "meta_conflict" | CSnapMismatch -> "snap_mismatch"
  | CBadType -> "bad_type" | CPanic -> "panic"

let part_name = function
  | PLen -> "len" | PTagType -> "tag_type" | PType -> "type" | PTagCrc -> "tag_crc"
  | PCrc -> "crc" | PTagData -> "tag_data" | PDataLen -> "data_len" | PData -> "data"
  | PPad -> "pad" | PFree -> "free"

let hs_str (h : hardstate) =
  Printf.sprintf "%s.%s.%s" (hexnum_of_n h.hs_term) (hexnum_of_n h.hs_vote) (hexnum_of_n h.hs_commit)

let ents_canon (es : entry list) : string =
  let b = Buffer.create 256 in
  List.iter (fun e ->
      Buffer.add_string b (hexnum_of_n e.e_type); Buffer.add_char b ',';
      Buffer.add_string b (hexnum_of_n e.e_term); Buffer.add_char b ',';
      Buffer.add_string b (hexnum_of_n e.e_index); Buffer.add_char b ',';
      Buffer.add_string b (token_of_opt e.e_data); Buffer.add_char b ';') es;
  Buffer.contents b

let res_str (r : rares) : string =
  match r with
  | RAErr c -> "err:" ^ class_name c
  | RAOk (m, h, es, found) ->
    let last = match List.rev es with [] -> "0" | e :: _ -> hexnum_of_n e.e_index in
    Printf.sprintf "ok,found=%d,meta=%s,hs=%s,n=%d,last=%s,md5=%s"
      (if found then 1 else 0) (token_of_opt m) (hs_str h) (List.length es) last (md5 (ents_canon es))

let short_res (r : rares) : string =
  match r with
  | RAErr c -> "err:" ^ class_name c
  | RAOk (_, _, es, _) ->
    let last = match List.rev es with [] -> "0" | e :: _ -> hexnum_of_n e.e_index in
    Printf.sprintf "ok/%d/%s/%s" (List.length es) last (md5 (ents_canon es))

let vres_str (r : rares) : string =
  match r with
  | RAErr c -> "err:" ^ class_name c
  | RAOk (_, h, _, found) -> if found then "ok,hs=" ^ hs_str h else "err:snap_not_found"

let is_ok_nil = function RAOk (_, _, _, true) -> true | _ -> false
let is_err = function RAErr _ -> true | _ -> false

let last_of l = List.nth l (List.length l - 1)

(* ---------------------------------------------------------------- crc mode *)

let run_crc infile outfile =
  let oc = open_out_bin outfile in
  List.iter (fun l ->
      match split_ws l with
      | ["CRC"; prev; data] ->
        let d = if data = "-" then [] else bytes_of_string (unhex data) in
        (* the bitwise definition and the table-driven one the models run must both equal Go's *)
        let a = crc_update (n_of_hexnum prev) d and b = crc_update_tab (n_of_hexnum prev) d in
        if a = b then Printf.fprintf oc "crc %s\n" (hexnum_of_n a)
        else Printf.fprintf oc "crc bitwise=%s table=%s\n" (hexnum_of_n a) (hexnum_of_n b)
      | _ -> ()) (read_lines infile);
  close_out oc

(* ---------------------------------------------------------------- wal mode *)

type walinfo = { segsize : int; meta : byte list option; mutable ops : sop list (* reversed *) }
type dirinfo = { dwid : string; nops : int; mutable files : ((n * n) * byte list) list (* reversed *) }

let dir_digest (files : ((n * n) * byte list) list) : string =
  let b = Buffer.create 4096 in
  List.iter (fun ((sq, ix), c) ->
      Buffer.add_string b (hexnum_of_n sq); Buffer.add_char b '-';
      Buffer.add_string b (hexnum_of_n ix); Buffer.add_char b ':';
      Buffer.add_string b (md5 (string_of_bytes c)); Buffer.add_char b '\n') files;
  md5 (Buffer.contents b)

let rec take k l = if k <= 0 then [] else match l with [] -> [] | x :: r -> x :: take (k - 1) r

let parse_ents (toks : string list) : entry list =
  let rec go = function
    | ty :: tm :: ix :: d :: r ->
      { e_type = n_of_hexnum ty; e_term = n_of_hexnum tm; e_index = n_of_hexnum ix;
        e_data = opt_of_token d } :: go r
    | [] -> []
    | _ -> failwith "bad entry tokens" in
  go toks

let mapi_last f l =
  let n = List.length l in List.mapi (fun i x -> if i = n - 1 then f x else x) l

(* one full observation of a directory state, mirroring what the harness does on the Go side:
   Verify; Open+ReadAll (write mode, tail zeroed on success); on any error: Repair, ReadAll again *)
let observe (si : n) (st : n) (files : ((n * n) * byte list) list) =
  match select_files files si with
  | None -> ("verify=err:open readall=err:open tail=-", RAErr CBadType, None)
  | Some sel ->
    let d = decode_files sel N0 in
    let v = verify_dec si st d in
    let (r, sel') = read_all_w_dec si st sel d in
    let tail = if is_err r then "-" else md5 (string_of_bytes (last_of sel')) in
    let base = Printf.sprintf "verify=%s readall=%s tail=%s" (vres_str v) (res_str r) tail in
    if is_err r then begin
      let (ok, repaired) = repair_files (List.map file_bytes files) in
      let files2 = List.map2 (fun (nm, _) c -> (nm, c)) files repaired in
      match select_files files2 si with
      | None -> (base ^ Printf.sprintf " repair=%d readall2=err:open tail2=-" (if ok then 1 else 0), r, None)
      | Some sel2 ->
        let (r2, sel2') = read_all_w si st sel2 in
        let tail2 = if is_err r2 then "-" else md5 (string_of_bytes (last_of sel2')) in
        (base ^ Printf.sprintf " repair=%d readall2=%s tail2=%s" (if ok then 1 else 0) (res_str r2) tail2,
         r, Some r2)
    end else (base, r, None)

let run_wal infile outfile oraclefile =
  let wals : (string, walinfo) Hashtbl.t = Hashtbl.create 16 in
  let dirs : (string, dirinfo) Hashtbl.t = Hashtbl.create 64 in
  (* cache: pristine record lists per (did, si) *)
  let pristine : (string * string, (wrec list list * wrec list) option) Hashtbl.t = Hashtbl.create 64 in
  let lives : (string, (string * string * string * string * string * string * wop list ref)) Hashtbl.t = Hashtbl.create 64 in
  let oc = open_out_bin outfile and oo = open_out_bin oraclefile in
  let get_dir did = let d = Hashtbl.find dirs did in List.rev d.files in
  let get_pristine did sihex si =
    match Hashtbl.find_opt pristine (did, sihex) with
    | Some x -> x
    | None ->
      let files = get_dir did in
      let x = match select_files files si with
        | None -> None
        | Some sel ->
          let per = decode_each sel N0 in
          Some (per, List.concat per) in
      Hashtbl.replace pristine (did, sihex) x; x in
  let nsel_skipped did si =
    (* number of files of the directory that Open(snap) skips *)
    let files = get_dir did in
    match select_files files si with
    | None -> 0
    | Some sel -> List.length files - List.length sel in
  let oracle_of si st written kmin r =
    if is_ok_nil r then (if prefix_ok si st written (nat_of_int kmin) r then "ok" else "BAD") else "na" in
  let handle l =
    match split_ws l with
    | ["WAL"; wid; segsize; meta] ->
      Hashtbl.replace wals wid { segsize = int_of_string segsize; meta = opt_of_token meta; ops = [] }
    | "OPSAVE" :: wid :: term :: vote :: commit :: _nents :: ents ->
      let w = Hashtbl.find wals wid in
      w.ops <- SOp (OpSave ({ hs_term = n_of_hexnum term; hs_vote = n_of_hexnum vote; hs_commit = n_of_hexnum commit },
                       parse_ents ents)) :: w.ops
    | ["OPSNAP"; wid; index; term; conf] ->
      let w = Hashtbl.find wals wid in
      w.ops <- SOp (OpSnap { ws_index = n_of_hexnum index; ws_term = n_of_hexnum term; ws_conf = opt_of_token conf }) :: w.ops
    | ["OPCUT"; wid] ->
      let w = Hashtbl.find wals wid in w.ops <- SOp OpCut :: w.ops
    | ["OPREOPEN"; wid; si; st] ->
      (* Close; Open(snapshot si/st); ReadAll: a new session on the same directory *)
      let w = Hashtbl.find wals wid in w.ops <- SReopen (n_of_hexnum si, n_of_hexnum st) :: w.ops
    | ["DIR"; did; wid; nops; _nfiles] ->
      Hashtbl.replace dirs did { dwid = wid; nops = int_of_string nops; files = [] }
    | ["F"; did; sq; ix; h] ->
      let d = Hashtbl.find dirs did in
      d.files <- ((n_of_hexnum sq, n_of_hexnum ix), bytes_of_string (unhex h)) :: d.files
    | ["ENDDIR"; did] ->
      let d = Hashtbl.find dirs did in
      if d.nops >= 0 then begin
        (* the writer model, run on the first nops operations, must produce this directory *)
        let w = Hashtbl.find wals d.dwid in
        let ops = take d.nops (List.rev w.ops) in
        let (ws, _) = s_run_d (n_of_int w.segsize) w.meta ops in
        let mf = w_files (n_of_int w.segsize) ws in
        Printf.fprintf oc "D %s %s\n" did (dir_digest mf)
      end
    | ["READ"; cid; did; sihex; sthex] ->
      let si = n_of_hexnum sihex and st = n_of_hexnum sthex in
      let files = get_dir did in
      let (line, r, r2) = observe si st files in
      Printf.fprintf oc "R %s %s\n" cid line;
      let written = match get_pristine did sihex si with Some (_, w) -> w | None -> [] in
      (* ops-level oracle: a read from index 0 of a directory taken at a sync point (nops >= 0)
         must be exactly what the script specifies (spec_run; theorem C16_spec_read_ok) *)
      let d = Hashtbl.find dirs did in
      let spec =
        if d.nops >= 0 && sihex = "0" && sthex = "0" then begin
          let w = Hashtbl.find wals d.dwid in
          if spec_read_ok w.meta (sops_wops (take d.nops (List.rev w.ops))) r then "ok" else "BAD"
        end else "na" in
      (* a read from a recorded snapshot: exactly the specified entries above its index *)
      let specat =
        if d.nops >= 0 && sihex <> "0" && is_ok_nil r then begin
          let w = Hashtbl.find wals d.dwid in
          if spec_read_at_ok (sops_wops (take d.nops (List.rev w.ops))) si r then "ok" else "BAD"
        end else "na" in
      Printf.fprintf oo "O %s kind=READ oracle=%s oracle2=%s nrec=%d spec=%s specat=%s\n" cid
        (oracle_of si st written (List.length written) r)
        (match r2 with Some x -> oracle_of si st written 0 x | None -> "na")
        (List.length written) spec specat
    | ["K"; cid; did; sihex; sthex; nops] ->
      (* process-kill image taken when the nops-th operation returned: read it like any
         directory; the result must contain every completed save (completed_ok, theorem
         C16_completed_save_durable) and the image must contain the model's durable state *)
      let si = n_of_hexnum sihex and st = n_of_hexnum sthex in
      let files = get_dir did in
      let (line, r, _) = observe si st files in
      Printf.fprintf oc "R %s %s\n" cid line;
      let d = Hashtbl.find dirs did in
      let w = Hashtbl.find wals d.dwid in
      let ops = take (int_of_string nops) (List.rev w.ops) in
      let (_, dur) = s_run_d (n_of_int w.segsize) w.meta ops in
      Printf.fprintf oo "O %s kind=K durable=%s prefix=%s nops=%s\n" cid
        (if completed_ok (sops_wops ops) r then "ok" else "BAD")
        (if kill_prefix_ok dur files then "ok" else "BAD") nops
    | ["M"; cid; did; sihex; sthex; fidx; off; v] ->
      let si = n_of_hexnum sihex and st = n_of_hexnum sthex in
      let files = get_dir did in
      let fi = int_of_string fidx and o = int_of_string off in
      let files' = List.mapi (fun i (nm, c) ->
          if i = fi then (nm, set_byte (n_of_int o) byte_tab.(int_of_string v) c) else (nm, c)) files in
      let (line, r, r2) = observe si st files' in
      Printf.fprintf oc "R %s %s\n" cid line;
      (match get_pristine did sihex si with
       | None -> Printf.fprintf oo "O %s kind=M oracle=na oracle2=na part=unselected rec=0 rtype=0\n" cid
       | Some (per, written) ->
         let skipped = nsel_skipped did si in
         let (k, p, rt) =
           if fi < skipped || fi - skipped >= List.length per then (0, "unselected", "0")
           else begin
             let rs = List.nth per (fi - skipped) in
             let (k, p) = locate rs N0 (n_of_int o) in
             let ki = int_of_n k in
             let rt = if ki < List.length rs then hexnum_of_n (List.nth rs ki).r_type else "0" in
             (ki, part_name p, rt)
           end in
         Printf.fprintf oo "O %s kind=M oracle=%s oracle2=%s part=%s rec=%d rtype=%s\n" cid
           (oracle_of si st written 0 r)
           (match r2 with Some x -> oracle_of si st written 0 x | None -> "na") p k rt)
    | ["L2"; cid; did; xid; sihex; sthex; synced; sectors; _n] ->
      Hashtbl.replace lives cid (did, xid, sihex, sthex, synced, sectors, ref [])
    | "L2OP" :: cid :: "OPSAVE" :: _wid :: term :: vote :: commit :: _nents :: ents ->
      let (_, _, _, _, _, _, ops) = Hashtbl.find lives cid in
      ops := OpSave ({ hs_term = n_of_hexnum term; hs_vote = n_of_hexnum vote; hs_commit = n_of_hexnum commit },
                     parse_ents ents) :: !ops
    | ["L2END"; cid] ->
      (* two lives: life 1 = the crash image opened for append (after Repair when torn), life 2 =
         the directory the real code left after appending the saves and closing, read again *)
      let (did, xid, sihex, sthex, synced, sectors, ops) = Hashtbl.find lives cid in
      let si = n_of_hexnum sihex and st = n_of_hexnum sthex in
      let files = get_dir did in
      let sy = n_of_int (int_of_string synced) in
      let lost = if sectors = "-" then [] else
          List.map (fun s -> n_of_int (int_of_string s)) (String.split_on_char ',' sectors) in
      let img = mapi_last (fun (nm, c) -> (nm, crash_image_list sy lost c)) files in
      let (_, ra, rb) = observe si st img in
      let (r1, rep) = match rb with
        | None -> (ra, "-")
        | Some x -> (x, (if is_err ra then (let (ok, _) = repair_files (List.map file_bytes img) in if ok then "1" else "0") else "-")) in
      if is_err r1 then
        Printf.fprintf oc "R %s life1=%s repair=%s steps=- life2=-\n" cid (res_str r1) rep
      else begin
        let ops2 = List.rev !ops in
        (* a restart after each appended save *)
        let bad = ref (-1) in
        let steps = List.mapi (fun i _ ->
            let fl = get_dir (Printf.sprintf "x%s_%d" cid i) in
            let r = match select_files fl si with
              | None -> RAErr CBadType
              | Some sel -> read_all true si st sel in
            if !bad < 0 && not (second_life_ok r1 (take (i + 1) ops2) r) then bad := i;
            short_res r) ops2 in
        let final = get_dir xid in
        let (line2, r2, _) = observe si st final in
        Printf.fprintf oc "R %s life1=%s repair=%s steps=%s life2=%s\n" cid (res_str r1) rep (String.concat "|" steps) line2;
        let fin_ok = second_life_ok r1 ops2 r2 in
        Printf.fprintf oo "O %s kind=L second=%s nops2=%d badstep=%d\n" cid
          (if !bad < 0 && fin_ok then "ok" else "BAD") (List.length ops2) !bad
      end
    | ["T"; cid; did; sihex; sthex; fidx; size; synced] ->
      (* truncation image: file fidx ends after size bytes (C16_truncated_tail) *)
      let si = n_of_hexnum sihex and st = n_of_hexnum sthex in
      let files = get_dir did in
      let fi = int_of_string fidx and sz = int_of_string size in
      let sy = n_of_int (int_of_string synced) in
      let files' = List.mapi (fun i (nm, c) -> if i = fi then (nm, take sz c) else (nm, c)) files in
      let (line, r, r2) = observe si st files' in
      Printf.fprintf oc "R %s %s\n" cid line;
      (match get_pristine did sihex si with
       | None -> Printf.fprintf oo "O %s kind=T oracle=na oracle2=na kmin=0 shape=ok\n" cid
       | Some (per, written) ->
         let nper = List.length per in
         let before = List.concat (take (nper - 1) per) in
         let lastrs = last_of per in
         let kmin = List.length before + int_of_nat (count_synced lastrs N0 sy) in
         let shape_ok =
           (match r with RAOk _ -> true | RAErr CUnexpEOF -> true | _ -> false)
           && (match r2 with None -> true | Some (RAOk _) -> true | Some _ -> false) in
         Printf.fprintf oo "O %s kind=T oracle=%s oracle2=%s kmin=%d shape=%s\n" cid
           (oracle_of si st written kmin r)
           (match r2 with Some x -> oracle_of si st written kmin x | None -> "na")
           kmin (if shape_ok then "ok" else "BAD"))
    | ["Z"; cid; did; sihex; sthex; synced; sectors] ->
      let si = n_of_hexnum sihex and st = n_of_hexnum sthex in
      let files = get_dir did in
      let sy = n_of_int (int_of_string synced) in
      let lost = if sectors = "-" then [] else
          List.map (fun s -> n_of_int (int_of_string s)) (String.split_on_char ',' sectors) in
      let files' = mapi_last (fun (nm, c) -> (nm, crash_image_list sy lost c)) files in
      let (line, r, r2) = observe si st files' in
      Printf.fprintf oc "R %s %s\n" cid line;
      (match get_pristine did sihex si with
       | None -> Printf.fprintf oo "O %s kind=Z oracle=na oracle2=na nocoin=1 kmin=0 shape=ok\n" cid
       | Some (per, written) ->
         let nper = List.length per in
         let before = List.concat (take (nper - 1) per) in
         let lastrs = last_of per in
         let kmin = List.length before + int_of_nat (count_synced lastrs N0 sy) in
         (* digest state in front of the last file: the crc of the last record before it *)
         let crc0 = match List.rev before with [] -> N0 | r :: _ -> r.r_crc in
         let orig = snd (last_of files) and img = snd (last_of files') in
         let nocoin = no_crc_coincidence sy orig img N0 crc0 lastrs in
         (* the shape the torn-tail theorem predicts: ReadAll is fine or reports a repairable
            io.ErrUnexpectedEOF, and after Repair it is fine *)
         let shape_ok =
           (match r with RAOk _ -> true | RAErr CUnexpEOF -> true | _ -> false)
           && (match r2 with None -> true | Some (RAOk _) -> true | Some _ -> false) in
         Printf.fprintf oo "O %s kind=Z oracle=%s oracle2=%s nocoin=%d kmin=%d shape=%s\n" cid
           (oracle_of si st written kmin r)
           (match r2 with Some x -> oracle_of si st written kmin x | None -> "na")
           (if nocoin then 1 else 0) kmin (if shape_ok then "ok" else "BAD"))
    | _ -> () in
  let ic = open_in_bin infile in
  (try while true do handle (input_line ic) done with End_of_file -> ());
  close_in ic; close_out oc; close_out oo

(* ---------------------------------------------------------------- snap mode *)

(* SNAPENC <hexdata>                    -> "E <md5 of the file bytes Snapshotter.save writes>"
   SNAP <cid> <n> {<namehex> <hex|->}*  -> "S <cid> load=<ok:md5(data)|nosnap> broken=<names>" *)
let run_snap infile outfile =
  let oc = open_out_bin outfile in
  List.iter (fun l ->
      match split_ws l with
      | ["SNAPENC"; h] ->
        Printf.fprintf oc "E %s\n" (md5 (string_of_bytes (snap_file_of (bytes_of_string (unhex h)))))
      | "SNAP" :: cid :: _n :: rest ->
        let rec pairs = function
          | nm :: c :: r -> (bytes_of_string (unhex nm), (if c = "-" then [] else bytes_of_string (unhex c))) :: pairs r
          | [] -> []
          | _ -> failwith "bad SNAP line" in
        let dir = pairs rest in
        let (res, broken) = snap_load dir in
        let bs = List.sort compare (List.map string_of_bytes broken) in
        Printf.fprintf oc "S %s load=%s broken=%s\n" cid
          (match res with None -> "nosnap" | Some (_, d) -> "ok:" ^ md5 (string_of_bytes d))
          (if bs = [] then "-" else String.concat "," (List.map hex bs))
      | _ -> ()) (read_lines infile);
  close_out oc

let () =
  match Array.to_list Sys.argv with
  | [_; "crc"; infile; outfile] -> run_crc infile outfile
  | [_; "wal"; infile; outfile; oraclefile] -> run_wal infile outfile oraclefile
  | [_; "snap"; infile; outfile] -> run_snap infile outfile
  | _ -> prerr_endline "usage: walrun crc|wal|snap <in> <out> [<oracle-out>]"; exit 2
