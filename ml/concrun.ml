(* concrun: linearizability of recorded concurrent histories against the extracted sequential
   keyspace model (srv_exec), and the stripe-hash comparison with Go.

   lin <infile> <outfile> <budget>
     infile: components, each
       COMP <name>
       KEYS <hexkey> ...
       O <id> <inv> <res> <sec> <ms> <mode> | <observed reply>      mode: one | sum | concat | pending
       G <hexarg> ...                                              one line per stage of the op
       FINAL <dump line>                                           expected quiescent dump of KEYS
       NOFINAL                                                     (do not check the final state)
       END
     An op is a sequence of stages (single model commands) that must each take effect at some
     instant between inv and res, in order; "one" has a single stage whose reply must equal the
     observed one; "sum" adds the integer replies of its stages; "concat" concatenates their
     array replies; "pending" ops may or may not take effect and their reply is unknown;
     "each": the observed field lists one expected reply per stage ("e0 ;; e1 ;; ...").
     Search: Wing-Gong/Lowe backtracking with memoisation on (progress vector, model state).
   hash <infile> <outfile> <nlocks>: per hex key "<hex> <hash_key> <stripe>" *)
open Model
open Util
open Memrun

type op = {
  id : string; inv : int; res : int; sec : z; ms : z; rsec : z; rms : z; mode : string; obs : string;
  stages : (byte list list) array; name : string;
}

let max_int_res = max_int

(* "a ;; b ;; c" -> [a; b; c] *)
let split_on_sep (s : string) : string list =
  let n = String.length s in
  let rec go i start acc =
    if i + 4 <= n && String.sub s i 4 = " ;; " then go (i + 4) (i + 4) (String.sub s start (i - start) :: acc)
    else if i >= n then List.rev (String.sub s start (n - start) :: acc)
    else go (i + 1) start acc in
  go 0 0 []

(* The implementation reads the wall clock somewhere between invocation and response.  The
   candidate clocks (seconds, milliseconds) a step of the op may have seen: the invocation
   instant, every later second boundary up to the response, the response instant -- and, for a
   command whose reply carries the millisecond it read (XADD with an auto-generated id), that
   millisecond clamped into [invocation, response]. *)
let zi (z : z) : int = int_of_string (string_of_z z)
let iz (i : int) : z = z_of_string (string_of_int i)

let clocks (o : op) : (z * z) list =
  let s0 = zi o.sec and m0 = zi o.ms and s1 = zi o.rsec and m1 = zi o.rms in
  let base = [(s0, m0)] in
  let bounds = List.filter (fun (s, _) -> s > s0 && s <= s1)
      (List.init (max 0 (min 5 (s1 - s0))) (fun i -> (s0 + i + 1, (s0 + i + 1) * 1000))) in
  let last = if m1 > m0 then [(s1, m1)] else [] in
  let from_reply =
    if o.name = "xadd" && String.length o.obs > 1 && o.obs.[0] = '$' && o.obs <> "$nil" then begin
      match (try Some (unhex (String.sub o.obs 1 (String.length o.obs - 1))) with _ -> None) with
      | Some id ->
        (match String.index_opt id '-' with
         | Some i ->
           (match int_of_string_opt (String.sub id 0 i) with
            | Some ms -> let ms = max m0 (min m1 ms) in [(ms / 1000, ms)]
            | None -> [])
         | None -> [])
      | None -> []
    end else [] in
  let all = from_reply @ base @ bounds @ last in
  let rec dedup l = match l with [] -> [] | x :: r -> x :: dedup (List.filter (fun y -> y <> x) r) in
  List.map (fun (s, m) -> (iz s, iz m)) (dedup all)

let strip_ttl (l : string) : string =
  (* "D 0 <key> <ttl> <rest>": deadlines are compared as present/absent only *)
  match split_ws l with
  | "D" :: i :: k :: t :: rest -> String.concat " " ("D" :: i :: k :: (if t = "-" then "-" else "T") :: rest)
  | _ -> l

let check_component name keys ops final nofinal budget =
  let n = Array.length ops in
  let prog = Bytes.make n '\000' in
  let partial = Array.make n [] in            (* replies of the stages done so far, reversed *)
  let memo : (string, unit) Hashtbl.t = Hashtbl.create 64 in
  let nodes = ref 0 in
  let best = ref (-1) and best_info = ref "" in
  let exception Found in
  let exception Budget in
  let nat_of_int i = let rec go i acc = if i <= 0 then acc else go (i - 1) (S acc) in go i O in
  let srv0 = srv_init (nat_of_int 1) in
  let finished i = Char.code (Bytes.get prog i) >= Array.length ops.(i).stages in
  let required i = ops.(i).mode <> "pending" in
  let keyset = List.map (fun k -> hx k) keys in
  let final_ok srv last_sec =
    if nofinal then true else begin
      let d = (match srv.sdbs with d :: _ -> d | [] -> failwith "no db") in
      let lines = List.filter (fun l -> match split_ws l with
          | _ :: _ :: k :: _ -> List.mem k keyset | _ -> false) (dump_db 0 d last_sec) in
      List.sort compare (List.map strip_ttl lines) = List.sort compare (List.map strip_ttl final)
    end in
  let combine o (rs : reply list) : string =
    match o.mode with
    | "one" -> (match rs with [r] -> canon_for_cmd o.name (print_reply r) | _ -> "?")
    | "sum" ->
      let tot = List.fold_left (fun acc r -> match r, acc with
          | RInt z, Some a -> Some (a + int_of_string (string_of_z z))
          | _ -> None) (Some 0) rs in
      (match tot, rs with
       | _, [r] -> print_reply r
       | Some t, _ -> ":" ^ string_of_int t
       | None, r :: _ -> print_reply r
       | None, [] -> "?")
    | "concat" ->
      let parts = List.concat_map (fun r -> match r with RArr l -> List.map print_reply l | r -> [print_reply r]) rs in
      (match rs with
       | [RArr _] | _ :: _ :: _ -> "*[" ^ String.concat " " parts ^ "]"
       | [r] -> print_reply r
       | [] -> "?")
    | _ -> "?" in
  (* early pruning of staged ops: a stage of a "concat" op must already produce its slice of
     the observed array; the partial sum of a "sum" op may not exceed the observed total *)
  let obs_elems = Array.map (fun o ->
      if o.mode = "concat" && starts_with o.obs "*[" then
        Array.of_list (split_top (String.sub o.obs 2 (String.length o.obs - 3)))
      else [||]) ops in
  let stage_plausible o st (r : reply) (prev : reply list) : bool =
    match o.mode with
    | "concat" ->
      let idx = (let rec find j = if j >= n then -1 else if ops.(j) == o then j else find (j + 1) in find 0) in
      let el = obs_elems.(idx) in
      (match r with
       | RArr [x] -> Array.length el = Array.length o.stages && st < Array.length el && print_reply x = el.(st)
       | _ -> true)
    | "sum" ->
      (match r, (if starts_with o.obs ":" then int_of_string_opt (String.sub o.obs 1 (String.length o.obs - 1)) else None) with
       | RInt z, Some total ->
         let sofar = List.fold_left (fun acc p -> match p with RInt y -> acc + int_of_string (string_of_z y) | _ -> acc) 0 prev in
         sofar + int_of_string (string_of_z z) <= total
       | _ -> true)
    | _ -> true in
  let depth = ref 0 in
  let last_sec = ref (z_of_string "0") in
  let rec search srv =
    incr nodes;
    if !nodes > budget then raise Budget;
    (* all required ops finished? *)
    let alldone = ref true in
    for i = 0 to n - 1 do if required i && not (finished i) then alldone := false done;
    if !alldone && final_ok srv !last_sec then raise Found;
    (* the replies of the stages already done decide whether a staged op can still match *)
    let key = Digest.string (Bytes.to_string prog ^ Marshal.to_string (srv, partial) []) in
    if Hashtbl.mem memo key then () else begin
      Hashtbl.add memo key ();
      (* the earliest response among unfinished required ops bounds what may come next *)
      let minres = ref max_int_res in
      for i = 0 to n - 1 do
        if required i && not (finished i) && ops.(i).res < !minres then minres := ops.(i).res
      done;
      if !depth > !best then begin
        best := !depth;
        let stuck = ref [] in
        for i = 0 to n - 1 do
          if not (finished i) && ops.(i).inv < !minres && required i then begin
            let o = ops.(i) in
            let st = Char.code (Bytes.get prog i) in
            let (r, _) = srv_exec srv (z_of_string "0") o.sec o.ms o.stages.(st) (if o.mode = "one" then parse_reply o.obs else RNil) in
            stuck := Printf.sprintf "op %s stage %d: model=%s observed=%s" o.id st (print_reply r) o.obs :: !stuck
          end
        done;
        best_info := String.concat "; " (List.rev !stuck)
      end;
      for i = 0 to n - 1 do
        if not (finished i) && ops.(i).inv < !minres then begin
          let o = ops.(i) in
          let st = Char.code (Bytes.get prog i) in
          let hint = if o.mode = "one" then parse_reply o.obs else RNil in
          let last = st + 1 = Array.length o.stages in
          let tried = ref [] in
          List.iter (fun (csec, cms) ->
              let (r, srv') = srv_exec srv (z_of_string "0") csec cms o.stages.(st) hint in
              (* two clocks with the same reply and the same next state are one alternative *)
              let sig_ = Digest.string (Marshal.to_string (r, srv') []) in
              if not (List.mem sig_ !tried) then begin
                tried := sig_ :: !tried;
                let ok =
                  if o.mode = "pending" then true
                  else if o.mode = "each" then
                    (* every stage has its own expected reply: "<e0> ;; <e1> ;; ..." *)
                    (let exp = split_on_sep o.obs in
                     st < List.length exp && print_reply r = List.nth exp st)
                  else if not last then stage_plausible o st r partial.(i)
                  else combine o (List.rev (r :: partial.(i))) = o.obs in
                if ok then begin
                  Bytes.set prog i (Char.chr (st + 1));
                  let saved = partial.(i) in
                  partial.(i) <- r :: saved;
                  incr depth;
                  search srv';
                  decr depth;
                  partial.(i) <- saved;
                  Bytes.set prog i (Char.chr st)
                end
              end) (clocks o)
        end
      done
    end in
  Array.iter (fun o -> if compare o.sec !last_sec > 0 then last_sec := o.sec) ops;
  (* z values: compare structurally via decimal strings *)
  last_sec := Array.fold_left (fun acc o ->
      if int_of_string (string_of_z o.sec) > int_of_string (string_of_z acc) then o.sec else acc) (z_of_string "0") ops;
  match search srv0 with
  | () -> Printf.sprintf "NONLIN %s ops=%d nodes=%d deepest=%d %s" name n !nodes !best !best_info
  | exception Found -> Printf.sprintf "OK %s ops=%d nodes=%d" name n !nodes
  | exception Budget -> Printf.sprintf "BUDGET %s ops=%d nodes=%d deepest=%d" name n !nodes !best

let run_lin infile outfile budget =
  let oc = open_out_bin outfile in
  let name = ref "" and keys = ref [] and ops = ref [] and final = ref [] and nofinal = ref false in
  let cur = ref None in
  let flush_op () =
    (match !cur with
     | Some (o, st) -> ops := { o with stages = Array.of_list (List.rev st) } :: !ops
     | None -> ());
    cur := None in
  List.iter (fun l ->
      if starts_with l "COMP " then begin
        name := String.sub l 5 (String.length l - 5); keys := []; ops := []; final := []; nofinal := false; cur := None
      end else if starts_with l "KEYS" then
        keys := List.map unhx (List.tl (split_ws l))
      else if starts_with l "O " then begin
        flush_op ();
        let bar = String.index l '|' in
        let left = split_ws (String.sub l 0 bar) in
        let obs = String.trim (String.sub l (bar + 1) (String.length l - bar - 1)) in
        (match left with
         | [_; id; inv; res; sec; ms; rsec; rms; mode] ->
           cur := Some ({ id; inv = int_of_string inv; res = int_of_string res; sec = z_of_string sec;
                          ms = z_of_string ms; rsec = z_of_string rsec; rms = z_of_string rms;
                          mode; obs; stages = [||]; name = "" }, [])
         | _ -> failwith ("bad O line: " ^ l))
      end else if starts_with l "G " then begin
        let args = List.map unhx (List.tl (split_ws l)) in
        (match !cur with
         | Some (o, st) ->
           let nm = (match args with a :: _ -> String.lowercase_ascii (string_of_bytes a) | [] -> "") in
           cur := Some ({ o with name = nm }, args :: st)
         | None -> failwith "G without O")
      end else if starts_with l "FINAL " then final := String.sub l 6 (String.length l - 6) :: !final
      else if starts_with l "NOFINAL" then nofinal := true
      else if starts_with l "END" then begin
        flush_op ();
        let arr = Array.of_list (List.rev !ops) in
        (* candidates are tried in invocation order *)
        Array.stable_sort (fun a b -> compare a.inv b.inv) arr;
        output_string oc (check_component !name !keys arr !final !nofinal budget ^ "\n")
      end) (read_lines infile);
  close_out oc

let run_hash infile outfile nlocks =
  let oc = open_out_bin outfile in
  List.iter (fun l ->
      let l = String.trim l in
      if l <> "" then begin
        let k = unhx l in
        let h = hash_key k and s = stripe (n_of_int nlocks) k in
        Printf.fprintf oc "%s %d %d\n" l (int_of_n h) (int_of_n s)
      end) (read_lines infile);
  close_out oc

let run_modelled outfile names =
  let oc = open_out_bin outfile in
  List.iter (fun nm -> Printf.fprintf oc "%s %b\n" nm (modelled (bytes_of_string nm))) names;
  close_out oc

let () =
  match Array.to_list Sys.argv with
  | [_; "lin"; infile; outfile; budget] -> run_lin infile outfile (int_of_string budget)
  | [_; "hash"; infile; outfile; nlocks] -> run_hash infile outfile (int_of_string nlocks)
  | _ :: "modelled" :: outfile :: names -> run_modelled outfile names
  | _ -> prerr_endline "usage: concrun lin|hash|modelled ..."; exit 2
