(* pubsubrun: runs the extracted pub/sub model (coq/PubSub) and the extracted reply decoder
   (coq/Resp/ReplyCodec.v) on what harness_pubsub observed.  Trusted glue: line parsing, hex,
   printing.  Fields are separated by single spaces; byte strings are hex ("-" = empty).

   pubsubrun seq <trace> <out>
     trace:  CASE <id>
             OP S <c> <ch> | OP U <c> <ch> | OP P <p> <ch> <msg> | OP K <c> | OP D <c>
             RECV <c> <hex of every byte connection c received>
             ERR <text>                      (the harness could not complete the case)
             END
     out:    <id> OK <n replies compared>
           | <id> MISMATCH conn=<c> model=<replies> observed=<replies> leftover=<hex>
           | <id> ERR <text>
     For every RECV line the bytes are decoded with decode_stream and compared (observed_match:
     literally, except for the integer inside a SUBSCRIBE confirmation) with the model's
     output queue of that connection after running the operations from the empty state.

   pubsubrun decode <in> <out>   in: <id> <hex>    out: <id> TAB <replies> TAB <leftover hex or ->
     reply ::= s:<hex> | e:<hex> | i:<dec> | b:<hex> | n | p:<hex> | A[reply,...] | AN *)
open Pubsubmodel
open Pubsubutil

let hexb (l : byte list) : string = let s = hex (string_of_bytes l) in if s = "" then "-" else s

let rec reply_text (r : reply) : string =
  match r with
  | RSimple s -> "s:" ^ hexb s
  | RErr s -> "e:" ^ hexb s
  | RInt z -> "i:" ^ string_of_bytes (z_to_dec z)
  | RBulk b -> "b:" ^ hexb b
  | RNil -> "n"
  | RArr l -> "A[" ^ String.concat "," (List.map reply_text l) ^ "]"
  | RNilArr -> "AN"
  | RPlain s -> "p:" ^ hexb s

let replies_text rs = if rs = [] then "-" else String.concat " " (List.map reply_text rs)

let unhex_field (h : string) : string = if h = "-" then "" else unhex h
let bytes_field h = bytes_of_string (unhex_field h)
let conn_field s = n_of_int (int_of_string s)

let parse_op (ws : string list) : op =
  match ws with
  | ["S"; c; ch] -> Subscribe (conn_field c, bytes_field ch)
  | ["U"; c; ch] -> Unsubscribe (conn_field c, bytes_field ch)
  | ["P"; p; ch; m] -> Publish (conn_field p, bytes_field ch, bytes_field m)
  | ["K"; c] -> Close (conn_field c)
  | ["D"; c] -> Disconnect (conn_field c)
  | _ -> failwith ("bad op: " ^ String.concat " " ws)

let seq infile outfile =
  let oc = open_out_bin outfile in
  let id = ref "" and ops = ref [] and recvs = ref [] and err = ref None in
  let finish () =
    (match !err with
     | Some e -> Printf.fprintf oc "%s ERR %s\n" !id e
     | None ->
       let st = run init (List.rev !ops) in
       let bad = ref None and n = ref 0 in
       List.iter (fun (c, h) ->
           if !bad = None then begin
             let (obs, left) = decode_stream (bytes_field h) in
             let model = outq st (conn_field c) in
             n := !n + List.length model;
             if not (left = [] && observed_match model obs) then
               bad := Some (Printf.sprintf "conn=%s model=%s observed=%s leftover=%s" c
                              (replies_text model) (replies_text obs) (hexb left))
           end) (List.rev !recvs);
       (match !bad with
        | Some b -> Printf.fprintf oc "%s MISMATCH %s\n" !id b
        | None -> Printf.fprintf oc "%s OK %d\n" !id !n));
    ops := []; recvs := []; err := None in
  List.iter (fun l ->
      match split_ws l with
      | ["CASE"; i] -> id := i
      | "OP" :: rest -> ops := parse_op rest :: !ops
      | ["RECV"; c; h] -> recvs := (c, h) :: !recvs
      | "ERR" :: rest -> if !err = None then err := Some (String.concat " " rest)
      | ["END"] -> finish ()
      | [] -> ()
      | _ -> failwith ("bad trace line: " ^ l)) (read_lines infile);
  close_out oc

let decode infile outfile =
  let oc = open_out_bin outfile in
  List.iter (fun l ->
      match split_ws l with
      | [id; h] ->
        let (rs, left) = decode_stream (bytes_field h) in
        Printf.fprintf oc "%s\t%s\t%s\n" id (replies_text rs) (hexb left)
      | _ -> ()) (read_lines infile);
  close_out oc

let () =
  match Array.to_list Sys.argv with
  | [_; "seq"; infile; outfile] -> seq infile outfile
  | [_; "decode"; infile; outfile] -> decode infile outfile
  | _ -> prerr_endline "usage: pubsubrun <seq|decode> <in> <out>"; exit 2
