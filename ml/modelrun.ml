(* modelrun: replays harness-produced case files through the extracted Coq models. *)
open Model
open Util

(* glob: cases file has lines "P <hex>" and "S <hex>"; output one line per pattern:
   "<hex pattern> <bitstring over subjects in file order>" *)
let run_glob infile outfile =
  let pats = ref [] and subs = ref [] in
  List.iter (fun l ->
      match split_ws l with
      | ["P"] -> pats := [] :: !pats
      | ["S"] -> subs := [] :: !subs
      | ["P"; h] -> pats := bytes_of_string (unhex h) :: !pats
      | ["S"; h] -> subs := bytes_of_string (unhex h) :: !subs
      | _ -> ()) (read_lines infile);
  let pats = List.rev !pats and subs = Array.of_list (List.rev !subs) in
  let oc = open_out_bin outfile in
  let n = Array.length subs in
  let buf = Bytes.create n in
  List.iter (fun p ->
      for i = 0 to n - 1 do
        Bytes.set buf i (if gmatch p subs.(i) then '1' else '0')
      done;
      output_string oc (hex (string_of_bytes p));
      output_char oc ' ';
      output_bytes oc buf;
      output_char oc '\n') pats;
  close_out oc

let () =
  match Array.to_list Sys.argv with
  | [_; "glob"; infile; outfile] -> run_glob infile outfile
  | [_; "mem"; infile; outfile] -> Memrun.run_mem infile outfile
  | _ -> prerr_endline "usage: modelrun <mode> <in> <out>"; exit 2
