(* c03run: checks the raw reply bytes of pipelined programs (read from a TCP connection to the
   real server) against the extracted models.  Linked with the extraction of
   coq/Extract/ExtractC03.v (module Model: command model srv_exec + the independent reply
   decoder decode_stream) and with ml/util.ml, ml/memrun.ml (canonical reply text, class-only
   comparison of errors, sorting of map-ordered replies).  Trusted glue: parsing and printing.

   c03run tcp <in> <verdicts> <trace>
     in:   CASE <name> <dbs> <now_s> <now_ms>
           C [<hexarg> ...]            one line per command sent ("-" = empty argument)
           R <status> <hex of every byte the server wrote | ->
           END
     verdicts: OK <name> replies=<n>
               MISMATCH <name> kind=<status|reply|count|leftover> step=<i> model=<..> impl=<..>
     trace:    S <name> <i> <cmd name hex> <arity> <impl reply> | <model reply>
   A case is OK iff  decode_stream raw = (rs, [])  /\  |rs| = number of commands  /\  for all i,
   rs[i] equals (errors by class, map-ordered arrays sorted) the reply of srv_exec for command i
   in the model state left by commands 0..i-1 (hint = rs[i], acceptor form).

   c03run decode <in> <out>   in: <id> TAB <hex>   out: <id> TAB <replies, memrun syntax> TAB <leftover hex|-> *)
open Model
open Util
open Memrun

let rec nat_of_int i = if i <= 0 then O else S (nat_of_int (i - 1))

let rec weight (r : reply) : int =
  match r with
  | RBulk b | RSimple b | RErr b | RPlain b -> List.length b
  | RArr l -> List.fold_left (fun a x -> a + weight x) 0 l
  | _ -> 1
let big (r : reply) : bool = weight r > 100000
let brief (r : reply) : string =
  match r with
  | RArr l -> Printf.sprintf "*[%d-elements:%d-bytes]" (List.length l) (weight r)
  | _ -> Printf.sprintf "$(%d-bytes)" (weight r)

let run_tcp infile verdictfile tracefile =
  let oc = open_out_bin verdictfile and tc = open_out_bin tracefile in
  let name = ref "" and dbs = ref 1 and now = ref "0" and nowms = ref "0" in
  let cmds = ref [] and raw = ref None in
  let ncases = ref 0 and nbad = ref 0 and nsteps = ref 0 in
  let finish () =
    incr ncases;
    let cmds_l = List.rev !cmds in
    let bad = ref None in
    let fail kind step m i = if !bad = None then bad := Some (kind, step, m, i) in
    (match !raw with
     | None -> fail "status" 0 "-" "no R line"
     | Some (status, bytes) ->
       if status <> "EOF" then fail "status" 0 "EOF" status;
       let (rs, left) = decode_stream bytes in
       let srv = ref (srv_init (nat_of_int !dbs)) in
       let zn = z_of_string !now and zms = z_of_string !nowms in
       let rec go i cs rs =
         match cs, rs with
         | [], [] -> ()
         | [], r :: _ -> fail "count" i "no further reply" (print_reply r)
         | c :: _, [] ->
           let nm = (match c with a :: _ -> hx a | [] -> "-") in
           let l = List.length left in
           let rec take k = function x :: r when k > 0 -> x :: take (k - 1) r | _ -> [] in
           fail "count" i ("a reply to command " ^ nm)
             (if l = 0 then "no reply"
              else Printf.sprintf "no decodable reply: %d bytes that are not a well-formed RESP value follow, starting %s" l (hx (take 40 left)))
         | c :: cs', r :: rs' ->
           incr nsteps;
           let nm = (match c with a :: _ -> String.lowercase_ascii (string_of_bytes a) | [] -> "") in
           let (m, s') = srv_exec !srv Z0 zn zms c r in
           srv := s';
           (* big replies (the concurrent scenario reads MiBs of LRANGE): when model and
              implementation are structurally equal the canonical texts, which would be equal
              too, are not built; the trace gets a summary *)
           let (exp, obs) =
             if big r && m = r then (let t = brief r in (t, t))
             else (canon_for_cmd nm (print_reply m), canon_for_cmd nm (print_reply r)) in
           Printf.fprintf tc "S %s %d %s %d %s | %s\n" !name i
             (match c with a :: _ -> hx a | [] -> "-") (List.length c) obs exp;
           if exp <> obs then fail "reply" i exp obs;
           go (i + 1) cs' rs' in
       go 0 cmds_l rs;
       if left <> [] then fail "leftover" (List.length rs) "nothing left over" (hx left));
    (match !bad with
     | None -> Printf.fprintf oc "OK %s replies=%d\n" !name (List.length cmds_l)
     | Some (kind, step, m, i) ->
       incr nbad;
       Printf.fprintf oc "MISMATCH %s kind=%s step=%d model=%s impl=%s\n" !name kind step m i) in
  List.iter (fun l ->
      match split_ws l with
      | "CASE" :: n :: d :: t :: tms :: _ ->
        name := n; dbs := int_of_string d; now := t; nowms := tms; cmds := []; raw := None
      | "C" :: args -> cmds := List.map unhx args :: !cmds
      | ["R"; status; h] -> raw := Some (status, unhx h)
      | ["R"; status] -> raw := Some (status, [])
      | "END" :: _ -> finish ()
      | _ -> ()) (read_lines infile);
  Printf.fprintf oc "SUMMARY cases=%d steps=%d mismatches=%d\n" !ncases !nsteps !nbad;
  close_out oc; close_out tc

let run_decode infile outfile =
  let oc = open_out_bin outfile in
  List.iter (fun l ->
      match String.split_on_char '\t' l with
      | id :: h :: _ ->
        let (rs, left) = decode_stream (unhx h) in
        Printf.fprintf oc "%s\t%s\t%s\n" id (String.concat " " (List.map print_reply rs)) (hx left)
      | _ -> ()) (read_lines infile);
  close_out oc

(* slow-reader scenario: <raw> = every byte the server wrote for the pipeline GET k; PING
   (binary file), <value> = the stored value.  OK iff decode_stream raw = ([RBulk value;
   RSimple "PONG"], []). *)
let read_file path =
  let ic = open_in_bin path in
  let n = in_channel_length ic in
  let s = really_input_string ic n in
  close_in ic; s

let summary (r : reply) : string =
  match r with
  | RBulk b -> Printf.sprintf "bulk(%d bytes)" (List.length b)
  | RSimple b -> "simple:" ^ hx b
  | RErr b -> "error:" ^ hx b
  | RArr l -> Printf.sprintf "array(%d)" (List.length l)
  | r -> print_reply r

let run_slow rawfile valfile outfile =
  let raw = read_file rawfile and v = read_file valfile in
  let (rs, left) = decode_stream (bytes_of_string raw) in
  let oc = open_out_bin outfile in
  let tail s k = let n = String.length s in hex (String.sub s (max 0 (n - k)) (min k n)) in
  (match rs, left with
   | [RBulk b; RSimple p], [] when string_of_bytes p = "PONG" ->
     let got = string_of_bytes b in
     if got = v then Printf.fprintf oc "OK replies=2 bulk=%d\n" (String.length v)
     else begin
       let n = min (String.length got) (String.length v) in
       let i = ref 0 in
       while !i < n && got.[!i] = v.[!i] do incr i done;
       Printf.fprintf oc "MISMATCH kind=payload model=bulk(%d bytes) impl=bulk(%d bytes) first-difference-at=%d\n"
         (String.length v) (String.length got) !i
     end
   | _ ->
     Printf.fprintf oc "MISMATCH kind=shape model=[bulk(%d bytes) +PONG] impl=[%s] undecodable-rest=%d bytes received=%d last-bytes=%s\n"
       (String.length v) (String.concat " " (List.map summary rs)) (List.length left) (String.length raw) (tail raw 24));
  close_out oc

let () =
  match Array.to_list Sys.argv with
  | [_; "slowread"; raw; v; out] -> run_slow raw v out
  | [_; "tcp"; infile; verdicts; trace] -> run_tcp infile verdicts trace
  | [_; "decode"; infile; outfile] -> run_decode infile outfile
  | _ -> prerr_endline "usage: c03run tcp <in> <verdicts> <trace> | c03run decode <in> <out>"; exit 2
