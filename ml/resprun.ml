(* resprun: runs the extracted RESP models (coq/Resp) on harness-produced byte streams.
   Trusted glue: line parsing, hex, printing.  All files are tab separated.

   resprun events  <in> <out>   in : <id> TAB <hex stream>
                                out: <id> TAB <events> TAB <executed> TAB <end>
   resprun chunked <in> <out>   in : <id> TAB <hex stream> TAB <s1,s2,...>  (read sizes)
                                out: same, computed by events_chunked
   resprun decode  <in> <out>   in : <id> TAB <hex bytes written by the server>
                                out: <id> TAB <replies> TAB <hex leftover or ->
   resprun encode  <in> <out>   in : <id> TAB <hexarg,hexarg,...>   out: <id> TAB <hex of encode_cmd>

   events / replies are rendered exactly as harness_resp renders what it observed:
     reply  ::= s:<hex> | e:<hex> | i:<dec> | b:<hex> | n | p:<hex> | A[reply,...] | AN
     event  ::= A[...] | AN | D<reply> | ERR | EOF | CRASH | BLOWUP | HANG
   executed ::= commands separated by ';', arguments (hex) separated by ','; "-" if none *)
open Respmodel
open Resputil

(* byte strings longer than 256 bytes are rendered as  #<length>:<FNV-1a 64 of the bytes>  (the
   length-boundary cases carry arguments of up to MiBs); harness_resp renders them the same way *)
let digest (s : string) : string =
  let h = ref 0xcbf29ce484222325L in
  String.iter (fun c -> h := Int64.mul (Int64.logxor !h (Int64.of_int (Char.code c))) 0x100000001b3L) s;
  Printf.sprintf "#%d:%016Lx" (String.length s) !h

let hexb (l : byte list) : string =
  let s = string_of_bytes l in
  if String.length s > 256 then digest s else hex s

let rec reply_text (r : reply) : string =
  match r with
  | RSimple s -> "s:" ^ hexb s
  | RErr s -> "e:" ^ hexb s
  | RInt z -> "i:" ^ string_of_bytes (z_to_dec z)
  | RBulk b -> "b:" ^ hexb b
  | RNil -> "n"
  | RArr l -> "A[" ^ String.concat "," (List.map reply_text l) ^ "]"
  | RNilArr -> "AN"
  | RPlain s -> "p:" ^ hexb s

let event_text (e : event) : string =
  match e with
  | EvData (RArr _ as r) -> reply_text r
  | EvData RNilArr -> "AN"
  | EvData r -> "D" ^ reply_text r
  | EvProtoErr -> "ERR"
  | EvEof -> "EOF"
  | EvCrash -> "CRASH"
  | EvBlowup -> "BLOWUP"
  | EvHang -> "HANG"

let end_text (e : conn_end) : string =
  match e with
  | ClosedOnError -> "CLOSED-ON-ERROR"
  | ClosedOnEof -> "CLOSED-ON-EOF"
  | ProcessDied -> "PROCESS-DIED"
  | Unfinished -> "UNFINISHED"

let executed_text (cmds : byte list list list) : string =
  if cmds = [] then "-"
  else String.concat ";" (List.map (fun c -> String.concat "," (List.map (fun a -> hexb a) c)) cmds)

let split_tab (s : string) : string list = String.split_on_char '\t' s

let unhex_field (h : string) : string = if h = "-" then "" else unhex h

let with_files infile outfile (f : string list -> string option) =
  let oc = open_out_bin outfile in
  List.iter (fun l ->
      if l <> "" then
        match f (split_tab l) with
        | Some r -> output_string oc r; output_char oc '\n'
        | None -> ()) (read_lines infile);
  close_out oc

let describe id (evs : event list) : string =
  let (ex, en) = handle evs in
  Printf.sprintf "%s\t%s\t%s\t%s" id
    (String.concat " " (List.map event_text evs)) (executed_text ex) (end_text en)


let split_sizes (stream : string) (sizes : string) : byte list list =
  let n = String.length stream in
  let szs = List.filter_map (fun s -> if s = "" then None else Some (int_of_string s))
      (String.split_on_char ',' sizes) in
  let rec go pos szs acc =
    if pos >= n then List.rev acc
    else match szs with
      | [] -> List.rev (bytes_of_string (String.sub stream pos (n - pos)) :: acc)
      | s :: rest ->
        if s <= 0 then go pos rest acc
        else
          let e = min n (pos + s) in
          go e rest (bytes_of_string (String.sub stream pos (e - pos)) :: acc) in
  go 0 szs []

let () =
  match Array.to_list Sys.argv with
  | [_; "events"; infile; outfile] ->
    with_files infile outfile (fun f ->
        match f with
        | id :: h :: _ -> Some (describe id (events (bytes_of_string (unhex_field h))))
        | _ -> None)
  | [_; "chunked"; infile; outfile] ->
    with_files infile outfile (fun f ->
        match f with
        | id :: h :: sizes :: _ ->
          Some (describe id (events_chunked (split_sizes (unhex_field h) sizes)))
        | _ -> None)
  | [_; "decode"; infile; outfile] ->
    with_files infile outfile (fun f ->
        match f with
        | id :: h :: _ ->
          let (rs, left) = decode_stream (bytes_of_string (unhex_field h)) in
          let lt = if left = [] then "-" else hexb left in
          Some (Printf.sprintf "%s\t%s\t%s" id (String.concat " " (List.map reply_text rs)) lt)
        | _ -> None)
  | [_; "encode"; infile; outfile] ->
    with_files infile outfile (fun f ->
        match f with
        | id :: args :: _ ->
          let a = if args = "-" then [] else
              List.map (fun h -> bytes_of_string (unhex_field h)) (String.split_on_char ',' args) in
          Some (Printf.sprintf "%s\t%s" id (hexb (encode_cmd a)))
        | _ -> None)
  | _ -> prerr_endline "usage: resprun <events|chunked|decode|encode> <in> <out>"; exit 2
