(* Replays harness traces of command programs through the extracted keyspace model. *)
open Model
open Util

let hx (b : byte list) : string = match b with [] -> "-" | _ -> hex (string_of_bytes b)
let unhx (s : string) : byte list = if s = "-" then [] else bytes_of_string (unhex s)

let string_of_z (z : z) : string = string_of_bytes (z_to_dec z)
let z_of_string (s : string) : z =
  match parse_int_unbounded (bytes_of_string s) with Some z -> z | None -> failwith ("bad int " ^ s)

let has_crlf (b : byte list) = List.exists (fun c -> let ch = char_of_byte c in ch = '\r' || ch = '\n') b

let starts_with (s : string) (p : string) =
  String.length s >= String.length p && String.sub s 0 (String.length p) = p

let rec print_reply (r : reply) : string =
  match r with
  | RSimple s -> "+" ^ hx s ^ (if has_crlf s then "!" else "")
  | RErr s ->
    let t = string_of_bytes s in
    (if starts_with t "WRONGTYPE" then "-W" else "-E") ^ (if has_crlf s then "!" else "")
  | RInt z -> ":" ^ string_of_z z
  | RBulk b -> "$" ^ hx b
  | RNil -> "$nil"
  | RArr l -> "*[" ^ String.concat " " (List.map print_reply l) ^ "]"
  | RNilArr -> "*nil"
  | RPlain s -> if string_of_bytes s = "BLOCKED" then "!BLOCKED" else "~" ^ hx s

(* split the inside of "*[ ... ]" on spaces at depth 0 *)
let split_top (s : string) : string list =
  let res = ref [] and cur = Buffer.create 16 and depth = ref 0 in
  String.iter (fun c ->
      if c = '[' then incr depth else if c = ']' then decr depth;
      if c = ' ' && !depth = 0 then (res := Buffer.contents cur :: !res; Buffer.clear cur)
      else Buffer.add_char cur c) s;
  if Buffer.length cur > 0 then res := Buffer.contents cur :: !res;
  List.rev !res

let strip_bang s = if String.length s > 0 && s.[String.length s - 1] = '!' then String.sub s 0 (String.length s - 1) else s

let rec parse_reply (s : string) : reply =
  if s = "" then RNil else
  match s.[0] with
  | '+' -> RSimple (unhx (strip_bang (String.sub s 1 (String.length s - 1))))
  | '-' -> if starts_with s "-W" then RErr (bytes_of_string "WRONGTYPE") else RErr (bytes_of_string "ERR")
  | ':' -> RInt (z_of_string (String.sub s 1 (String.length s - 1)))
  | '$' -> if s = "$nil" then RNil else RBulk (unhx (String.sub s 1 (String.length s - 1)))
  | '*' -> if s = "*nil" then RNilArr
    else RArr (List.map parse_reply (split_top (String.sub s 2 (String.length s - 3))))
  | '~' -> RPlain (unhx (String.sub s 1 (String.length s - 1)))
  | _ -> RErr (bytes_of_string "!HARNESS")      (* !PANIC, !NILRESULT ... never equal to a model reply *)

let unordered_flat = ["smembers"; "sunion"; "sinter"; "sdiff"; "hkeys"; "hvals"; "keys"; "spop"; "srandmember"]
let unordered_pairs = ["hgetall"]

let canon_for_cmd (name : string) (c : string) : string =
  if not (starts_with c "*[") then c else
  let inner = String.sub c 2 (String.length c - 3) in
  if List.mem name unordered_flat then
    "*[" ^ String.concat " " (List.sort compare (split_top inner)) ^ "]"
  else if List.mem name unordered_pairs then begin
    let parts = split_top inner in
    if List.length parts mod 2 <> 0 then c else
    let rec pairs l = match l with a :: b :: r -> (a ^ " " ^ b) :: pairs r | _ -> [] in
    "*[" ^ String.concat " " (List.sort compare (pairs parts)) ^ "]"
  end else c

(* ---- canonical dump of the model state, same format as memdb.VerifDump ---- *)
let rec strip_zeros (s : string) =
  let n = String.length s in
  if n > 0 && s.[n - 1] = '0' then strip_zeros (String.sub s 0 (n - 1)) else s

let score_string (sc : score) : string =
  match sc with
  | SNegInf -> "-Inf"
  | SPosInf -> "+Inf"
  | SFin (m, e) ->
    let neg, a = (match m with Zneg p -> true, Zpos p | _ -> false, m) in
    let digits = string_of_z a in
    let e = int_of_n e in
    let digits = if String.length digits <= e then String.make (e - String.length digits + 1) '0' ^ digits else digits in
    let ip = String.sub digits 0 (String.length digits - e) in
    let fp = strip_zeros (String.sub digits (String.length digits - e) e) in
    let body = if fp = "" then ip else ip ^ "." ^ fp in
    if neg && body <> "0" then "-" ^ body else body

let rec dump_tree (t : tree) : string =
  match t with
  | Leaf -> "."
  | Node (l, sc, names, h, r) ->
    "(" ^ dump_tree l ^ " " ^ score_string sc ^ "["
    ^ String.concat ";" (List.sort compare (List.map hx names))
    ^ "]h" ^ string_of_z h ^ " " ^ dump_tree r ^ ")"

let dump_value (v : value) : string =
  match v with
  | VStr b -> "S " ^ hx b
  | VList l -> "L " ^ string_of_int (List.length l) ^ " ok " ^ String.concat "," (List.map hx l)
  | VSet s -> "T " ^ string_of_int (List.length s) ^ " " ^ String.concat "," (List.sort compare (List.map hx s))
  | VHash h -> "H " ^ string_of_int (List.length h) ^ " "
               ^ String.concat "," (List.sort compare (List.map (fun (f, v) -> hx f ^ "=" ^ hx v) h))
  | VZSet z ->
    "Z len=" ^ string_of_z z.zlen ^ " dict="
    ^ String.concat "," (List.sort compare (List.map (fun (m, sc) -> hx m ^ "=" ^ score_string sc) z.zdict))
    ^ " tree=" ^ dump_tree z.zroot ^ " check=ok"
  | VStream x ->
    "X " ^ string_of_int (List.length x) ^ " entries=" ^ string_of_int (List.length x) ^ " "
    ^ String.concat "," (List.map (fun ((ms, sq), fs) ->
          string_of_z ms ^ "-" ^ string_of_z sq ^ ":" ^ String.concat ";" (List.map hx fs)) x)

let dump_db (idx : int) (d : db) (now : z) : string list =
  let d = purge d now in
  let lines = List.map (fun (k, v) ->
      let t = (match List.find_opt (fun (k', _) -> k' = k) d.ttl with
          | Some (_, t) -> string_of_z t | None -> "-") in
      (hx k, Printf.sprintf "D %d %s %s %s" idx (hx k) t (dump_value v))) d.kv in
  List.map snd (List.sort (fun (a, _) (b, _) -> compare a b) lines)

(* ---- trace replay ---- *)
let run_mem (infile : string) (outfile : string) =
  let oc = open_out_bin outfile in
  let srv = ref (srv_init O) in
  let case = ref "" and step = ref 0 and bad = ref None in
  let steps = ref 0 and cases = ref 0 and mism = ref 0 in
  (* steps on which the model's answer followed the observed reply (INCRBYFLOAT outside the exactly
     modelled decimal domain): counted, so the evidence says how many comparisons were vacuous *)
  let ood = ref 0 in
  let pending_dump = ref [] in
  let pending_bg = ref [] in            (* G lines (commands of other connections) before an S line *)
  let watchdog_ms = ref "100000050" in  (* WD line: harness cancels a step still blocked after this long *)
  let expected_end = ref None in        (* model's return instant of a blocking / BG-accompanied step *)
  let rec nat_of_int i = if i <= 0 then O else S (nat_of_int (i - 1)) in
  let fail kind exp obs =
    if !bad = None then bad := Some (Printf.sprintf "step=%d kind=%s model=%s impl=%s" !step kind exp obs) in
  List.iter (fun l ->
      if starts_with l "CASE " then begin
        (match split_ws l with
         | [_; name; dbs] -> case := name; srv := srv_init (nat_of_int (int_of_string dbs))
         | _ -> failwith "bad CASE");
        step := 0; bad := None; pending_dump := []; pending_bg := []; expected_end := None; incr cases
      end else if starts_with l "S " then begin
        incr step; incr steps;
        let bar = String.index l '|' in
        let left = split_ws (String.sub l 0 bar) in
        let obs = String.trim (String.sub l (bar + 1) (String.length l - bar - 1)) in
        (match left with
         | _ :: now :: nowms :: conn :: args ->
           let args = List.map unhx args in
           let name = (match args with a :: _ -> String.lowercase_ascii (string_of_bytes a) | [] -> "") in
           let hint = parse_reply obs in
           if !pending_bg <> [] || name = "blpop" || name = "brpop" then begin
             (* a step during which other connections act (harness directive BG) and/or which blocks *)
             let bgs = List.rev !pending_bg in
             pending_bg := [];
             let srv0 = ref !srv in
             let evs = List.map (fun (c, ms, a, o, _) ->
                 { bg_conn = z_of_string c; bg_ms = z_of_string ms; bg_args = a; bg_hint = parse_reply o }) bgs in
             let lname a = (match a with x :: _ -> String.lowercase_ascii (string_of_bytes x) | [] -> "") in
             let bg_blocks = List.exists (fun (_, _, a, _, _) -> let n = lname a in n = "blpop" || n = "brpop") bgs in
             (* several blocked pops at once (a background command is itself BLPOP/BRPOP): the
                multi-popper process of Mem/ListsMulti.v; also run as a cross-check of the
                single-popper replay whenever other connections act on a one-database server *)
             let multi () =
               srv_exec_multi !srv0 (z_of_string conn) (z_of_string nowms) args hint evs (z_of_string !watchdog_ms) in
             if bg_blocks then begin
               let (outs, s') = multi () in
               srv := s';
               (match outs with
                | (r, tend) :: bouts ->
                  expected_end := Some (string_of_z tend);
                  let exp = canon_for_cmd name (print_reply r) in
                  if exp <> obs then fail "reply" exp obs;
                  (try List.iter2 (fun (_, _, a, o, e) (r, t) ->
                       let ex = canon_for_cmd (lname a) (print_reply r) in
                       if ex <> o then fail "bg-reply" ex o;
                       (match !e with Some ms -> if ms <> string_of_z t then fail "bg-endtime" (string_of_z t) ms | None -> ()))
                       bgs bouts
                   with Invalid_argument _ -> fail "bg-count" "" "")
                | [] -> fail "multi" "no-output" obs)
             end else begin
             let (((r, outs), s'), tend) =
               srv_exec_bg !srv (z_of_string conn) (z_of_string now) (z_of_string nowms) args hint evs
                 (z_of_string !watchdog_ms) in
             srv := s';
             expected_end := Some (string_of_z tend);
             let exp = canon_for_cmd name (print_reply r) in
             if exp <> obs then fail "reply" exp obs;
             (* a blocking pop with nobody else acting: the dispatcher's own executor (exec_bpop
                through srv_exec, the subject of the C09 theorems) must give the same reply and
                keyspace; skipped when the watchdog cut the wait (it would iterate to the timeout) *)
             if bgs = [] && exp <> "!BLOCKED" then begin
               let (r2, s2) = srv_exec !srv0 (z_of_string conn) (z_of_string now) (z_of_string nowms) args hint in
               let exp2 = canon_for_cmd name (print_reply r2) in
               if exp2 <> exp then fail "exec-vs-bg" exp2 exp;
               srv := s2
             end;
             List.iter2 (fun (_, ms0, a, o, e) r ->
                 let ex = canon_for_cmd (lname a) (print_reply r) in
                 if ex <> o then fail "bg-reply" ex o;
                 (* a non-blocking background command returns at the instant it was issued *)
                 (match !e with Some ms -> if ms <> ms0 then fail "bg-endtime" ms0 ms | None -> ())) bgs outs;
             (* the two replay models agree (one-database servers: the multi model acts on one database) *)
             if bgs <> [] && List.length (!srv0).sdbs = 1 then begin
               let (mouts, _) = multi () in
               let a = List.map (fun (r, _) -> print_reply r) mouts
               and b = List.map print_reply (r :: outs) in
               if a <> b then fail "multi-vs-bg" (String.concat " " a) (String.concat " " b)
             end
             end
           end else begin
           let (r, s') = srv_exec !srv (z_of_string conn) (z_of_string now) (z_of_string nowms) args hint in
           (if name = "incrbyfloat" then begin
               let (r0, _) = srv_exec !srv (z_of_string conn) (z_of_string now) (z_of_string nowms) args
                   (RErr (bytes_of_string "!NOHINT")) in
               if print_reply r0 <> print_reply r || r0 = RErr (bytes_of_string "!NOHINT") then incr ood
             end);
           srv := s';
           let exp = canon_for_cmd name (print_reply r) in
           if exp <> obs then fail "reply" exp obs
           end
         | _ -> failwith "bad S line")
      end else if starts_with l "G " then begin
        let bar = String.index l '|' in
        let left = split_ws (String.sub l 0 bar) in
        let obs = String.trim (String.sub l (bar + 1) (String.length l - bar - 1)) in
        (match left with
         | _ :: _ :: nowms :: conn :: args -> pending_bg := (conn, nowms, List.map unhx args, obs, ref None) :: !pending_bg
         | _ -> failwith "bad G line")
      end else if starts_with l "GT " then begin
        (match !pending_bg, split_ws l with
         | (_, _, _, _, e) :: _, [_; ms] -> e := Some ms
         | _ -> ())
      end else if starts_with l "X " then begin
        (* the connection was closed: the server forgets its selection *)
        (match split_ws l with
         | [_; conn] -> srv := srv_disconnect !srv (z_of_string conn)
         | _ -> failwith "bad X line")
      end else if starts_with l "WD " then begin
        (match split_ws l with [_; ms] -> watchdog_ms := ms | _ -> ())
      end else if starts_with l "T " then begin
        (match !expected_end, split_ws l with
         | Some e, [_; o] -> if e <> o then fail "endtime" e o
         | _ -> ());
        expected_end := None
      end else if starts_with l "D " then pending_dump := l :: !pending_dump
      else if starts_with l "DEND " then begin
        let now = z_of_string (List.nth (split_ws l) 1) in
        let obs = List.sort compare !pending_dump in
        pending_dump := [];
        let exp = List.sort compare (List.concat (List.mapi (fun i d -> dump_db i d now) (!srv).sdbs)) in
        if exp <> obs then begin
          let rec firstdiff a b = match a, b with
            | x :: a', y :: b' -> if x = y then firstdiff a' b' else (x, y)
            | x :: _, [] -> (x, "<missing>") | [], y :: _ -> ("<missing>", y) | [], [] -> ("", "") in
          let (e, o) = firstdiff exp obs in
          fail "dump" e o
        end
      end else if starts_with l "END" then begin
        (match !bad with
         | None -> Printf.fprintf oc "OK %s\n" !case
         | Some m -> incr mism; Printf.fprintf oc "MISMATCH %s %s\n" !case m)
      end) (read_lines infile);
  Printf.fprintf oc "SUMMARY cases=%d steps=%d mismatches=%d ood=%d\n" !cases !steps !mism !ood;
  close_out oc
