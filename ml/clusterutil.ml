(* Trusted glue: conversions between OCaml ints/strings and the extracted Coq datatypes. *)
open Clustermodel

let rec pos_of_int (i : int) : positive =
  if i = 1 then XH
  else if i land 1 = 0 then XO (pos_of_int (i lsr 1))
  else XI (pos_of_int (i lsr 1))

let n_of_int (i : int) : n = if i = 0 then N0 else Npos (pos_of_int i)

let rec int_of_pos (p : positive) : int =
  match p with XH -> 1 | XO q -> 2 * int_of_pos q | XI q -> 2 * int_of_pos q + 1

let int_of_n (x : n) : int = match x with N0 -> 0 | Npos p -> int_of_pos p

let byte_tab : byte array =
  Array.init 256 (fun i -> match byte_of_N (n_of_int i) with Some b -> b | None -> assert false)

let byte_of_char (c : char) : byte = byte_tab.(Char.code c)
let char_of_byte (b : byte) : char = Char.chr (int_of_n (byte_to_N b))

let bytes_of_string (s : string) : byte list =
  let rec go i acc = if i < 0 then acc else go (i - 1) (byte_of_char s.[i] :: acc) in
  go (String.length s - 1) []

let string_of_bytes (l : byte list) : string =
  let b = Buffer.create 16 in
  List.iter (fun x -> Buffer.add_char b (char_of_byte x)) l;
  Buffer.contents b

let hexval c =
  match c with
  | '0' .. '9' -> Char.code c - 48
  | 'a' .. 'f' -> Char.code c - 87
  | 'A' .. 'F' -> Char.code c - 55
  | _ -> failwith "bad hex"

let unhex (h : string) : string =
  let n = String.length h / 2 in
  String.init n (fun i -> Char.chr ((hexval h.[2 * i] lsl 4) lor hexval h.[(2 * i) + 1]))

let hex (s : string) : string =
  let b = Buffer.create (2 * String.length s) in
  String.iter (fun c -> Buffer.add_string b (Printf.sprintf "%02x" (Char.code c))) s;
  Buffer.contents b

let read_lines (path : string) : string list =
  let ic = open_in_bin path in
  let rec go acc = match input_line ic with
    | l -> go (l :: acc)
    | exception End_of_file -> close_in ic; List.rev acc in
  go []

let split_ws (s : string) : string list =
  List.filter (fun x -> x <> "") (String.split_on_char ' ' s)

let rec nat_of_int (i : int) : nat = if i <= 0 then O else S (nat_of_int (i - 1))
let hx (b : byte list) : string = match b with [] -> "-" | _ -> hex (string_of_bytes b)
let unhx (s : string) : byte list = if s = "-" then [] else bytes_of_string (unhex s)
