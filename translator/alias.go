package main

// Byte-slice aliasing facts (C05, premise replies_do_not_alias_mutable_state).
//
// The executors hand the STORED []byte to the reply (GET: resp.MakeBulkData(byteVal)) and the
// reply is serialised after the key's lock has been released.  That is sound only as long as a
// stored byte slice is never modified in place: every writer must build a new slice and store
// it.  This pass finds, conservatively and purely syntactically,
//   - in-place writes: copy(dst, ...), dst[i] = ..., dst[i]++, append(dst[:n], ...) where dst is
//     (derived from) a value obtained from m.db.Get / a stored object's method or field;
//   - escaping references: resp.MakeBulkData(v) / MakeArrayData elements with v such a slice.

import (
	"go/ast"
	"go/token"
	"sort"
)

type aliasFact struct {
	Where string `json:"where"` // executor (command name) or func:<name> / <Type>.<Method>
	What  string `json:"what"`
}

func isByteSliceType(t ast.Expr) bool {
	at, ok := t.(*ast.ArrayType)
	return ok && at.Len == nil && isIdent(at.Elt, "byte")
}

// methods (of any memdb type) whose single result is []byte
func (p *pkgInfo) byteResultMethods() map[string]bool {
	res := map[string]bool{}
	for _, ms := range p.methods {
		for name, fd := range ms {
			if fd.Type.Results != nil && len(fd.Type.Results.List) >= 1 && isByteSliceType(fd.Type.Results.List[0].Type) {
				res[name] = true
			}
		}
	}
	return res
}

func isDbGet(e ast.Expr) bool {
	call, ok := e.(*ast.CallExpr)
	if !ok {
		return false
	}
	se, ok := call.Fun.(*ast.SelectorExpr)
	if !ok || se.Sel.Name != "Get" {
		return false
	}
	inner, ok := se.X.(*ast.SelectorExpr)
	return ok && inner.Sel.Name == "db"
}

// facts of one function body; seedT: identifiers that already denote stored state (a method's
// receiver), seedB: identifiers that are stored byte slices
func (p *pkgInfo) aliasScan(body *ast.BlockStmt, seedT map[string]bool) (inplace []string, escaping []string) {
	if body == nil {
		return nil, nil
	}
	T := map[string]bool{} // derived from stored state
	B := map[string]bool{} // ... and known / assumed to be a []byte
	for k := range seedT {
		T[k] = true
	}
	byteMeth := p.byteResultMethods()
	rootIn := func(e ast.Expr, set map[string]bool) bool {
		id := rootIdent(e)
		return id != nil && set[id.Name]
	}
	// is the expression a stored byte slice?
	var isB func(e ast.Expr) bool
	isB = func(e ast.Expr) bool {
		switch x := e.(type) {
		case *ast.Ident:
			return B[x.Name]
		case *ast.ParenExpr:
			return isB(x.X)
		case *ast.SliceExpr:
			return isB(x.X)
		case *ast.TypeAssertExpr:
			return isByteSliceType(x.Type) && rootIn(x.X, T)
		case *ast.SelectorExpr:
			return x.Sel.Name == "Val" && rootIn(x.X, T)
		case *ast.CallExpr:
			if se, ok := x.Fun.(*ast.SelectorExpr); ok && byteMeth[se.Sel.Name] && rootIn(se.X, T) {
				return true
			}
		case *ast.IndexExpr:
			// element of a stored map / slice of byte slices: table[k], values[i]
			if se, ok := x.X.(*ast.SelectorExpr); ok && rootIn(se, T) {
				return p.fieldElemIsBytes(se.Sel.Name)
			}
		}
		return false
	}
	for pass := 0; pass < 4; pass++ {
		ast.Inspect(body, func(n ast.Node) bool {
			switch x := n.(type) {
			case *ast.AssignStmt:
				for i, l := range x.Lhs {
					id, ok := l.(*ast.Ident)
					if !ok || id.Name == "_" {
						continue
					}
					var r ast.Expr
					if len(x.Rhs) == len(x.Lhs) {
						r = x.Rhs[i]
					} else if len(x.Rhs) == 1 && i == 0 {
						r = x.Rhs[0]
					}
					if r == nil {
						continue
					}
					if isDbGet(r) || rootIn(r, T) {
						// fresh copies are not aliases
						if call, ok := r.(*ast.CallExpr); ok {
							if fid, ok := call.Fun.(*ast.Ident); ok && (fid.Name == "make" || fid.Name == "len" || fid.Name == "string" || fid.Name == "int64" || fid.Name == "int") {
								continue
							}
							if _, ok := call.Fun.(*ast.ArrayType); ok { // []byte(x): a copy
								continue
							}
						}
						T[id.Name] = true
					}
					if isB(r) {
						B[id.Name] = true
						T[id.Name] = true
					}
				}
			case *ast.RangeStmt:
				if rootIn(x.X, T) {
					if id, ok := x.Value.(*ast.Ident); ok {
						T[id.Name] = true
						if se, ok := x.X.(*ast.SelectorExpr); ok && p.fieldElemIsBytes(se.Sel.Name) {
							B[id.Name] = true
						}
					}
				}
			}
			return true
		})
	}
	seenIn, seenEsc := map[string]bool{}, map[string]bool{}
	addIn := func(what string, n ast.Node) {
		s := what + " @" + p.pos(n)
		if !seenIn[s] {
			seenIn[s] = true
			inplace = append(inplace, s)
		}
	}
	ast.Inspect(body, func(n ast.Node) bool {
		switch x := n.(type) {
		case *ast.CallExpr:
			if id, ok := x.Fun.(*ast.Ident); ok {
				switch id.Name {
				case "copy":
					if len(x.Args) == 2 && (isB(x.Args[0]) || rootIn(x.Args[0], T)) {
						addIn("copy into a stored byte slice", x)
					}
				case "append":
					if len(x.Args) >= 1 {
						if sl, ok := x.Args[0].(*ast.SliceExpr); ok && sl.High != nil && isB(sl.X) {
							addIn("append over a prefix of a stored byte slice", x)
						}
					}
				}
			}
			if se, ok := x.Fun.(*ast.SelectorExpr); ok && isIdent(se.X, "resp") && se.Sel.Name == "MakeBulkData" && len(x.Args) == 1 && isB(x.Args[0]) {
				s := "reply aliases the stored slice @" + p.pos(x)
				if !seenEsc[s] {
					seenEsc[s] = true
					escaping = append(escaping, s)
				}
			}
		case *ast.AssignStmt:
			for _, l := range x.Lhs {
				if ie, ok := l.(*ast.IndexExpr); ok && isB(ie.X) {
					addIn("element assignment into a stored byte slice", x)
				}
			}
		case *ast.IncDecStmt:
			if ie, ok := x.X.(*ast.IndexExpr); ok && isB(ie.X) {
				addIn("element update of a stored byte slice", x)
			}
		}
		return true
	})
	_ = token.ADD
	return
}

// does some struct of the package have a field of that name whose type is a map / slice of
// []byte (so that field[k] is a stored byte slice)?
func (p *pkgInfo) fieldElemIsBytes(field string) bool {
	return p.bytesFields[field]
}

func (p *pkgInfo) collectBytesFields(files []*ast.File) {
	p.bytesFields = map[string]bool{}
	for _, f := range files {
		ast.Inspect(f, func(n ast.Node) bool {
			st, ok := n.(*ast.StructType)
			if !ok {
				return true
			}
			for _, fl := range st.Fields.List {
				elem := ast.Expr(nil)
				switch t := fl.Type.(type) {
				case *ast.MapType:
					elem = t.Value
				case *ast.ArrayType:
					elem = t.Elt
				}
				if elem != nil && isByteSliceType(elem) {
					for _, nm := range fl.Names {
						p.bytesFields[nm.Name] = true
					}
				}
			}
			return true
		})
	}
}

// all functions and methods of the package; executors are named by their command
func (p *pkgInfo) aliasFacts(cmdOf map[string][]string) (inplace, escaping []aliasFact) {
	names := []string{}
	for n := range p.funcs {
		names = append(names, n)
	}
	sort.Strings(names)
	for _, n := range names {
		in, esc := p.aliasScan(p.funcs[n].Body, nil)
		labels := cmdOf[n]
		if len(labels) == 0 {
			labels = []string{"func:" + n}
		}
		for _, lb := range labels {
			for _, s := range in {
				inplace = append(inplace, aliasFact{lb, s})
			}
			for _, s := range esc {
				escaping = append(escaping, aliasFact{lb, s})
			}
		}
	}
	types := []string{}
	for t := range p.methods {
		types = append(types, t)
	}
	sort.Strings(types)
	for _, t := range types {
		if t == "Locks" || t == "ConcurrentMap" {
			continue
		}
		ms := []string{}
		for m := range p.methods[t] {
			ms = append(ms, m)
		}
		sort.Strings(ms)
		for _, m := range ms {
			fd := p.methods[t][m]
			seed := map[string]bool{}
			if t != "MemDb" && fd.Recv != nil && len(fd.Recv.List) == 1 && len(fd.Recv.List[0].Names) == 1 {
				seed[fd.Recv.List[0].Names[0].Name] = true
			}
			in, esc := p.aliasScan(fd.Body, seed)
			for _, s := range in {
				inplace = append(inplace, aliasFact{t + "." + m, s})
			}
			for _, s := range esc {
				escaping = append(escaping, aliasFact{t + "." + m, s})
			}
		}
	}
	return
}
