// Translator (T): from VERIF_REPO's memdb/*.go emit the lock skeleton of every registered
// command executor as Coq data (Gen/LockSkel.v) and as JSON (lockskel.json, used by the dynamic
// H2 check).  Pattern based and conservative: whatever it cannot classify becomes EUnknown,
// which fails the well_locked obligation.  Standard library only (go/ast, go/parser).
//
// usage: translator <repo> <outdir>
package main

import (
	"encoding/json"
	"fmt"
	"go/ast"
	"go/parser"
	"go/token"
	"os"
	"path/filepath"
	"sort"
	"strconv"
	"strings"
)

// ---------------------------------------------------------------- key expressions

type KSet struct {
	Kind string `json:"kind"` // args | var | unknown
	From int    `json:"from,omitempty"`
	Drop int    `json:"drop,omitempty"`
	Name string `json:"name,omitempty"`
}

type KExpr struct {
	Kind string `json:"kind"` // arg | lower | var | in | idx | unknown
	I    int    `json:"i,omitempty"`
	E    *KExpr `json:"e,omitempty"`
	X    string `json:"x,omitempty"`
	S    *KSet  `json:"s,omitempty"`
}

type KTarget struct {
	K *KExpr `json:"k,omitempty"`
	S *KSet  `json:"s,omitempty"`
}

type Ev struct {
	Kind string    `json:"kind"`
	Mode string    `json:"mode,omitempty"` // R | W
	Acc  string    `json:"acc,omitempty"`  // read | write
	Op   string    `json:"op,omitempty"`
	K    *KExpr    `json:"k,omitempty"`
	Ts   []KTarget `json:"ts,omitempty"`
	Body []Ev      `json:"body,omitempty"`
	Alts [][]Ev    `json:"alts,omitempty"`
	X    string    `json:"x,omitempty"`
	Why  string    `json:"why,omitempty"`
	Pos  string    `json:"pos,omitempty"`
}

func kUnknown() *KExpr { return &KExpr{Kind: "unknown"} }
func sUnknown() *KSet  { return &KSet{Kind: "unknown"} }

func (k *KExpr) closedStable() bool {
	switch k.Kind {
	case "arg":
		return true
	case "lower":
		return k.E.closedStable()
	}
	return false
}

func coqStr(s string) string { return "\"" + strings.ReplaceAll(s, "\"", "'") + "\"" }

func (s *KSet) coq() string {
	switch s.Kind {
	case "args":
		return fmt.Sprintf("(SArgs %d %d)", s.From, s.Drop)
	case "var":
		return "(SVar " + coqStr(s.Name) + ")"
	}
	return "SUnknown"
}

func (k *KExpr) coq() string {
	switch k.Kind {
	case "arg":
		return fmt.Sprintf("(KArg %d)", k.I)
	case "lower":
		return "(KLower " + k.E.coq() + ")"
	case "var":
		return "(KVar " + coqStr(k.X) + ")"
	case "in":
		return "(KIn " + coqStr(k.X) + " " + k.S.coq() + ")"
	case "idx":
		return "(KIdx " + k.S.coq() + ")"
	}
	return "KUnknown"
}

func (t KTarget) coq() string {
	if t.K != nil {
		return "(TKey " + t.K.coq() + ")"
	}
	return "(TSet " + t.S.coq() + ")"
}

func coqList(items []string) string { return "[" + strings.Join(items, "; ") + "]" }

func evsCoq(evs []Ev, ind string) string {
	items := make([]string, 0, len(evs))
	for _, e := range evs {
		items = append(items, e.coq(ind+"  "))
	}
	if len(items) == 0 {
		return "[]"
	}
	return "[" + strings.Join(items, ";\n"+ind+" ") + "]"
}

func (e Ev) coq(ind string) string {
	acc := "ARead"
	if e.Acc == "write" {
		acc = "AWrite"
	}
	switch e.Kind {
	case "lock":
		return "ELock " + e.Mode + " " + e.K.coq()
	case "unlock":
		return "EUnlock " + e.Mode + " " + e.K.coq()
	case "lockmulti", "unlockmulti":
		ts := []string{}
		for _, t := range e.Ts {
			ts = append(ts, t.coq())
		}
		c := "ELockMulti "
		if e.Kind == "unlockmulti" {
			c = "EUnlockMulti "
		}
		return c + e.Mode + " " + coqList(ts)
	case "defer":
		return "EDefer " + evsCoq(e.Body, ind)
	case "db":
		return "EDb " + acc + " " + coqStr(e.Op) + " " + e.K.coq()
	case "dball":
		return "EDbAll " + acc + " " + coqStr(e.Op)
	case "ttl":
		return "ETtl " + acc + " " + coqStr(e.Op) + " " + e.K.coq()
	case "val":
		return "EVal " + acc + " " + coqStr(e.Op) + " " + e.K.coq()
	case "checkttl":
		return "ECheckTTL " + e.K.coq()
	case "bind":
		return "EBind " + coqStr(e.X)
	case "return":
		return "EReturn"
	case "jump":
		return "EJump"
	case "branch":
		alts := []string{}
		for _, a := range e.Alts {
			alts = append(alts, evsCoq(a, ind+"  "))
		}
		return "EBranch [" + strings.Join(alts, ";\n"+ind+"  ") + "]"
	case "loop":
		return "ELoop " + evsCoq(e.Body, ind)
	case "go":
		return "EGo " + evsCoq(e.Body, ind)
	}
	return "EUnknown " + coqStr(e.Why+" @"+e.Pos)
}

// ---------------------------------------------------------------- package facts

type pkgInfo struct {
	fset        *token.FileSet
	funcs       map[string]*ast.FuncDecl            // package-level functions
	methods     map[string]map[string]*ast.FuncDecl // receiver type -> name -> decl
	mutating    map[string]bool                     // method name -> may modify its receiver (any type)
	readonly    map[string]bool                     // method name -> never modifies (all types defining it)
	mutBy       map[string]map[string]bool          // receiver type -> method -> modifies its receiver
	bytesFields map[string]bool                     // struct fields that are maps / slices of []byte
	files       []*ast.File
}

func recvTypeName(fd *ast.FuncDecl) string {
	if fd.Recv == nil || len(fd.Recv.List) == 0 {
		return ""
	}
	t := fd.Recv.List[0].Type
	for {
		switch x := t.(type) {
		case *ast.StarExpr:
			t = x.X
		case *ast.IndexExpr:
			t = x.X
		case *ast.IndexListExpr:
			t = x.X
		case *ast.Ident:
			return x.Name
		default:
			return "?"
		}
	}
}

// A method mutates its receiver when it assigns through the receiver or through a local that
// may alias part of it (selector / index / pointer on the left-hand side), deletes from one of its
// maps, or calls a mutating method on it.  Locals assigned from fresh objects are not aliases.
type methInfo struct {
	recvType string
	name     string
	direct   bool
	calls    []string // methods called on (an alias of) the receiver
}

func analyseMethod(fd *ast.FuncDecl) methInfo {
	mi := methInfo{recvType: recvTypeName(fd), name: fd.Name.Name}
	if fd.Body == nil || fd.Recv == nil || len(fd.Recv.List) == 0 || len(fd.Recv.List[0].Names) == 0 {
		return mi
	}
	tainted := map[string]bool{fd.Recv.List[0].Names[0].Name: true}
	isTainted := func(e ast.Expr) bool {
		id := rootIdent(e)
		return id != nil && tainted[id.Name]
	}
	for pass := 0; pass < 3; pass++ {
		ast.Inspect(fd.Body, func(n ast.Node) bool {
			switch x := n.(type) {
			case *ast.AssignStmt:
				for i, l := range x.Lhs {
					if id, ok := l.(*ast.Ident); ok {
						var r ast.Expr
						if len(x.Rhs) == len(x.Lhs) {
							r = x.Rhs[i]
						} else if len(x.Rhs) == 1 {
							r = x.Rhs[0]
						}
						if r != nil && isTainted(r) {
							tainted[id.Name] = true
						}
					} else if isTainted(l) {
						mi.direct = true
					}
				}
			case *ast.RangeStmt:
				if isTainted(x.X) {
					if id, ok := x.Key.(*ast.Ident); ok {
						tainted[id.Name] = true
					}
					if id, ok := x.Value.(*ast.Ident); ok {
						tainted[id.Name] = true
					}
				}
			case *ast.IncDecStmt:
				if _, ok := x.X.(*ast.Ident); !ok && isTainted(x.X) {
					mi.direct = true
				}
			case *ast.CallExpr:
				if id, ok := x.Fun.(*ast.Ident); ok && (id.Name == "delete" || id.Name == "clear") && len(x.Args) > 0 && isTainted(x.Args[0]) {
					mi.direct = true
				}
				if se, ok := x.Fun.(*ast.SelectorExpr); ok && isTainted(se.X) && pass == 2 {
					mi.calls = append(mi.calls, se.Sel.Name)
				}
			}
			return true
		})
	}
	return mi
}

func loadPkg(dir string) (*pkgInfo, error) {
	p := &pkgInfo{fset: token.NewFileSet(), funcs: map[string]*ast.FuncDecl{},
		methods: map[string]map[string]*ast.FuncDecl{}, mutating: map[string]bool{}, readonly: map[string]bool{}, mutBy: map[string]map[string]bool{}}
	ents, err := os.ReadDir(dir)
	if err != nil {
		return nil, err
	}
	names := []string{}
	for _, e := range ents {
		n := e.Name()
		if !strings.HasSuffix(n, ".go") || strings.HasSuffix(n, "_test.go") {
			continue
		}
		names = append(names, n)
	}
	sort.Strings(names)
	for _, n := range names {
		src, err := os.ReadFile(filepath.Join(dir, n))
		if err != nil {
			return nil, err
		}
		// files that exist only under the verif tag are instrumentation, not the product
		head := string(src)
		if len(head) > 400 {
			head = head[:400]
		}
		skip := false
		for _, line := range strings.Split(head, "\n") {
			line = strings.TrimSpace(line)
			if strings.HasPrefix(line, "//go:build") {
				c := strings.TrimSpace(strings.TrimPrefix(line, "//go:build"))
				if c == "verif" || strings.HasPrefix(c, "verif ") || strings.HasPrefix(c, "verif&&") {
					skip = true
				}
			}
		}
		if skip {
			continue
		}
		f, err := parser.ParseFile(p.fset, filepath.Join(dir, n), src, parser.SkipObjectResolution)
		if err != nil {
			return nil, err
		}
		p.files = append(p.files, f)
		for _, d := range f.Decls {
			fd, ok := d.(*ast.FuncDecl)
			if !ok {
				continue
			}
			if fd.Recv == nil {
				p.funcs[fd.Name.Name] = fd
			} else {
				rt := recvTypeName(fd)
				if p.methods[rt] == nil {
					p.methods[rt] = map[string]*ast.FuncDecl{}
				}
				p.methods[rt][fd.Name.Name] = fd
			}
		}
	}
	// mutating-method fixpoint over all methods of all value types
	all := []methInfo{}
	for rt, ms := range p.methods {
		if rt == "MemDb" || rt == "Locks" || rt == "ConcurrentMap" {
			continue
		}
		for _, fd := range ms {
			mi := analyseMethod(fd)
			if p.mutBy[rt] == nil {
				p.mutBy[rt] = map[string]bool{}
			}
			p.mutBy[rt][mi.name] = mi.direct
			if mi.direct {
				p.mutating[mi.name] = true
			}
			all = append(all, mi)
		}
	}
	for changed := true; changed; {
		changed = false
		for _, x := range all {
			if p.mutBy[x.recvType][x.name] {
				continue
			}
			for _, c := range x.calls {
				// same type if it has that method, else any type
				hit := false
				if v, ok := p.mutBy[x.recvType][c]; ok {
					hit = v
				} else {
					hit = p.mutating[c]
				}
				if hit {
					p.mutBy[x.recvType][x.name] = true
					p.mutating[x.name] = true
					changed = true
					break
				}
			}
		}
	}
	for _, x := range all {
		if !p.mutating[x.name] {
			p.readonly[x.name] = true
		}
	}
	return p, nil
}

func (p *pkgInfo) pos(n ast.Node) string {
	ps := p.fset.Position(n.Pos())
	return fmt.Sprintf("%s:%d", filepath.Base(ps.Filename), ps.Line)
}

// ---------------------------------------------------------------- function translation

type setVal struct {
	lit  []KTarget // literal list ([]string{a, b}) if non-nil
	set  *KSet     // otherwise
	byts bool      // elements are []byte (need string(x))
}

type ctx struct {
	p        *pkgInfo
	mName    string
	cmdName  string
	keyVars  map[string]*KExpr  // string variables holding a key
	byteVars map[string]*KExpr  // []byte variables holding a key's bytes (range over cmd[i:])
	setVars  map[string]*setVal // []string / [][]byte variables
	valVars  map[string]*KExpr  // variables holding (a view of) the value stored at a key
	valTypes map[string]string  // static type (memdb type name) of a variable, when known
	assigns  map[string]int     // number of assignment sites per identifier in the executor
	inLoop   int
	closure  string // "" | "defer" | "go" | "callback"
	depth    int
	prefix   string
}

func (c *ctx) unknown(why string, n ast.Node) Ev {
	return Ev{Kind: "unknown", Why: why, Pos: c.p.pos(n)}
}

func countAssigns(body ast.Node) map[string]int {
	m := map[string]int{}
	ast.Inspect(body, func(n ast.Node) bool {
		switch x := n.(type) {
		case *ast.AssignStmt:
			for _, l := range x.Lhs {
				if id, ok := l.(*ast.Ident); ok {
					m[id.Name]++
				}
			}
		case *ast.IncDecStmt:
			if id, ok := x.X.(*ast.Ident); ok {
				m[id.Name]++
			}
		case *ast.RangeStmt:
			if id, ok := x.Key.(*ast.Ident); ok {
				m[id.Name]++
			}
			if id, ok := x.Value.(*ast.Ident); ok {
				m[id.Name]++
			}
		case *ast.ValueSpec:
			for _, id := range x.Names {
				m[id.Name]++
			}
		}
		return true
	})
	return m
}

func intLit(e ast.Expr) (int, bool) {
	if bl, ok := e.(*ast.BasicLit); ok && bl.Kind == token.INT {
		v, err := strconv.Atoi(bl.Value)
		if err == nil {
			return v, true
		}
	}
	return 0, false
}

func isIdent(e ast.Expr, name string) bool {
	id, ok := e.(*ast.Ident)
	return ok && id.Name == name
}

// len(cmd)-j  -> j ; len(cmd) -> 0
func (c *ctx) lenCmdMinus(e ast.Expr) (int, bool) {
	if call, ok := e.(*ast.CallExpr); ok && isIdent(call.Fun, "len") && len(call.Args) == 1 && isIdent(call.Args[0], c.cmdName) {
		return 0, true
	}
	if be, ok := e.(*ast.BinaryExpr); ok && be.Op == token.SUB {
		if _, ok := c.lenCmdMinus(be.X); ok {
			if j, ok := intLit(be.Y); ok {
				return j, true
			}
		}
	}
	return 0, false
}

// expression of type []byte denoting a key's bytes
func (c *ctx) byteExpr(e ast.Expr) *KExpr {
	switch x := e.(type) {
	case *ast.ParenExpr:
		return c.byteExpr(x.X)
	case *ast.IndexExpr:
		if isIdent(x.X, c.cmdName) {
			if i, ok := intLit(x.Index); ok {
				return &KExpr{Kind: "arg", I: i}
			}
			return &KExpr{Kind: "idx", S: &KSet{Kind: "args", From: 0, Drop: 0}}
		}
		if id, ok := x.X.(*ast.Ident); ok {
			if sv, ok := c.setVars[id.Name]; ok && sv.byts && sv.set != nil {
				return &KExpr{Kind: "idx", S: sv.set}
			}
		}
	case *ast.Ident:
		if k, ok := c.byteVars[x.Name]; ok {
			return k
		}
	}
	return nil
}

// expression of type string denoting a key
func (c *ctx) keyExpr(e ast.Expr) *KExpr {
	switch x := e.(type) {
	case *ast.ParenExpr:
		return c.keyExpr(x.X)
	case *ast.Ident:
		if k, ok := c.keyVars[x.Name]; ok {
			return k
		}
		return kUnknown()
	case *ast.CallExpr:
		if isIdent(x.Fun, "string") && len(x.Args) == 1 {
			if b := c.byteExpr(x.Args[0]); b != nil {
				return b
			}
			return kUnknown()
		}
		if se, ok := x.Fun.(*ast.SelectorExpr); ok && isIdent(se.X, "strings") && se.Sel.Name == "ToLower" && len(x.Args) == 1 {
			return &KExpr{Kind: "lower", E: c.keyExpr(x.Args[0])}
		}
	case *ast.IndexExpr:
		if id, ok := x.X.(*ast.Ident); ok {
			if sv, ok := c.setVars[id.Name]; ok && !sv.byts {
				if sv.lit != nil {
					if i, ok := intLit(x.Index); ok && i < len(sv.lit) && sv.lit[i].K != nil {
						return sv.lit[i].K
					}
					return kUnknown()
				}
				return &KExpr{Kind: "idx", S: sv.set}
			}
		}
	}
	return kUnknown()
}

// expression denoting a set of keys ([]string), or of key bytes ([][]byte)
func (c *ctx) setExpr(e ast.Expr) *setVal {
	switch x := e.(type) {
	case *ast.ParenExpr:
		return c.setExpr(x.X)
	case *ast.Ident:
		if sv, ok := c.setVars[x.Name]; ok {
			return sv
		}
	case *ast.CompositeLit:
		if at, ok := x.Type.(*ast.ArrayType); ok && isIdent(at.Elt, "string") {
			lit := []KTarget{}
			for _, el := range x.Elts {
				lit = append(lit, KTarget{K: c.keyExpr(el)})
			}
			return &setVal{lit: lit}
		}
	case *ast.CallExpr:
		// append(A, B...) / append(A, k1, k2): the union of the operands
		if isIdent(x.Fun, "append") && len(x.Args) >= 1 {
			ts := []KTarget{}
			first := c.setExpr(x.Args[0])
			if first.byts {
				break
			}
			ts = append(ts, first.targets()...)
			for i, a := range x.Args[1:] {
				if x.Ellipsis.IsValid() && i == len(x.Args)-2 {
					sv := c.setExpr(a)
					if sv.byts {
						return &setVal{set: sUnknown()}
					}
					ts = append(ts, sv.targets()...)
				} else {
					ts = append(ts, KTarget{K: c.keyExpr(a)})
				}
			}
			return &setVal{lit: ts}
		}
	case *ast.SliceExpr:
		if isIdent(x.X, c.cmdName) && x.Low != nil && !x.Slice3 {
			if from, ok := intLit(x.Low); ok {
				if x.High == nil {
					return &setVal{set: &KSet{Kind: "args", From: from}, byts: true}
				}
				if d, ok := c.lenCmdMinus(x.High); ok {
					return &setVal{set: &KSet{Kind: "args", From: from, Drop: d}, byts: true}
				}
			}
		}
	}
	return &setVal{set: sUnknown()}
}

func (sv *setVal) targets() []KTarget {
	if sv.lit != nil {
		return sv.lit
	}
	return []KTarget{{S: sv.set}}
}

func isStringSliceType(t ast.Expr) bool {
	at, ok := t.(*ast.ArrayType)
	return ok && at.Len == nil && isIdent(at.Elt, "string")
}

// is e a fresh empty []string: make([]string, ...), []string{}, nil-valued var
func freshStringSlice(e ast.Expr) bool {
	switch x := e.(type) {
	case *ast.CallExpr:
		if isIdent(x.Fun, "make") && len(x.Args) >= 1 && isStringSliceType(x.Args[0]) {
			return true
		}
	case *ast.CompositeLit:
		if isStringSliceType(x.Type) && len(x.Elts) == 0 {
			return true
		}
	}
	return false
}

// root identifier of a selector / index / call chain
func rootIdent(e ast.Expr) *ast.Ident {
	for {
		switch x := e.(type) {
		case *ast.Ident:
			return x
		case *ast.SelectorExpr:
			e = x.X
		case *ast.IndexExpr:
			e = x.X
		case *ast.ParenExpr:
			e = x.X
		case *ast.StarExpr:
			e = x.X
		case *ast.CallExpr:
			e = x.Fun
		case *ast.TypeAssertExpr:
			e = x.X
		case *ast.SliceExpr:
			e = x.X
		default:
			return nil
		}
	}
}

var lockMethods = map[string][2]string{
	"Lock": {"lock", "W"}, "UnLock": {"unlock", "W"}, "RLock": {"lock", "R"}, "RUnLock": {"unlock", "R"},
	"LockMulti": {"lockmulti", "W"}, "UnLockMulti": {"unlockmulti", "W"},
	"RLockMulti": {"lockmulti", "R"}, "RUnLockMulti": {"unlockmulti", "R"},
}

var mapReads = map[string]bool{"Get": true}
var mapWrites = map[string]bool{"Set": true, "SetIfExist": true, "SetIfNotExist": true, "Delete": true}
var mapAllReads = map[string]bool{"Keys": true, "Len": true, "KeyVals": true}
var ignoredFields = map[string]bool{"SubChans": true, "Raft": true}

// events of a call rooted at the MemDb variable; ok=false when the call is not one
func (c *ctx) memdbCall(call *ast.CallExpr) ([]Ev, bool) {
	se, ok := call.Fun.(*ast.SelectorExpr)
	if !ok {
		return nil, false
	}
	// m.Method(...)
	if isIdent(se.X, c.mName) {
		switch se.Sel.Name {
		case "CheckTTL":
			if len(call.Args) == 1 {
				return []Ev{{Kind: "checkttl", K: c.keyExpr(call.Args[0])}}, true
			}
		case "SetTTL", "DelTTL":
			if len(call.Args) >= 1 {
				return []Ev{{Kind: "ttl", Acc: "write", Op: se.Sel.Name, K: c.keyExpr(call.Args[0])}}, true
			}
		}
		if fd, ok := c.p.methods["MemDb"][se.Sel.Name]; ok && se.Sel.Name != "ExecCommand" {
			return c.inline(fd, call, true), true
		}
		return []Ev{c.unknown("call of m."+se.Sel.Name, call)}, true
	}
	// m.<field>.Method(...)
	inner, ok := se.X.(*ast.SelectorExpr)
	if !ok || !isIdent(inner.X, c.mName) {
		return nil, false
	}
	field, meth := inner.Sel.Name, se.Sel.Name
	switch field {
	case "locks":
		lm, ok := lockMethods[meth]
		if !ok || len(call.Args) != 1 {
			return []Ev{c.unknown("m.locks."+meth, call)}, true
		}
		if strings.HasSuffix(lm[0], "multi") {
			sv := c.setExpr(call.Args[0])
			if sv.byts {
				return []Ev{c.unknown("*Multi over byte slices", call)}, true
			}
			return []Ev{{Kind: lm[0], Mode: lm[1], Ts: sv.targets()}}, true
		}
		return []Ev{{Kind: lm[0], Mode: lm[1], K: c.keyExpr(call.Args[0])}}, true
	case "db", "ttlKeys":
		kind := "db"
		if field == "ttlKeys" {
			kind = "ttl"
		}
		if mapReads[meth] && len(call.Args) >= 1 {
			return []Ev{{Kind: kind, Acc: "read", Op: meth, K: c.keyExpr(call.Args[0])}}, true
		}
		if mapWrites[meth] && len(call.Args) >= 1 {
			k := c.keyExpr(call.Args[0])
			if len(call.Args) >= 2 {
				if id, ok := call.Args[1].(*ast.Ident); ok && field == "db" {
					if _, tracked := c.valVars[id.Name]; !tracked {
						c.valVars[id.Name] = k
					}
				}
			}
			return []Ev{{Kind: kind, Acc: "write", Op: meth, K: k}}, true
		}
		if mapAllReads[meth] && field == "db" {
			return []Ev{{Kind: "dball", Acc: "read", Op: meth}}, true
		}
		return []Ev{c.unknown("m."+field+"."+meth, call)}, true
	}
	if ignoredFields[field] {
		return []Ev{}, true
	}
	return []Ev{c.unknown("m."+field+"."+meth, call)}, true
}

// inline a package function / MemDb method that receives the MemDb
func (c *ctx) inline(fd *ast.FuncDecl, call *ast.CallExpr, isMethod bool) []Ev {
	if c.depth >= 3 || fd.Body == nil {
		return []Ev{c.unknown("inlining depth / no body: "+fd.Name.Name, call)}
	}
	sub := &ctx{p: c.p, keyVars: map[string]*KExpr{}, byteVars: map[string]*KExpr{}, setVars: map[string]*setVal{},
		valVars: map[string]*KExpr{}, valTypes: map[string]string{}, assigns: countAssigns(fd.Body), depth: c.depth + 1, inLoop: c.inLoop,
		closure: c.closure, prefix: c.prefix + fd.Name.Name + "."}
	evs := []Ev{}
	if isMethod {
		if fd.Recv != nil && len(fd.Recv.List) == 1 && len(fd.Recv.List[0].Names) == 1 {
			sub.mName = fd.Recv.List[0].Names[0].Name
		}
		sub.cmdName = "\x00"
	}
	params := []*ast.Ident{}
	for _, f := range fd.Type.Params.List {
		params = append(params, f.Names...)
	}
	if len(params) != len(call.Args) {
		return []Ev{c.unknown("variadic or mismatched call of "+fd.Name.Name, call)}
	}
	for i, a := range call.Args {
		pn := params[i].Name
		switch {
		case isIdent(a, c.mName):
			sub.mName = pn
		case isIdent(a, c.cmdName):
			sub.cmdName = pn
		default:
			if k := c.keyExpr(a); k.Kind != "unknown" {
				sub.keyVars[pn] = k
				if sub.assigns[pn] > 0 {
					return []Ev{c.unknown("callee reassigns key parameter "+pn, call)}
				}
			} else if rootIdent(a) != nil && rootIdent(a).Name == c.mName {
				return []Ev{c.unknown("m passed in an unrecognised way to "+fd.Name.Name, call)}
			}
		}
	}
	if sub.cmdName == "" {
		sub.cmdName = "\x00"
	}
	if sub.mName == "" {
		sub.mName = "\x00"
	}
	evs = append(evs, sub.block(fd.Body.List)...)
	return evs
}

// all events of an expression, in evaluation order (operands before the call)
func (c *ctx) expr(e ast.Expr) []Ev {
	if e == nil {
		return nil
	}
	evs := []Ev{}
	switch x := e.(type) {
	case *ast.CallExpr:
		if mev, ok := c.memdbCall(x); ok {
			for _, a := range x.Args {
				evs = append(evs, c.exprNoKey(a)...)
			}
			return append(evs, mev...)
		}
		// package function that is handed the MemDb: inline
		if id, ok := x.Fun.(*ast.Ident); ok {
			passesM := false
			for _, a := range x.Args {
				if isIdent(a, c.mName) {
					passesM = true
				}
			}
			if passesM {
				if fd, ok := c.p.funcs[id.Name]; ok {
					return []Ev{{Kind: "call", Body: c.inline(fd, x, false), Op: id.Name, Pos: c.p.pos(x)}}
				}
				return []Ev{c.unknown("m passed to unknown function "+id.Name, x)}
			}
		}
		// function literal called on the spot
		if fl, ok := x.Fun.(*ast.FuncLit); ok {
			for _, a := range x.Args {
				evs = append(evs, c.expr(a)...)
			}
			return append(evs, c.closureBody(fl, "callback")...)
		}
		// method call on a value object: v.Method(args)
		if se, ok := x.Fun.(*ast.SelectorExpr); ok {
			if id, ok := se.X.(*ast.Ident); ok {
				if k, ok := c.valVars[id.Name]; ok {
					for _, a := range x.Args {
						evs = append(evs, c.expr(a)...)
					}
					acc := "write"
					if t, ok := c.valTypes[id.Name]; ok {
						if mut, ok := c.p.mutBy[t][se.Sel.Name]; ok && !mut {
							acc = "read"
						}
					} else if c.p.readonly[se.Sel.Name] && !c.p.mutating[se.Sel.Name] {
						acc = "read"
					}
					return append(evs, Ev{Kind: "val", Acc: acc, Op: se.Sel.Name, K: k})
				}
			}
			evs = append(evs, c.expr(se.X)...)
		} else {
			evs = append(evs, c.expr(x.Fun)...)
		}
		for _, a := range x.Args {
			evs = append(evs, c.expr(a)...)
		}
		return evs
	case *ast.Ident:
		if x.Name == c.mName {
			return []Ev{c.unknown("MemDb value escapes", x)}
		}
		return nil
	case *ast.SelectorExpr:
		if id, ok := x.X.(*ast.Ident); ok {
			if k, ok := c.valVars[id.Name]; ok {
				return []Ev{{Kind: "val", Acc: "read", Op: "." + x.Sel.Name, K: k}}
			}
			if id.Name == c.mName {
				if ignoredFields[x.Sel.Name] {
					return nil
				}
				return []Ev{c.unknown("m."+x.Sel.Name+" used outside a recognised call", x)}
			}
		}
		return c.expr(x.X)
	case *ast.FuncLit:
		return c.closureBody(x, "callback")
	case *ast.BinaryExpr:
		return append(c.expr(x.X), c.expr(x.Y)...)
	case *ast.UnaryExpr:
		return c.expr(x.X)
	case *ast.ParenExpr:
		return c.expr(x.X)
	case *ast.StarExpr:
		return c.expr(x.X)
	case *ast.IndexExpr:
		return append(c.expr(x.X), c.expr(x.Index)...)
	case *ast.SliceExpr:
		evs = append(evs, c.expr(x.X)...)
		evs = append(evs, c.expr(x.Low)...)
		evs = append(evs, c.expr(x.High)...)
		return append(evs, c.expr(x.Max)...)
	case *ast.TypeAssertExpr:
		// v.(*T): reads only the interface word, not the object
		if _, ok := x.X.(*ast.Ident); ok {
			return nil
		}
		return c.expr(x.X)
	case *ast.CompositeLit:
		for _, el := range x.Elts {
			evs = append(evs, c.expr(el)...)
		}
		return evs
	case *ast.KeyValueExpr:
		return append(c.expr(x.Key), c.expr(x.Value)...)
	}
	return nil
}

// events of an argument that is itself a key expression (string(cmd[1]) etc.): none, unless it
// hides a call
func (c *ctx) exprNoKey(e ast.Expr) []Ev {
	if k := c.keyExpr(e); k.Kind != "unknown" {
		return nil
	}
	if id, ok := e.(*ast.Ident); ok {
		if _, ok := c.setVars[id.Name]; ok {
			return nil
		}
		if _, ok := c.valVars[id.Name]; ok {
			return nil // storing the object itself
		}
	}
	return c.expr(e)
}

// the body of a function literal
func (c *ctx) closureBody(fl *ast.FuncLit, kind string) []Ev {
	sub := *c
	sub.closure = kind
	sub.inLoop = 0
	body := sub.block(fl.Body.List)
	if kind == "callback" {
		return []Ev{{Kind: "loop", Body: body}}
	}
	return body
}

func (c *ctx) bindKeyVar(name string, rhs ast.Expr, n ast.Node) []Ev {
	k := c.keyExpr(rhs)
	if k.closedStable() && c.assigns[name] <= 1 && c.inLoop == 0 {
		c.keyVars[name] = k
		return nil
	}
	switch k.Kind {
	case "in":
		c.keyVars[name] = &KExpr{Kind: "in", X: c.prefix + name, S: k.S}
	case "idx":
		c.keyVars[name] = &KExpr{Kind: "in", X: c.prefix + name, S: k.S}
	default:
		c.keyVars[name] = &KExpr{Kind: "var", X: c.prefix + name}
	}
	return []Ev{{Kind: "bind", X: c.prefix + name}}
}

func isStringExprSyntactic(e ast.Expr) bool {
	switch x := e.(type) {
	case *ast.CallExpr:
		if isIdent(x.Fun, "string") {
			return true
		}
		if se, ok := x.Fun.(*ast.SelectorExpr); ok && isIdent(se.X, "strings") && se.Sel.Name == "ToLower" {
			return true
		}
	}
	return false
}

// assignment lhs := rhs / lhs = rhs (one value each side, or v, ok := f())
func (c *ctx) assign(lhs []ast.Expr, rhs []ast.Expr, n ast.Node) []Ev {
	evs := []Ev{}
	if len(lhs) == len(rhs) && len(lhs) > 1 {
		for i := range lhs {
			evs = append(evs, c.assign(lhs[i:i+1], rhs[i:i+1], n)...)
		}
		return evs
	}
	// events of the right-hand sides first
	for _, r := range rhs {
		evs = append(evs, c.expr(r)...)
	}
	// left-hand sides that are not plain identifiers: writes through value objects
	for _, l := range lhs {
		if _, ok := l.(*ast.Ident); ok {
			continue
		}
		if id := rootIdent(l); id != nil {
			if k, ok := c.valVars[id.Name]; ok {
				evs = append(evs, Ev{Kind: "val", Acc: "write", Op: "assign", K: k})
				continue
			}
			if id.Name == c.mName {
				evs = append(evs, c.unknown("assignment into MemDb", n))
				continue
			}
			if id.Name == c.cmdName {
				evs = append(evs, c.unknown("command arguments modified", n))
				continue
			}
		}
		evs = append(evs, c.expr(l)...)
	}
	if len(rhs) == 1 && len(lhs) >= 1 {
		r := rhs[0]
		if id, ok := lhs[0].(*ast.Ident); ok && id.Name != "_" {
			name := id.Name
			// v, ok := m.db.Get(k)
			if call, ok := r.(*ast.CallExpr); ok {
				if se, ok := call.Fun.(*ast.SelectorExpr); ok {
					if inner, ok := se.X.(*ast.SelectorExpr); ok && isIdent(inner.X, c.mName) && inner.Sel.Name == "db" && se.Sel.Name == "Get" && len(call.Args) == 1 {
						c.valVars[name] = c.keyExpr(call.Args[0])
						return evs
					}
				}
			}
			// x, ok := v.(*T)
			if ta, ok := r.(*ast.TypeAssertExpr); ok {
				if tn := typeName(ta.Type); tn != "" {
					c.valTypes[name] = tn
				}
				if src, ok := ta.X.(*ast.Ident); ok {
					if k, ok := c.valVars[src.Name]; ok {
						c.valVars[name] = k
						return evs
					}
				}
			}
			// x := NewT(): the declared result type of a package function
			if call, ok := r.(*ast.CallExpr); ok {
				if fid, ok := call.Fun.(*ast.Ident); ok {
					if fd, ok := c.p.funcs[fid.Name]; ok && fd.Type.Results != nil && len(fd.Type.Results.List) == 1 {
						if tn := typeName(fd.Type.Results.List[0].Type); tn != "" {
							c.valTypes[name] = tn
						}
					}
				}
			}
			// x := v
			if src, ok := r.(*ast.Ident); ok {
				if k, ok := c.valVars[src.Name]; ok {
					c.valVars[name] = k
					return evs
				}
			}
			if len(lhs) == 1 {
				// key := string(cmd[1]) / strings.ToLower(...) / other key expression
				if k := c.keyExpr(r); k.Kind != "unknown" || isStringExprSyntactic(r) {
					return append(evs, c.bindKeyVar(name, r, n)...)
				}
				if _, was := c.keyVars[name]; was {
					c.keyVars[name] = &KExpr{Kind: "var", X: c.prefix + name}
					return append(evs, Ev{Kind: "bind", X: c.prefix + name})
				}
				// keys := []string{a, b} / make([]string, ...) / cmd[1:]
				if cl, ok := r.(*ast.CompositeLit); ok && isStringSliceType(cl.Type) && len(cl.Elts) > 0 && c.assigns[name] <= 1 && c.inLoop == 0 {
					c.setVars[name] = c.setExpr(r)
					return evs
				}
				if sl, ok := r.(*ast.SliceExpr); ok && isIdent(sl.X, c.cmdName) && c.assigns[name] <= 1 && c.inLoop == 0 {
					c.setVars[name] = c.setExpr(r)
					return evs
				}
				if freshStringSlice(r) {
					c.setVars[name] = &setVal{set: &KSet{Kind: "var", Name: c.prefix + name}}
					return append(evs, Ev{Kind: "bind", X: c.prefix + name})
				}
				// all := append([]string{a}, keys...): a new variable naming a union
				if call, ok := r.(*ast.CallExpr); ok && isIdent(call.Fun, "append") && len(call.Args) >= 1 &&
					!isIdent(call.Args[0], name) && c.assigns[name] <= 1 && c.inLoop == 0 {
					if _, isSet := c.setVars[name]; !isSet {
						c.setVars[name] = c.setExpr(r)
						return evs
					}
				}
				// keys = append(keys, ...)
				if call, ok := r.(*ast.CallExpr); ok && isIdent(call.Fun, "append") {
					if sv, ok := c.setVars[name]; ok {
						if sv.lit != nil || sv.set.Kind != "var" {
							c.setVars[name] = &setVal{set: &KSet{Kind: "var", Name: c.prefix + name}}
						}
						return append(evs, Ev{Kind: "bind", X: c.prefix + name})
					}
				}
				if _, was := c.setVars[name]; was {
					c.setVars[name] = &setVal{set: &KSet{Kind: "var", Name: c.prefix + name}}
					return append(evs, Ev{Kind: "bind", X: c.prefix + name})
				}
			}
		}
	}
	// any other reassignment of a tracked variable
	for _, l := range lhs {
		if id, ok := l.(*ast.Ident); ok {
			if _, was := c.keyVars[id.Name]; was {
				c.keyVars[id.Name] = &KExpr{Kind: "var", X: c.prefix + id.Name}
				evs = append(evs, Ev{Kind: "bind", X: c.prefix + id.Name})
			}
			if _, was := c.setVars[id.Name]; was {
				c.setVars[id.Name] = &setVal{set: &KSet{Kind: "var", Name: c.prefix + id.Name}}
				evs = append(evs, Ev{Kind: "bind", X: c.prefix + id.Name})
			}
		}
	}
	return evs
}

func (c *ctx) block(stmts []ast.Stmt) []Ev {
	evs := []Ev{}
	for _, s := range stmts {
		evs = append(evs, c.stmt(s)...)
	}
	return evs
}

// variables assigned in a loop body that were tracked before the loop: their value at the top
// of an iteration is not the one known before the loop
func (c *ctx) invalidateAssignedIn(body ast.Node) []Ev {
	evs := []Ev{}
	as := countAssigns(body)
	names := []string{}
	for n := range as {
		names = append(names, n)
	}
	sort.Strings(names)
	for _, n := range names {
		if k, ok := c.keyVars[n]; ok && !(k.Kind == "var" || k.Kind == "in") {
			c.keyVars[n] = &KExpr{Kind: "var", X: c.prefix + n}
			evs = append(evs, Ev{Kind: "bind", X: c.prefix + n})
		}
		if sv, ok := c.setVars[n]; ok && (sv.lit != nil || sv.set.Kind != "var") {
			c.setVars[n] = &setVal{set: &KSet{Kind: "var", Name: c.prefix + n}}
			evs = append(evs, Ev{Kind: "bind", X: c.prefix + n})
		}
	}
	return evs
}

func (c *ctx) stmt(s ast.Stmt) []Ev {
	switch x := s.(type) {
	case nil:
		return nil
	case *ast.ExprStmt:
		if call, ok := x.X.(*ast.CallExpr); ok && isIdent(call.Fun, "panic") {
			evs := []Ev{}
			for _, a := range call.Args {
				evs = append(evs, c.expr(a)...)
			}
			return append(evs, c.ret(x)...)
		}
		return c.flattenCalls(c.expr(x.X), false)
	case *ast.AssignStmt:
		return c.flattenCalls(c.assign(x.Lhs, x.Rhs, x), false)
	case *ast.DeclStmt:
		evs := []Ev{}
		if gd, ok := x.Decl.(*ast.GenDecl); ok {
			for _, sp := range gd.Specs {
				vs, ok := sp.(*ast.ValueSpec)
				if !ok {
					continue
				}
				if len(vs.Values) == len(vs.Names) && len(vs.Values) > 0 {
					for i := range vs.Names {
						evs = append(evs, c.assign([]ast.Expr{vs.Names[i]}, []ast.Expr{vs.Values[i]}, x)...)
					}
				} else if len(vs.Values) == 0 && vs.Type != nil && typeName(vs.Type) != "" {
					for _, id := range vs.Names {
						c.valTypes[id.Name] = typeName(vs.Type)
					}
				} else if len(vs.Values) == 0 && vs.Type != nil && isStringSliceType(vs.Type) {
					for _, id := range vs.Names {
						c.setVars[id.Name] = &setVal{set: &KSet{Kind: "var", Name: c.prefix + id.Name}}
						evs = append(evs, Ev{Kind: "bind", X: c.prefix + id.Name})
					}
				} else {
					for _, v := range vs.Values {
						evs = append(evs, c.expr(v)...)
					}
				}
			}
		}
		return c.flattenCalls(evs, false)
	case *ast.IncDecStmt:
		return c.assign([]ast.Expr{x.X}, nil, x)
	case *ast.ReturnStmt:
		evs := []Ev{}
		tail := len(x.Results) == 1
		for _, r := range x.Results {
			evs = append(evs, c.expr(r)...)
		}
		evs = c.flattenCalls(evs, tail && c.closure == "")
		if len(evs) > 0 && evs[len(evs)-1].Kind == "tailreturned" {
			return evs[:len(evs)-1]
		}
		return append(evs, c.ret(x)...)
	case *ast.BlockStmt:
		return c.block(x.List)
	case *ast.IfStmt:
		evs := c.stmt(x.Init)
		evs = append(evs, c.flattenCalls(c.expr(x.Cond), false)...)
		thenEvs := c.block(x.Body.List)
		var elseEvs []Ev
		if x.Else != nil {
			elseEvs = c.stmt(x.Else)
		}
		if len(thenEvs) == 0 && len(elseEvs) == 0 {
			return evs
		}
		return append(evs, Ev{Kind: "branch", Alts: [][]Ev{thenEvs, elseEvs}})
	case *ast.SwitchStmt:
		evs := c.stmt(x.Init)
		evs = append(evs, c.flattenCalls(c.expr(x.Tag), false)...)
		return append(evs, c.cases(x.Body.List)...)
	case *ast.TypeSwitchStmt:
		evs := c.stmt(x.Init)
		if as, ok := x.Assign.(*ast.AssignStmt); ok {
			// v := x.(type): v views the same value
			if ta, ok := as.Rhs[0].(*ast.TypeAssertExpr); ok {
				if src, ok := ta.X.(*ast.Ident); ok {
					if k, ok := c.valVars[src.Name]; ok {
						if id, ok := as.Lhs[0].(*ast.Ident); ok {
							c.valVars[id.Name] = k
						}
					}
				}
			}
		}
		return append(evs, c.cases(x.Body.List)...)
	case *ast.SelectStmt:
		alts := [][]Ev{}
		for _, cl := range x.Body.List {
			cc := cl.(*ast.CommClause)
			a := c.stmt(cc.Comm)
			a = append(a, c.caseBody(cc.Body)...)
			alts = append(alts, a)
		}
		return []Ev{{Kind: "branch", Alts: alts}}
	case *ast.ForStmt:
		evs := c.stmt(x.Init)
		evs = append(evs, c.invalidateAssignedIn(x.Body)...)
		if x.Post != nil {
			evs = append(evs, c.invalidateAssignedIn(x.Post)...)
		}
		c.inLoop++
		body := c.flattenCalls(c.expr(x.Cond), false)
		body = append(body, c.block(x.Body.List)...)
		body = append(body, c.stmt(x.Post)...)
		c.inLoop--
		if len(body) == 0 {
			return evs
		}
		return append(evs, Ev{Kind: "loop", Body: body})
	case *ast.RangeStmt:
		evs := c.flattenCalls(c.expr(x.X), false)
		evs = append(evs, c.invalidateAssignedIn(x.Body)...)
		c.inLoop++
		body := []Ev{}
		if id, ok := x.Value.(*ast.Ident); ok && id.Name != "_" {
			sv := c.setExpr(x.X)
			_, isSet := c.setVars[rootName(x.X)]
			if sv.set != nil && sv.set.Kind != "unknown" || isSet || sv.lit != nil {
				body = append(body, Ev{Kind: "bind", X: c.prefix + id.Name})
				s := sv.set
				if s == nil {
					s = sUnknown()
				}
				k := &KExpr{Kind: "in", X: c.prefix + id.Name, S: s}
				if sv.lit != nil {
					k = &KExpr{Kind: "var", X: c.prefix + id.Name}
				}
				if sv.byts {
					c.byteVars[id.Name] = k
				} else {
					c.keyVars[id.Name] = k
				}
			} else if _, was := c.keyVars[id.Name]; was {
				c.keyVars[id.Name] = &KExpr{Kind: "var", X: c.prefix + id.Name}
				body = append(body, Ev{Kind: "bind", X: c.prefix + id.Name})
			} else if k, ok := c.valVars[rootName(x.X)]; ok {
				_ = k
			}
		}
		if id, ok := x.Key.(*ast.Ident); ok && id.Name != "_" {
			if _, was := c.keyVars[id.Name]; was {
				c.keyVars[id.Name] = &KExpr{Kind: "var", X: c.prefix + id.Name}
				body = append(body, Ev{Kind: "bind", X: c.prefix + id.Name})
			}
		}
		body = append(body, c.block(x.Body.List)...)
		c.inLoop--
		if len(body) == 0 {
			return evs
		}
		// a loop whose body is only the rebinding of its variable does nothing
		only := true
		for i, e := range body {
			if e.Kind != "bind" || i > 0 {
				only = false
			}
		}
		if only {
			return evs
		}
		return append(evs, Ev{Kind: "loop", Body: body})
	case *ast.DeferStmt:
		return c.deferOrGo(x.Call, "defer", x)
	case *ast.GoStmt:
		return c.deferOrGo(x.Call, "go", x)
	case *ast.BranchStmt:
		if x.Label != nil {
			return []Ev{c.unknown("labelled "+x.Tok.String(), x)}
		}
		switch x.Tok {
		case token.BREAK:
			return []Ev{{Kind: "break"}}
		case token.CONTINUE:
			if c.inLoop == 0 {
				return []Ev{c.unknown("continue outside loop", x)}
			}
			return []Ev{{Kind: "jump"}}
		case token.FALLTHROUGH:
			return []Ev{{Kind: "fallthrough"}}
		}
		return []Ev{c.unknown(x.Tok.String(), x)}
	case *ast.LabeledStmt:
		return append([]Ev{c.unknown("label", x)}, c.stmt(x.Stmt)...)
	case *ast.SendStmt:
		return append(c.expr(x.Chan), c.expr(x.Value)...)
	case *ast.EmptyStmt:
		return nil
	}
	return []Ev{c.unknown(fmt.Sprintf("statement %T", s), s)}
}

// memdb type named by *T / T / *T[...]
func typeName(t ast.Expr) string {
	for {
		switch x := t.(type) {
		case *ast.StarExpr:
			t = x.X
		case *ast.IndexExpr:
			t = x.X
		case *ast.IndexListExpr:
			t = x.X
		case *ast.Ident:
			switch x.Name {
			case "string", "int", "int64", "bool", "error", "byte", "float64", "any", "uint32", "uint64":
				return ""
			}
			return x.Name
		default:
			return ""
		}
	}
}

func rootName(e ast.Expr) string {
	if id := rootIdent(e); id != nil {
		return id.Name
	}
	return ""
}

// a return inside a deferred / go / callback closure only leaves the closure
func (c *ctx) ret(n ast.Node) []Ev {
	switch c.closure {
	case "callback":
		return []Ev{{Kind: "jump"}}
	}
	return []Ev{{Kind: "return"}}
}

// "call" pseudo-events come from inlined helper functions.  In tail position (return f(m, ...))
// the callee's returns are the executor's.  Elsewhere the callee body is spliced in when it has
// no early return and no defer; otherwise we do not know.
func (c *ctx) flattenCalls(evs []Ev, tail bool) []Ev {
	out := []Ev{}
	for i, e := range evs {
		if e.Kind != "call" {
			out = append(out, e)
			continue
		}
		if tail && i == len(evs)-1 {
			out = append(out, e.Body...)
			out = append(out, Ev{Kind: "return"}, Ev{Kind: "tailreturned"})
			continue
		}
		body := e.Body
		if n := len(body); n > 0 && body[n-1].Kind == "return" {
			body = body[:n-1]
		}
		if hasKind(body, "return") || hasKind(body, "defer") {
			out = append(out, Ev{Kind: "unknown", Why: "helper " + e.Op + " with early return or defer called outside tail position", Pos: e.Pos})
			continue
		}
		out = append(out, body...)
	}
	return out
}

func hasKind(evs []Ev, kind string) bool {
	for _, e := range evs {
		if e.Kind == kind {
			return true
		}
		if hasKind(e.Body, kind) {
			return true
		}
		for _, a := range e.Alts {
			if hasKind(a, kind) {
				return true
			}
		}
	}
	return false
}

func (c *ctx) caseBody(stmts []ast.Stmt) []Ev {
	evs := c.block(stmts)
	// a break that leaves the switch / select ends the alternative
	for i, e := range evs {
		if e.Kind == "break" {
			return evs[:i]
		}
	}
	return evs
}

func (c *ctx) cases(list []ast.Stmt) []Ev {
	alts := [][]Ev{}
	hasDefault := false
	bodies := [][]Ev{}
	pre := []Ev{}
	for _, cl := range list {
		cc := cl.(*ast.CaseClause)
		if cc.List == nil {
			hasDefault = true
		}
		for _, e := range cc.List {
			pre = append(pre, c.flattenCalls(c.expr(e), false)...)
		}
		bodies = append(bodies, c.caseBody(cc.Body))
	}
	for i := range bodies {
		b := bodies[i]
		j := i
		for len(b) > 0 && b[len(b)-1].Kind == "fallthrough" && j+1 < len(bodies) {
			j++
			b = append(append([]Ev{}, b[:len(b)-1]...), bodies[j]...)
		}
		alts = append(alts, b)
	}
	if !hasDefault {
		alts = append(alts, []Ev{})
	}
	all := true
	for _, a := range alts {
		if len(a) != 0 {
			all = false
		}
	}
	if all {
		return pre
	}
	return append(pre, Ev{Kind: "branch", Alts: alts})
}

func (c *ctx) deferOrGo(call *ast.CallExpr, kind string, n ast.Node) []Ev {
	evs := []Ev{}
	var body []Ev
	if fl, ok := call.Fun.(*ast.FuncLit); ok {
		for _, a := range call.Args {
			evs = append(evs, c.expr(a)...)
		}
		sub := *c
		// parameters of the literal that receive key expressions
		if fl.Type.Params != nil {
			i := 0
			sub.keyVars = copyMap(c.keyVars)
			for _, f := range fl.Type.Params.List {
				for _, nm := range f.Names {
					if i < len(call.Args) {
						if k := c.keyExpr(call.Args[i]); k.Kind != "unknown" {
							sub.keyVars[nm.Name] = k
						}
					}
					i++
				}
			}
		}
		body = sub.closureBody(fl, kind)
	} else {
		body = c.flattenCalls(c.expr(call), false)
	}
	if len(body) == 0 {
		return evs
	}
	return append(evs, Ev{Kind: kind, Body: body})
}

func copyMap(m map[string]*KExpr) map[string]*KExpr {
	r := map[string]*KExpr{}
	for k, v := range m {
		r[k] = v
	}
	return r
}

// turn leftover pseudo events into grammar events
func finish(evs []Ev, inLoop bool) []Ev {
	out := []Ev{}
	for _, e := range evs {
		switch e.Kind {
		case "break":
			if inLoop {
				out = append(out, Ev{Kind: "jump"})
			} else {
				out = append(out, Ev{Kind: "unknown", Why: "break outside loop"})
			}
			continue
		case "fallthrough", "tailreturned":
			out = append(out, Ev{Kind: "unknown", Why: "stray " + e.Kind})
			continue
		case "call":
			out = append(out, Ev{Kind: "unknown", Why: "unflattened call " + e.Op, Pos: e.Pos})
			continue
		}
		switch e.Kind {
		case "loop":
			e.Body = finish(e.Body, true)
		case "defer", "go":
			e.Body = finish(e.Body, false)
		case "branch":
			alts := [][]Ev{}
			for _, a := range e.Alts {
				alts = append(alts, finish(a, inLoop))
			}
			e.Alts = alts
		}
		out = append(out, e)
	}
	// drop unreachable events after return / jump
	for i, e := range out {
		if e.Kind == "return" || e.Kind == "jump" {
			return out[:i+1]
		}
	}
	return out
}

func (p *pkgInfo) skeletonOf(fd *ast.FuncDecl, ftype *ast.FuncType, body *ast.BlockStmt) []Ev {
	c := &ctx{p: p, keyVars: map[string]*KExpr{}, byteVars: map[string]*KExpr{}, setVars: map[string]*setVal{},
		valVars: map[string]*KExpr{}, valTypes: map[string]string{}, assigns: countAssigns(body)}
	params := []string{}
	for _, f := range ftype.Params.List {
		if len(f.Names) == 0 {
			params = append(params, "_")
		}
		for _, n := range f.Names {
			params = append(params, n.Name)
		}
	}
	if len(params) != 4 {
		return []Ev{{Kind: "unknown", Why: "executor does not have the 4-parameter signature"}}
	}
	c.mName, c.cmdName = params[1], params[2]
	if c.mName == "_" {
		c.mName = "\x00"
	}
	if c.cmdName == "_" {
		c.cmdName = "\x00"
	}
	pre := []Ev{}
	if c.assigns[c.cmdName] > 0 {
		pre = append(pre, Ev{Kind: "unknown", Why: "command argument slice reassigned"})
	}
	return finish(append(pre, c.block(body.List)...), false)
}

// helper bodies: parameters named by the caller become KVar
func (p *pkgInfo) helperSkeleton(recv, name, keyParam string) []Ev {
	fd, ok := p.methods[recv][name]
	if !ok {
		return []Ev{{Kind: "unknown", Why: "no method " + recv + "." + name}}
	}
	c := &ctx{p: p, keyVars: map[string]*KExpr{}, byteVars: map[string]*KExpr{}, setVars: map[string]*setVal{},
		valVars: map[string]*KExpr{}, valTypes: map[string]string{}, assigns: countAssigns(fd.Body), cmdName: "\x00"}
	c.mName = fd.Recv.List[0].Names[0].Name
	found := false
	for _, f := range fd.Type.Params.List {
		for _, n := range f.Names {
			if n.Name == keyParam {
				found = true
			}
		}
	}
	if !found || c.assigns[keyParam] > 0 {
		return []Ev{{Kind: "unknown", Why: "key parameter of " + name + " not found or reassigned"}}
	}
	c.keyVars[keyParam] = &KExpr{Kind: "var", X: keyParam}
	return finish(c.block(fd.Body.List), false)
}

// ---------------------------------------------------------------- shape facts about dblock.go

// LockMulti & co: poses := l.sortedLockPoses(keys); nil check; for _, pos := range poses { l.locks[pos].<M>() }
func (p *pkgInfo) multiShape(name, inner string) bool {
	fd, ok := p.methods["Locks"][name]
	if !ok || fd.Body == nil {
		return false
	}
	var posesVar string
	okAssign, okLoop := false, false
	extraCalls := 0
	for _, s := range fd.Body.List {
		switch x := s.(type) {
		case *ast.AssignStmt:
			if len(x.Lhs) == 1 && len(x.Rhs) == 1 {
				if call, ok := x.Rhs[0].(*ast.CallExpr); ok {
					if se, ok := call.Fun.(*ast.SelectorExpr); ok && se.Sel.Name == "sortedLockPoses" {
						if id, ok := x.Lhs[0].(*ast.Ident); ok {
							posesVar = id.Name
							okAssign = true
							continue
						}
					}
				}
			}
			extraCalls++
		case *ast.IfStmt:
			// if poses == nil { return }
			if len(x.Body.List) == 1 {
				if _, ok := x.Body.List[0].(*ast.ReturnStmt); ok && x.Else == nil {
					continue
				}
			}
			extraCalls++
		case *ast.RangeStmt:
			if !isIdent(x.X, posesVar) || x.Value == nil || len(x.Body.List) == 0 {
				extraCalls++
				continue
			}
			// the last statement of the body must be l.locks[pos].<inner>(); earlier ones may
			// only be calls to functions whose name starts with "verif" (instrumentation)
			good := true
			for i, bs := range x.Body.List {
				es, ok := bs.(*ast.ExprStmt)
				if !ok {
					good = false
					break
				}
				call, ok := es.X.(*ast.CallExpr)
				if !ok {
					good = false
					break
				}
				if id, ok := call.Fun.(*ast.Ident); ok && strings.HasPrefix(id.Name, "verif") {
					continue
				}
				se, ok := call.Fun.(*ast.SelectorExpr)
				if !ok || se.Sel.Name != inner {
					good = false
					break
				}
				ie, ok := se.X.(*ast.IndexExpr)
				if !ok || !isIdent(ie.Index, x.Value.(*ast.Ident).Name) {
					good = false
					break
				}
				_ = i
			}
			okLoop = good
		case *ast.ExprStmt:
			if call, ok := x.X.(*ast.CallExpr); ok {
				if id, ok := call.Fun.(*ast.Ident); ok && strings.HasPrefix(id.Name, "verif") {
					continue
				}
			}
			extraCalls++
		default:
			extraCalls++
		}
	}
	return okAssign && okLoop && extraCalls == 0
}

// sortedLockPoses: fills a map keyed by GetKeyPos(key), copies the keys of the map into a slice,
// sort.Ints on it, returns it
func (p *pkgInfo) sortedShape() (usesMapSet, sorts, returnsSorted bool) {
	fd, ok := p.methods["Locks"]["sortedLockPoses"]
	if !ok || fd.Body == nil {
		return
	}
	var sortedVar string
	ast.Inspect(fd.Body, func(n ast.Node) bool {
		switch x := n.(type) {
		case *ast.CallExpr:
			if se, ok := x.Fun.(*ast.SelectorExpr); ok && isIdent(se.X, "sort") && se.Sel.Name == "Ints" && len(x.Args) == 1 {
				if id, ok := x.Args[0].(*ast.Ident); ok {
					sorts = true
					sortedVar = id.Name
				}
			}
			if isIdent(x.Fun, "make") && len(x.Args) >= 1 {
				if mt, ok := x.Args[0].(*ast.MapType); ok && isIdent(mt.Key, "int") {
					usesMapSet = true
				}
			}
		}
		return true
	})
	// the last statement returns the sorted variable and the sort is the statement before it
	n := len(fd.Body.List)
	if n >= 2 && sorts {
		if rs, ok := fd.Body.List[n-1].(*ast.ReturnStmt); ok && len(rs.Results) == 1 && isIdent(rs.Results[0], sortedVar) {
			if es, ok := fd.Body.List[n-2].(*ast.ExprStmt); ok {
				if call, ok := es.X.(*ast.CallExpr); ok {
					if se, ok := call.Fun.(*ast.SelectorExpr); ok && se.Sel.Name == "Ints" {
						returnsSorted = true
					}
				}
			}
		}
	}
	return
}

// GetKeyPos: util.HashKey(key) % len(l.locks)
func (p *pkgInfo) keyPosShape() bool {
	fd, ok := p.methods["Locks"]["GetKeyPos"]
	if !ok || fd.Body == nil {
		return false
	}
	hash, mod := false, false
	ast.Inspect(fd.Body, func(n ast.Node) bool {
		switch x := n.(type) {
		case *ast.CallExpr:
			if se, ok := x.Fun.(*ast.SelectorExpr); ok && isIdent(se.X, "util") && se.Sel.Name == "HashKey" {
				hash = true
			}
		case *ast.BinaryExpr:
			if x.Op == token.REM {
				if call, ok := x.Y.(*ast.CallExpr); ok && isIdent(call.Fun, "len") {
					mod = true
				}
			}
		}
		return true
	})
	return hash && mod
}

// single-key lock methods: pos := l.GetKeyPos(key); ...; l.locks[pos].<inner>()
func (p *pkgInfo) singleShape(name, inner string) bool {
	fd, ok := p.methods["Locks"][name]
	if !ok || fd.Body == nil {
		return false
	}
	n := 0
	ast.Inspect(fd.Body, func(nd ast.Node) bool {
		if call, ok := nd.(*ast.CallExpr); ok {
			if se, ok := call.Fun.(*ast.SelectorExpr); ok {
				if _, ok := se.X.(*ast.IndexExpr); ok {
					if se.Sel.Name == inner {
						n++
					} else {
						n += 100
					}
				}
			}
		}
		return true
	})
	return n == 1
}

// count updates of ConcurrentMap: every modification of m.count goes through sync/atomic, and
// Keys() does not index a slice sized from the counter
func (p *pkgInfo) countFacts() (plainUpdates int, atomicUpdates int, keysIndexesPrealloc bool) {
	for _, fd := range p.methods["ConcurrentMap"] {
		if fd.Body == nil {
			continue
		}
		ast.Inspect(fd.Body, func(n ast.Node) bool {
			switch x := n.(type) {
			case *ast.IncDecStmt:
				if se, ok := x.X.(*ast.SelectorExpr); ok && se.Sel.Name == "count" {
					plainUpdates++
				}
			case *ast.AssignStmt:
				for _, l := range x.Lhs {
					if se, ok := l.(*ast.SelectorExpr); ok && se.Sel.Name == "count" {
						plainUpdates++
					}
				}
			case *ast.CallExpr:
				if se, ok := x.Fun.(*ast.SelectorExpr); ok && isIdent(se.X, "atomic") && strings.HasPrefix(se.Sel.Name, "Add") {
					atomicUpdates++
				}
			}
			return true
		})
	}
	if fd, ok := p.methods["ConcurrentMap"]["Keys"]; ok && fd.Body != nil {
		ast.Inspect(fd.Body, func(n ast.Node) bool {
			if as, ok := n.(*ast.AssignStmt); ok {
				for _, l := range as.Lhs {
					if ie, ok := l.(*ast.IndexExpr); ok {
						if _, ok := ie.X.(*ast.Ident); ok {
							keysIndexesPrealloc = true
						}
					}
				}
			}
			return true
		})
	}
	return
}

// ---------------------------------------------------------------- main

type skel struct {
	Name string `json:"name"`
	Func string `json:"func"`
	Evs  []Ev   `json:"evs"`
}

func coqBool(b bool) string {
	if b {
		return "true"
	}
	return "false"
}

func main() {
	if len(os.Args) != 3 {
		fmt.Fprintln(os.Stderr, "usage: translator <repo> <outdir>")
		os.Exit(2)
	}
	repo, out := os.Args[1], os.Args[2]
	p, err := loadPkg(filepath.Join(repo, "memdb"))
	if err != nil {
		fmt.Fprintln(os.Stderr, "translator:", err)
		os.Exit(1)
	}
	// registry: RegisterCommand("name", executor) anywhere in the package
	type reg struct {
		name string
		fun  ast.Expr
		pos  string
	}
	regs := []reg{}
	fnames := []string{}
	for n := range p.funcs {
		fnames = append(fnames, n)
	}
	sort.Strings(fnames)
	for _, fn := range fnames {
		fd := p.funcs[fn]
		if fd.Body == nil {
			continue
		}
		ast.Inspect(fd.Body, func(n ast.Node) bool {
			call, ok := n.(*ast.CallExpr)
			if !ok || !isIdent(call.Fun, "RegisterCommand") || len(call.Args) != 2 {
				return true
			}
			name := "?"
			if bl, ok := call.Args[0].(*ast.BasicLit); ok && bl.Kind == token.STRING {
				name, _ = strconv.Unquote(bl.Value)
			}
			regs = append(regs, reg{name, call.Args[1], p.pos(call)})
			return true
		})
	}
	sort.SliceStable(regs, func(i, j int) bool { return regs[i].name < regs[j].name })
	skels := []skel{}
	for _, r := range regs {
		switch f := r.fun.(type) {
		case *ast.Ident:
			fd, ok := p.funcs[f.Name]
			if !ok || fd.Body == nil {
				skels = append(skels, skel{r.name, f.Name, []Ev{{Kind: "unknown", Why: "executor not found: " + f.Name, Pos: r.pos}}})
				continue
			}
			skels = append(skels, skel{r.name, f.Name, p.skeletonOf(fd, fd.Type, fd.Body)})
		case *ast.FuncLit:
			skels = append(skels, skel{r.name, "(literal)", p.skeletonOf(nil, f.Type, f.Body)})
		default:
			skels = append(skels, skel{r.name, "?", []Ev{{Kind: "unknown", Why: "executor expression not understood", Pos: r.pos}}})
		}
	}
	helpers := []skel{
		{"@CheckTTL", "MemDb.CheckTTL", p.helperSkeleton("MemDb", "CheckTTL", "key")},
		{"@SetTTL", "MemDb.SetTTL", p.helperSkeleton("MemDb", "SetTTL", "key")},
		{"@DelTTL", "MemDb.DelTTL", p.helperSkeleton("MemDb", "DelTTL", "key")},
	}

	var b strings.Builder
	b.WriteString("(* GENERATED by translator/ from " + filepath.Join(repo, "memdb") + " -- do not edit, do not commit. *)\n")
	b.WriteString("Require Import List String.\nImport ListNotations.\nRequire Import Conc.TwoPLDefs Conc.Skel.\nLocal Open Scope string_scope.\n\n")
	emit := func(ident string, list []skel) {
		b.WriteString("Definition " + ident + " : list (string * list ev) :=\n [")
		for i, s := range list {
			if i > 0 {
				b.WriteString(";\n  ")
			}
			b.WriteString("(" + coqStr(s.Name) + ", (* " + s.Func + " *)\n   " + evsCoq(s.Evs, "   ") + ")")
		}
		b.WriteString("].\n\n")
	}
	emit("skels", skels)
	emit("helper_skels", helpers)
	// byte-slice aliasing facts
	p.collectBytesFields(p.files)
	cmdOf := map[string][]string{}
	for _, sk := range skels {
		cmdOf[sk.Func] = append(cmdOf[sk.Func], sk.Name)
	}
	inplace, escaping := p.aliasFacts(cmdOf)
	pairList := func(fs []aliasFact) string {
		items := []string{}
		for _, f := range fs {
			items = append(items, "("+coqStr(f.Where)+", "+coqStr(f.What)+")")
		}
		return coqList(items)
	}
	b.WriteString("(* stored byte slices: in-place writes, and replies that hand out the stored slice *)\n")
	b.WriteString("Definition inplace_byte_writes : list (string * string) :=\n " + pairList(inplace) + ".\n")
	b.WriteString("Definition escaping_byte_replies : list (string * string) :=\n " + pairList(escaping) + ".\n\n")
	usesMap, sorts, retSorted := p.sortedShape()
	plain, atomicN, keysIdx := p.countFacts()
	facts := []struct {
		n string
		v bool
	}{
		{"fact_getkeypos_is_hash_mod_len", p.keyPosShape()},
		{"fact_sortedlockposes_dedups_with_map", usesMap},
		{"fact_sortedlockposes_sorts", sorts && retSorted},
		{"fact_lockmulti_locks_in_pos_order", p.multiShape("LockMulti", "Lock")},
		{"fact_rlockmulti_locks_in_pos_order", p.multiShape("RLockMulti", "RLock")},
		{"fact_unlockmulti_shape", p.multiShape("UnLockMulti", "Unlock")},
		{"fact_runlockmulti_shape", p.multiShape("RUnLockMulti", "RUnlock")},
		{"fact_lock_shape", p.singleShape("Lock", "Lock")},
		{"fact_unlock_shape", p.singleShape("UnLock", "Unlock")},
		{"fact_rlock_shape", p.singleShape("RLock", "RLock")},
		{"fact_runlock_shape", p.singleShape("RUnLock", "RUnlock")},
		{"fact_count_updates_all_atomic", plain == 0 && atomicN > 0},
		{"fact_keys_does_not_index_presized_slice", !keysIdx},
	}
	b.WriteString("(* shape facts about memdb/dblock.go and memdb/concurrentmap.go *)\n")
	names := []string{}
	for _, f := range facts {
		b.WriteString("Definition " + f.n + " : bool := " + coqBool(f.v) + ".\n")
		names = append(names, "("+coqStr(f.n)+", "+f.n+")")
	}
	b.WriteString("Definition shape_facts : list (string * bool) :=\n [" + strings.Join(names, ";\n  ") + "].\n")

	if err := os.MkdirAll(out, 0o755); err != nil {
		fmt.Fprintln(os.Stderr, err)
		os.Exit(1)
	}
	if err := os.WriteFile(filepath.Join(out, "LockSkel.v"), []byte(b.String()), 0o644); err != nil {
		fmt.Fprintln(os.Stderr, err)
		os.Exit(1)
	}
	js, _ := json.MarshalIndent(map[string]interface{}{"skels": skels, "helpers": helpers, "inplace": inplace, "escaping": escaping,
		"facts": func() map[string]bool {
			m := map[string]bool{}
			for _, f := range facts {
				m[f.n] = f.v
			}
			return m
		}()}, "", " ")
	if err := os.WriteFile(filepath.Join(out, "lockskel.json"), js, 0o644); err != nil {
		fmt.Fprintln(os.Stderr, err)
		os.Exit(1)
	}
	fmt.Printf("translator: %d executors, %d helpers -> %s\n", len(skels), len(helpers), out)
}
