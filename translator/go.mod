module veriftranslator

go 1.20
