package main

import (
	"bufio"
	"context"
	"encoding/hex"
	"fmt"
	"io"
	"log"
	"os"
	"sort"
	"strconv"
	"strings"
	"sync"
	"time"

	"github.com/innovationb1ue/RedisGO/config"
	"github.com/innovationb1ue/RedisGO/logger"
	"github.com/innovationb1ue/RedisGO/memdb"
	"github.com/innovationb1ue/RedisGO/resp"
	"github.com/innovationb1ue/RedisGO/server"
)

func init() { subcmds["memrun"] = memRunCmd }

var registered = false

func setupServer(dbs int, scratch string) *config.Config {
	cfg := &config.Config{
		Host: "127.0.0.1", Port: 0, LogDir: scratch, LogLevel: "panic",
		ShardNum: 16, ChanBufferSize: 10, Databases: dbs,
	}
	config.Configures = cfg
	if !registered {
		if err := logger.SetUp(cfg); err != nil {
			panic(err)
		}
		logger.Disable()
		log.SetOutput(io.Discard)
		memdb.RegisterKeyCommands()
		memdb.RegisterStringCommands()
		memdb.RegisterListCommands()
		memdb.RegisterSetCommands()
		memdb.RegisterHashCommands()
		memdb.RegisterPubSubCommands()
		memdb.RegisterSortedSetCommands()
		memdb.RegisterStreamCommands()
		memdb.RegisterRaftCommand()
		registered = true
	}
	return cfg
}

func hx(b []byte) string {
	if len(b) == 0 {
		return "-"
	}
	return hex.EncodeToString(b)
}

func unhx(s string) []byte {
	if s == "-" {
		return []byte{}
	}
	b, err := hex.DecodeString(s)
	if err != nil {
		panic("bad hex " + s)
	}
	return b
}

func hasCRLF(s []byte) bool {
	for _, c := range s {
		if c == '\r' || c == '\n' {
			return true
		}
	}
	return false
}

// canonical text of a reply, parsed from the exact bytes the server would write.
// +hex | -W | -E | :n | $hex | $nil | *[a b c] | *nil ; "!" suffix on + and - when the
// line-framed payload contains CR or LF (decoded structurally from the RedisData value).
func canonReply(r resp.RedisData) string {
	if r == nil {
		return "!NILRESULT"
	}
	switch t := r.(type) {
	case *resp.StringData:
		s := "+" + hx([]byte(t.Data()))
		if hasCRLF([]byte(t.Data())) {
			s += "!"
		}
		return s
	case *resp.ErrorData:
		msg := t.Error()
		s := "-E"
		if strings.HasPrefix(msg, "WRONGTYPE") {
			s = "-W"
		}
		if hasCRLF([]byte(msg)) {
			s += "!"
		}
		return s
	case *resp.IntData:
		return ":" + strconv.FormatInt(t.Data(), 10)
	case *resp.BulkData:
		if t.Data() == nil {
			return "$nil"
		}
		return "$" + hx(t.Data())
	case *resp.ArrayData:
		if t.Data() == nil {
			return "*nil"
		}
		parts := make([]string, 0, len(t.Data()))
		for _, e := range t.Data() {
			parts = append(parts, canonReply(e))
		}
		return "*[" + strings.Join(parts, " ") + "]"
	case *resp.PlainData:
		return "~" + hx([]byte(t.Data()))
	default:
		return fmt.Sprintf("!UNKNOWN(%T)", r)
	}
}

// replies whose element order is unspecified (Go map iteration): canonicalised by sorting.
var unorderedFlat = map[string]bool{"smembers": true, "sunion": true, "sinter": true, "sdiff": true,
	"hkeys": true, "hvals": true, "keys": true, "spop": true, "srandmember": true}
var unorderedPairs = map[string]bool{"hgetall": true}

func splitTop(s string) []string {
	// s is the inside of "*[ ... ]": split on spaces at depth 0
	res := []string{}
	depth := 0
	cur := strings.Builder{}
	for i := 0; i < len(s); i++ {
		c := s[i]
		if c == '[' {
			depth++
		} else if c == ']' {
			depth--
		}
		if c == ' ' && depth == 0 {
			res = append(res, cur.String())
			cur.Reset()
			continue
		}
		cur.WriteByte(c)
	}
	if cur.Len() > 0 {
		res = append(res, cur.String())
	}
	return res
}

func canonForCmd(name string, canon string) string {
	if !strings.HasPrefix(canon, "*[") {
		return canon
	}
	inner := canon[2 : len(canon)-1]
	if unorderedFlat[name] {
		parts := splitTop(inner)
		sort.Strings(parts)
		return "*[" + strings.Join(parts, " ") + "]"
	}
	if unorderedPairs[name] {
		parts := splitTop(inner)
		if len(parts)%2 != 0 {
			return canon
		}
		pairs := make([]string, 0, len(parts)/2)
		for i := 0; i+1 < len(parts); i += 2 {
			pairs = append(pairs, parts[i]+" "+parts[i+1])
		}
		sort.Strings(pairs)
		return "*[" + strings.Join(pairs, " ") + "]"
	}
	return canon
}

type connState struct {
	mgr *server.Manager
}

// A command still running watchdogMs virtual milliseconds after it started (BLPOP with timeout 0
// and nothing to pop blocks for ever; under faketime its ticker would spin for ever) is cancelled
// through its context and reported as "!BLOCKED".  Not a multiple of 100, so the watchdog never
// coincides with a polling tick or a whole-second timeout.  VERIF_WATCHDOG_MS overrides it.
var watchdogMs = func() int64 {
	if v, err := strconv.ParseInt(os.Getenv("VERIF_WATCHDOG_MS"), 10, 64); err == nil && v > 0 {
		return v
	}
	return 100000050
}()

func execStep(mgr *server.Manager, cmd [][]byte) (out string) {
	ctx, cancel := context.WithCancel(context.Background())
	defer cancel()
	done := make(chan string, 1)
	go func() {
		defer func() {
			if e := recover(); e != nil {
				if os.Getenv("VERIF_DEBUG") != "" {
					fmt.Fprintln(os.Stderr, "panic:", e)
				}
				done <- "!PANIC"
			}
		}()
		r := mgr.ExecCommand(ctx, cmd, nil)
		name := ""
		if len(cmd) > 0 {
			name = strings.ToLower(string(cmd[0]))
		}
		done <- canonForCmd(name, canonReply(r))
	}()
	wd := time.NewTimer(time.Duration(watchdogMs) * time.Millisecond)
	defer wd.Stop()
	select {
	case out = <-done:
		return out
	case <-wd.C:
		cancel()
		// let the cancelled executor finish (a leaked poller would steal later elements)
		grace := time.NewTimer(time.Second)
		defer grace.Stop()
		select {
		case <-done:
		case <-grace.C:
		}
		return "!BLOCKED"
	}
}

// Argument shape.  A command built from hex-decoded arguments hands the executors fresh slices
// of exact capacity; the server never sees those: its arguments come out of resp.ParseStream, where
// every bulk string is a slice of a make(bulkLen+2) buffer whose two spare bytes hold "\r\n".
// A case marked "wire" (4th field of its CASE line) or every case when VERIF_ARGSHAPE=wire is set
// gets its commands encoded as RESP arrays and decoded again by the real resp.ParseStream +
// ArrayData.ToCommand() (one parser per connection id, fed through an io.Pipe, as a socket would),
// so executors that keep, extend or re-slice an argument are exercised on the shape they really get.
type wireConn struct {
	mu sync.Mutex
	pw *io.PipeWriter
	ch <-chan *resp.ParsedRes
}

func newWireConn() *wireConn {
	pr, pw := io.Pipe()
	return &wireConn{pw: pw, ch: resp.ParseStream(context.Background(), pr)}
}

// shape returns the command as the parser delivers it; ok=false when the parser did not return it
func (wc *wireConn) shape(cmd [][]byte) ([][]byte, bool) {
	if len(cmd) == 0 {
		return cmd, true
	}
	wc.mu.Lock()
	defer wc.mu.Unlock()
	if _, err := wc.pw.Write(encodeCmd(cmd)); err != nil {
		return cmd, false
	}
	res, open := <-wc.ch
	if !open || res == nil || res.Err != nil {
		return cmd, false
	}
	arr, isArr := res.Data.(*resp.ArrayData)
	if !isArr {
		return cmd, false
	}
	return arr.ToCommand(), true
}

func (wc *wireConn) close() {
	wc.pw.Close()
	for range wc.ch {
	}
}

var forceWire = os.Getenv("VERIF_ARGSHAPE") == "wire"

// memrun <progfile> <outfile> <scratchdir>
// program file:
//
//	CASE <name> <dbs> [wire]
//	C <conn> <sleep_ms> <hexarg> <hexarg> ...     (sleep happens before the command)
//	BG <conn> <delay_ms> <hexarg> ...           (issued by another goroutine delay_ms after the next C command starts)
//	DUMP
//	END
//
// A C command preceded by BG lines, and every BLPOP/BRPOP, is traced as the G lines of the
// background commands (same layout as S, chronological), the S line, and "T <unix ms at which the
// C command returned>"; every G line is followed by "GT <unix ms at which that command returned>".
//
// The Manager (the databases) is shared by all connections of a case, as server.Start does; every
// connection id gets its own NewConnView(), as server.Manager.Handle does, so SELECT is
// per-connection state (memx.go runs the same programs through the real Handle).
func memRunCmd(args []string) error {
	if len(args) != 3 {
		return fmt.Errorf("memrun <prog> <out> <scratch>")
	}
	f, err := os.Open(args[0])
	if err != nil {
		return err
	}
	defer f.Close()
	of, err := os.Create(args[1])
	if err != nil {
		return err
	}
	defer of.Close()
	w := bufio.NewWriterSize(of, 1<<20)
	defer w.Flush()
	sc := bufio.NewScanner(f)
	sc.Buffer(make([]byte, 1<<20), 1<<28)
	var mgr *server.Manager
	type bgCmd struct {
		conn  string
		delay int
		args  []string
	}
	var pendingBG []bgCmd
	views := map[string]*server.Manager{}
	viewOf := func(conn string) *server.Manager {
		v, ok := views[conn]
		if !ok {
			v = mgr.NewConnView()
			views[conn] = v
		}
		return v
	}
	wire := false
	wires := map[string]*wireConn{}
	closeWires := func() {
		for _, wc := range wires {
			wc.close()
		}
		wires = map[string]*wireConn{}
	}
	defer closeWires()
	var wiresMu sync.Mutex
	// shaped returns the arguments in the shape of this case; "" or an error marker
	shaped := func(conn string, cmd [][]byte) ([][]byte, string) {
		if !wire {
			return cmd, ""
		}
		wiresMu.Lock()
		wc, ok := wires[conn]
		if !ok {
			wc = newWireConn()
			wires[conn] = wc
		}
		wiresMu.Unlock()
		c2, ok := wc.shape(cmd)
		if !ok {
			return cmd, "!WIREPARSE"
		}
		return c2, ""
	}
	progress, _ := os.Create(args[1] + ".progress")
	defer progress.Close()
	for sc.Scan() {
		line := sc.Text()
		fs := strings.Fields(line)
		if len(fs) == 0 {
			continue
		}
		switch fs[0] {
		case "CASE":
			dbs, _ := strconv.Atoi(fs[2])
			cfg := setupServer(dbs, args[2])
			mgr = server.NewManager(cfg)
			views = map[string]*server.Manager{}
			closeWires()
			wire = forceWire || (len(fs) > 3 && fs[3] == "wire")
			fmt.Fprintf(w, "CASE %s %d\n", fs[1], dbs)
			fmt.Fprintf(w, "WD %d\n", watchdogMs)
			progress.Seek(0, 0)
			fmt.Fprintf(progress, "%s\n", fs[1])
		case "C":
			ms, _ := strconv.Atoi(fs[2])
			if ms > 0 {
				time.Sleep(time.Duration(ms) * time.Millisecond)
			}
			cmd := make([][]byte, 0, len(fs)-3)
			for _, h := range fs[3:] {
				cmd = append(cmd, unhx(h))
			}
			name := ""
			if len(cmd) > 0 {
				name = strings.ToLower(string(cmd[0]))
			}
			timed := len(pendingBG) > 0 || name == "blpop" || name == "brpop"
			bgOut := make([]string, len(pendingBG))
			bgAt := make([]time.Time, len(pendingBG))
			bgEnd := make([]time.Time, len(pendingBG))
			var wg sync.WaitGroup
			for i, b := range pendingBG {
				wg.Add(1)
				bv := viewOf(b.conn)
				go func(i int, b bgCmd) {
					defer wg.Done()
					time.Sleep(time.Duration(b.delay) * time.Millisecond)
					bc := make([][]byte, 0, len(b.args))
					for _, h := range b.args {
						bc = append(bc, unhx(h))
					}
					bc, werr := shaped(b.conn, bc)
					bgAt[i] = time.Now()
					if werr != "" {
						bgOut[i] = werr
					} else {
						bgOut[i] = execStep(bv, bc)
					}
					bgEnd[i] = time.Now()
				}(i, b)
			}
			cmd, werr := shaped(fs[1], cmd)
			now := time.Now()
			out := werr
			if werr == "" {
				out = execStep(viewOf(fs[1]), cmd)
			}
			end := time.Now()
			wg.Wait()
			order := make([]int, len(pendingBG))
			for i := range order {
				order[i] = i
			}
			sort.SliceStable(order, func(a, b int) bool { return bgAt[order[a]].Before(bgAt[order[b]]) })
			for _, i := range order {
				b := pendingBG[i]
				fmt.Fprintf(w, "G %d %d %s %s | %s\n", bgAt[i].Unix(), bgAt[i].UnixMilli(), b.conn, strings.Join(b.args, " "), bgOut[i])
				// instant at which the background command returned (it may itself be a blocking pop)
				fmt.Fprintf(w, "GT %d\n", bgEnd[i].UnixMilli())
			}
			pendingBG = nil
			fmt.Fprintf(w, "S %d %d %s %s | %s\n", now.Unix(), now.UnixMilli(), fs[1], strings.Join(fs[3:], " "), out)
			if timed {
				fmt.Fprintf(w, "T %d\n", end.UnixMilli())
			}
		case "BG":
			ms, _ := strconv.Atoi(fs[2])
			pendingBG = append(pendingBG, bgCmd{conn: fs[1], delay: ms, args: fs[3:]})
		case "DUMP":
			// defensive walk: a nil entry of mgr.DBs is reported as a NOTE line, never a crash
			dumpDBs(w, mgr)
		case "END":
			fmt.Fprintf(w, "END\n")
		}
	}
	return nil
}
