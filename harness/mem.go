package main

import (
	"bufio"
	"context"
	"encoding/hex"
	"fmt"
	"io"
	"log"
	"os"
	"sort"
	"strconv"
	"strings"
	"time"

	"github.com/innovationb1ue/RedisGO/config"
	"github.com/innovationb1ue/RedisGO/logger"
	"github.com/innovationb1ue/RedisGO/memdb"
	"github.com/innovationb1ue/RedisGO/resp"
	"github.com/innovationb1ue/RedisGO/server"
)

func init() { subcmds["memrun"] = memRunCmd }

var registered = false

func setupServer(dbs int, scratch string) *config.Config {
	cfg := &config.Config{
		Host: "127.0.0.1", Port: 0, LogDir: scratch, LogLevel: "panic",
		ShardNum: 16, ChanBufferSize: 10, Databases: dbs,
	}
	config.Configures = cfg
	if !registered {
		if err := logger.SetUp(cfg); err != nil {
			panic(err)
		}
		logger.Disable()
		log.SetOutput(io.Discard)
		memdb.RegisterKeyCommands()
		memdb.RegisterStringCommands()
		memdb.RegisterListCommands()
		memdb.RegisterSetCommands()
		memdb.RegisterHashCommands()
		memdb.RegisterPubSubCommands()
		memdb.RegisterSortedSetCommands()
		memdb.RegisterStreamCommands()
		memdb.RegisterRaftCommand()
		registered = true
	}
	return cfg
}

func hx(b []byte) string {
	if len(b) == 0 {
		return "-"
	}
	return hex.EncodeToString(b)
}

func unhx(s string) []byte {
	if s == "-" {
		return []byte{}
	}
	b, err := hex.DecodeString(s)
	if err != nil {
		panic("bad hex " + s)
	}
	return b
}

func hasCRLF(s []byte) bool {
	for _, c := range s {
		if c == '\r' || c == '\n' {
			return true
		}
	}
	return false
}

// canonical text of a reply, parsed from the exact bytes the server would write.
// +hex | -W | -E | :n | $hex | $nil | *[a b c] | *nil ; "!" suffix on + and - when the
// line-framed payload contains CR or LF (decoded structurally from the RedisData value).
func canonReply(r resp.RedisData) string {
	if r == nil {
		return "!NILRESULT"
	}
	switch t := r.(type) {
	case *resp.StringData:
		s := "+" + hx([]byte(t.Data()))
		if hasCRLF([]byte(t.Data())) {
			s += "!"
		}
		return s
	case *resp.ErrorData:
		msg := t.Error()
		s := "-E"
		if strings.HasPrefix(msg, "WRONGTYPE") {
			s = "-W"
		}
		if hasCRLF([]byte(msg)) {
			s += "!"
		}
		return s
	case *resp.IntData:
		return ":" + strconv.FormatInt(t.Data(), 10)
	case *resp.BulkData:
		if t.Data() == nil {
			return "$nil"
		}
		return "$" + hx(t.Data())
	case *resp.ArrayData:
		if t.Data() == nil {
			return "*nil"
		}
		parts := make([]string, 0, len(t.Data()))
		for _, e := range t.Data() {
			parts = append(parts, canonReply(e))
		}
		return "*[" + strings.Join(parts, " ") + "]"
	case *resp.PlainData:
		return "~" + hx([]byte(t.Data()))
	default:
		return fmt.Sprintf("!UNKNOWN(%T)", r)
	}
}

// replies whose element order is unspecified (Go map iteration): canonicalised by sorting.
var unorderedFlat = map[string]bool{"smembers": true, "sunion": true, "sinter": true, "sdiff": true,
	"hkeys": true, "hvals": true, "keys": true, "spop": true, "srandmember": true}
var unorderedPairs = map[string]bool{"hgetall": true}

func splitTop(s string) []string {
	// s is the inside of "*[ ... ]": split on spaces at depth 0
	res := []string{}
	depth := 0
	cur := strings.Builder{}
	for i := 0; i < len(s); i++ {
		c := s[i]
		if c == '[' {
			depth++
		} else if c == ']' {
			depth--
		}
		if c == ' ' && depth == 0 {
			res = append(res, cur.String())
			cur.Reset()
			continue
		}
		cur.WriteByte(c)
	}
	if cur.Len() > 0 {
		res = append(res, cur.String())
	}
	return res
}

func canonForCmd(name string, canon string) string {
	if !strings.HasPrefix(canon, "*[") {
		return canon
	}
	inner := canon[2 : len(canon)-1]
	if unorderedFlat[name] {
		parts := splitTop(inner)
		sort.Strings(parts)
		return "*[" + strings.Join(parts, " ") + "]"
	}
	if unorderedPairs[name] {
		parts := splitTop(inner)
		if len(parts)%2 != 0 {
			return canon
		}
		pairs := make([]string, 0, len(parts)/2)
		for i := 0; i+1 < len(parts); i += 2 {
			pairs = append(pairs, parts[i]+" "+parts[i+1])
		}
		sort.Strings(pairs)
		return "*[" + strings.Join(pairs, " ") + "]"
	}
	return canon
}

type connState struct {
	mgr *server.Manager
}

func execStep(mgr *server.Manager, cmd [][]byte) (out string) {
	defer func() {
		if e := recover(); e != nil {
			out = "!PANIC"
			if os.Getenv("VERIF_DEBUG") != "" {
				fmt.Fprintln(os.Stderr, "panic:", e)
			}
		}
	}()
	r := mgr.ExecCommand(context.Background(), cmd, nil)
	name := ""
	if len(cmd) > 0 {
		name = strings.ToLower(string(cmd[0]))
	}
	return canonForCmd(name, canonReply(r))
}

// memrun <progfile> <outfile> <scratchdir>
// program file:
//
//	CASE <name> <dbs>
//	C <conn> <sleep_ms> <hexarg> <hexarg> ...     (sleep happens before the command)
//	DUMP
//	END
//
// The Manager (the databases) is shared by all connections of a case, as server.Start does; every
// connection id gets its own NewConnView(), as server.Manager.Handle does, so SELECT is
// per-connection state (memx.go runs the same programs through the real Handle).
func memRunCmd(args []string) error {
	if len(args) != 3 {
		return fmt.Errorf("memrun <prog> <out> <scratch>")
	}
	f, err := os.Open(args[0])
	if err != nil {
		return err
	}
	defer f.Close()
	of, err := os.Create(args[1])
	if err != nil {
		return err
	}
	defer of.Close()
	w := bufio.NewWriterSize(of, 1<<20)
	defer w.Flush()
	sc := bufio.NewScanner(f)
	sc.Buffer(make([]byte, 1<<20), 1<<28)
	var mgr *server.Manager
	views := map[string]*server.Manager{}
	progress, _ := os.Create(args[1] + ".progress")
	defer progress.Close()
	for sc.Scan() {
		line := sc.Text()
		fs := strings.Fields(line)
		if len(fs) == 0 {
			continue
		}
		switch fs[0] {
		case "CASE":
			dbs, _ := strconv.Atoi(fs[2])
			cfg := setupServer(dbs, args[2])
			mgr = server.NewManager(cfg)
			views = map[string]*server.Manager{}
			fmt.Fprintf(w, "CASE %s %d\n", fs[1], dbs)
			progress.Seek(0, 0)
			fmt.Fprintf(progress, "%s\n", fs[1])
		case "C":
			ms, _ := strconv.Atoi(fs[2])
			if ms > 0 {
				time.Sleep(time.Duration(ms) * time.Millisecond)
			}
			cmd := make([][]byte, 0, len(fs)-3)
			for _, h := range fs[3:] {
				cmd = append(cmd, unhx(h))
			}
			now := time.Now()
			view, ok := views[fs[1]]
			if !ok {
				view = mgr.NewConnView()
				views[fs[1]] = view
			}
			out := execStep(view, cmd)
			fmt.Fprintf(w, "S %d %d %s %s | %s\n", now.Unix(), now.UnixMilli(), fs[1], strings.Join(fs[3:], " "), out)
		case "DUMP":
			now := time.Now().Unix()
			for i, d := range mgr.DBs {
				for _, l := range memdb.VerifDump(d, now) {
					fmt.Fprintf(w, "D %d %s\n", i, l)
				}
			}
			fmt.Fprintf(w, "DEND %d\n", now)
		case "END":
			fmt.Fprintf(w, "END\n")
		}
	}
	return nil
}
