package main

import (
	"bufio"
	"encoding/hex"
	"fmt"
	"os"
	"path/filepath"
	"strconv"
	"strings"

	"github.com/innovationb1ue/RedisGO/util"
)

func init() { subcmds["glob"] = globCmd; subcmds["globfile"] = globFileCmd }

// enumerate all strings over alpha with length <= maxLen, shortest first, in alphabet order.
func enumStrings(alpha []byte, maxLen int) []string {
	res := []string{""}
	prev := []string{""}
	for l := 1; l <= maxLen; l++ {
		cur := make([]string, 0, len(prev)*len(alpha))
		for _, p := range prev {
			for _, a := range alpha {
				cur = append(cur, p+string([]byte{a}))
			}
		}
		res = append(res, cur...)
		prev = cur
	}
	return res
}

func safeMatch(p, s string) (r byte) {
	defer func() {
		if e := recover(); e != nil {
			r = 'X'
		}
	}()
	if util.PattenMatch(p, s) {
		return '1'
	}
	return '0'
}

// glob <outdir> <maxPat> <maxSub> <nRandomPat> <nRandomSub> <seed>
// writes cases.txt (P/S lines) and impl.txt (one line per pattern: hex bits).
func globCmd(args []string) error {
	if len(args) != 6 {
		return fmt.Errorf("glob <outdir> <maxPat> <maxSub> <nRandPat> <nRandSub> <seed>")
	}
	out := args[0]
	maxP, _ := strconv.Atoi(args[1])
	maxS, _ := strconv.Atoi(args[2])
	nrp, _ := strconv.Atoi(args[3])
	nrs, _ := strconv.Atoi(args[4])
	seed, _ := strconv.ParseUint(args[5], 10, 64)
	alpha := []byte("ab*?[]^-\\c")
	pats := enumStrings(alpha, maxP)
	subs := enumStrings(alpha, maxS)
	// random long inputs over all 256 bytes, biased towards metacharacters
	r := newRng(seed)
	meta := []byte("*?[]^-\\")
	randStr := func(maxLen int, metaBias int) string {
		n := r.intn(maxLen + 1)
		b := make([]byte, n)
		for i := range b {
			switch {
			case r.intn(10) < metaBias:
				b[i] = meta[r.intn(len(meta))]
			case r.chance(1, 2):
				b[i] = byte('a' + r.intn(4))
			default:
				b[i] = byte(r.intn(256))
			}
		}
		return string(b)
	}
	for i := 0; i < nrp; i++ {
		pats = append(pats, randStr(14, 5))
	}
	for i := 0; i < nrs; i++ {
		subs = append(subs, randStr(10, 2))
	}
	cf, err := os.Create(filepath.Join(out, "cases.txt"))
	if err != nil {
		return err
	}
	cw := bufio.NewWriterSize(cf, 1<<20)
	for _, p := range pats {
		fmt.Fprintf(cw, "P %s\n", hex.EncodeToString([]byte(p)))
	}
	for _, s := range subs {
		fmt.Fprintf(cw, "S %s\n", hex.EncodeToString([]byte(s)))
	}
	cw.Flush()
	cf.Close()
	if err := globRun(pats, subs, filepath.Join(out, "impl.txt")); err != nil {
		return err
	}
	fmt.Printf("patterns=%d subjects=%d pairs=%d\n", len(pats), len(subs), len(pats)*len(subs))
	return nil
}

// globfile <cases.txt> <impl.txt>: run the P/S lines of an existing case file.
func globFileCmd(args []string) error {
	if len(args) != 2 {
		return fmt.Errorf("globfile <cases> <out>")
	}
	f, err := os.Open(args[0])
	if err != nil {
		return err
	}
	defer f.Close()
	var pats, subs []string
	sc := bufio.NewScanner(f)
	sc.Buffer(make([]byte, 1<<20), 1<<26)
	for sc.Scan() {
		fs := strings.Fields(sc.Text())
		if len(fs) == 0 {
			continue
		}
		h := ""
		if len(fs) > 1 {
			h = fs[1]
		}
		b, err := hex.DecodeString(h)
		if err != nil {
			return err
		}
		if fs[0] == "P" {
			pats = append(pats, string(b))
		} else if fs[0] == "S" {
			subs = append(subs, string(b))
		}
	}
	return globRun(pats, subs, args[1])
}

func globRun(pats, subs []string, outPath string) error {
	of, err := os.Create(outPath)
	if err != nil {
		return err
	}
	ow := bufio.NewWriterSize(of, 1<<20)
	line := make([]byte, len(subs))
	for _, p := range pats {
		for i, s := range subs {
			line[i] = safeMatch(p, s)
		}
		ow.WriteString(hex.EncodeToString([]byte(p)))
		ow.WriteByte(' ')
		ow.Write(line)
		ow.WriteByte('\n')
	}
	ow.Flush()
	return of.Close()
}
