package main

// clustercfg: the configuration path of a cluster node and its consequence for SELECT (C20).
//
//	clustercfg <prog> <out> <scratch>
//
// program:
//
//	CFG <name> <hex of the cluster JSON file>
//	C <conn> <ignored> <hexarg> ...
//	END
//
// For every CFG the JSON is written to a file and read by config.ParseConfigJson into a Config
// that starts with 16 databases (what config.Setup hands it in standalone form).  Outcome line:
//
//	P <name> ok|error|panic <cfg.Databases afterwards>
//
// Obligation of the check: ok => Databases == 1 (a cluster node runs with exactly one database:
// the premise under which the shared Manager of cluster mode is harmless for C20).
// When the file parsed, a Manager is built from that Config and the C lines are run through the
// real HandleCluster / handleClusterCommits (hook H4: VerifClusterLoopbackMulti, Raft replaced by
// "commit at once"), one net.Pipe per connection id; the trace is written in the memrun format as
// a server with ONE database ("CASE <name> 1"), which is what the model replays.

import (
	"bufio"
	"fmt"
	"net"
	"os"
	"path/filepath"
	"strings"
	"time"

	"github.com/innovationb1ue/RedisGO/config"
	"github.com/innovationb1ue/RedisGO/server"
)

func init() { subcmds["clustercfg"] = clusterCfgCmd }

func parseClusterJSON(cfg *config.Config, path string) (status string) {
	defer func() {
		if e := recover(); e != nil {
			status = "panic"
		}
	}()
	if err := cfg.ParseConfigJson(path); err != nil {
		return "error"
	}
	return "ok"
}

func clusterCfgCmd(args []string) error {
	if len(args) != 3 {
		return fmt.Errorf("clustercfg <prog> <out> <scratch>")
	}
	f, err := os.Open(args[0])
	if err != nil {
		return err
	}
	defer f.Close()
	of, err := os.Create(args[1])
	if err != nil {
		return err
	}
	defer of.Close()
	w := bufio.NewWriterSize(of, 1<<20)
	defer w.Flush()
	sc := bufio.NewScanner(f)
	sc.Buffer(make([]byte, 1<<20), 1<<26)

	const maxConn = 4
	var clis []net.Conn
	var readers []*bufio.Reader
	var roundC chan<- int
	var stop func()
	connIdx := map[string]int{}
	active := false
	for sc.Scan() {
		fs := strings.Fields(sc.Text())
		if len(fs) == 0 {
			continue
		}
		switch fs[0] {
		case "CFG":
			name := fs[1]
			path := filepath.Join(args[2], "cluster_"+name+".json")
			if err := os.WriteFile(path, unhx(fs[2]), 0o644); err != nil {
				return err
			}
			cfg := setupServer(16, args[2])
			cfg.IsCluster = true
			status := parseClusterJSON(cfg, path)
			os.Remove(path)
			fmt.Fprintf(w, "P %s %s %d\n", name, status, cfg.Databases)
			fmt.Fprintf(w, "CASE %s 1\n", name)
			active = false
			if status == "ok" && cfg.Databases >= 1 && cfg.Databases <= 1024 {
				mgr := server.NewManager(cfg)
				clis, roundC, stop = server.VerifClusterLoopbackMulti(mgr, maxConn, nil)
				readers = make([]*bufio.Reader, len(clis))
				for i, c := range clis {
					readers[i] = bufio.NewReader(c)
				}
				connIdx = map[string]int{}
				active = true
			}
		case "C":
			if !active {
				continue
			}
			i, ok := connIdx[fs[1]]
			if !ok {
				i = len(connIdx)
				if i >= maxConn {
					continue
				}
				connIdx[fs[1]] = i
			}
			cmd := make([][]byte, 0, len(fs)-3)
			for _, h := range fs[3:] {
				cmd = append(cmd, unhx(h))
			}
			now := time.Now()
			roundC <- 1
			clis[i].SetDeadline(time.Now().Add(20 * time.Second))
			var out string
			if _, err := clis[i].Write(wireCommand(cmd)); err != nil {
				out = "!WRITEERR"
			} else if out, err = readWire(readers[i]); err != nil {
				out = "!READERR(" + err.Error() + ")"
			}
			name := ""
			if len(cmd) > 0 {
				name = strings.ToLower(string(cmd[0]))
			}
			fmt.Fprintf(w, "S %d %d %s %s | %s\n", now.Unix(), now.UnixMilli(), fs[1], strings.Join(fs[3:], " "), canonForCmd(name, out))
		case "END":
			if active {
				stop()
				active = false
			}
			fmt.Fprintf(w, "END\n")
		}
	}
	return nil
}
