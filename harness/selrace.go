package main

// selrace: concurrent first-SELECT scenario for C20 ("database i is one keyspace").
//
//	selrace <prog> <out> <scratch> handle|tcp <shardnum>
//
// program lines:   RACE <name> <dbs> <conns> <i1,i2,...>
//
// For every line a fresh server (handle: a fresh server.Manager whose connections are net.Pipes
// served by the real Manager.Handle; tcp: server.Start on a loopback port, real TCP connections)
// and <conns> connections, each driven by its own goroutine.  For every index i of the list, in
// order -- an index nobody has selected before on this server:
//
//	phase 1  all connections, released together by a barrier, send SELECT i and then
//	         SET k<c> v<c>-db<i>
//	phase 2  (after all of phase 1 has been answered) every connection reads every key with GET;
//	         then a late connection that took no part in the race does SELECT i and reads every key
//
// The trace is written in the memrun format as one linearization (the SELECTs, the SETs, the GETs;
// keys are distinct per connection and the phases are separated by a barrier, so every
// linearization has the same replies in the model) and replayed by the extracted srv_exec like any
// other trace: all connections that selected i must read and write the same database i.
// Real clock, real goroutine parallelism: build without faketime.

import (
	"bufio"
	"context"
	"fmt"
	"net"
	"os"
	"strconv"
	"strings"
	"sync"
	"time"

	"github.com/innovationb1ue/RedisGO/memdb"
	"github.com/innovationb1ue/RedisGO/server"
)

func init() { subcmds["selrace"] = selRaceCmd }

type raceConn struct {
	id int
	c  net.Conn
	r  *bufio.Reader
}

func (rc *raceConn) do(cmd ...string) (string, [][]byte) {
	bs := make([][]byte, len(cmd))
	for i, a := range cmd {
		bs[i] = []byte(a)
	}
	rc.c.SetDeadline(time.Now().Add(30 * time.Second))
	if _, err := rc.c.Write(wireCommand(bs)); err != nil {
		return "!WRITEERR", bs
	}
	out, err := readWire(rc.r)
	if err != nil {
		return "!READERR(" + err.Error() + ")", bs
	}
	return out, bs
}

func traceLine(w *bufio.Writer, conn int, cmd [][]byte, out string) {
	now := time.Now()
	hs := make([]string, len(cmd))
	for i, a := range cmd {
		hs[i] = hx(a)
	}
	fmt.Fprintf(w, "S %d %d %d %s | %s\n", now.Unix(), now.UnixMilli(), conn, strings.Join(hs, " "), out)
}

// dumpDBs writes the canonical dump of every database of the manager.  A nil entry (a database
// that has not been allocated) holds no key: it is reported as a note line, which the replayer
// ignores, and counted by the check; it never crashes the harness.
func dumpDBs(w *bufio.Writer, mgr *server.Manager) {
	now := time.Now().Unix()
	for i, d := range mgr.DBs {
		if d == nil {
			fmt.Fprintf(w, "NOTE nil-database %d\n", i)
			continue
		}
		for _, l := range safeDump(d, now) {
			fmt.Fprintf(w, "D %d %s\n", i, l)
		}
	}
	fmt.Fprintf(w, "DEND %d\n", now)
}

// safeDump: a dump hook that panics (e.g. on a half-built database) is reported, not fatal
func safeDump(d *memdb.MemDb, now int64) (lines []string) {
	defer func() {
		if e := recover(); e != nil {
			lines = []string{"!DUMP-PANIC"}
		}
	}()
	return memdb.VerifDump(d, now)
}

func selRaceCmd(args []string) error {
	if len(args) != 5 {
		return fmt.Errorf("selrace <prog> <out> <scratch> handle|tcp <shardnum>")
	}
	mode := args[3]
	shards, _ := strconv.Atoi(args[4])
	f, err := os.Open(args[0])
	if err != nil {
		return err
	}
	defer f.Close()
	of, err := os.Create(args[1])
	if err != nil {
		return err
	}
	defer of.Close()
	w := bufio.NewWriterSize(of, 1<<20)
	defer w.Flush()
	sc := bufio.NewScanner(f)
	for sc.Scan() {
		fs := strings.Fields(sc.Text())
		if len(fs) != 5 || fs[0] != "RACE" {
			continue
		}
		name := fs[1]
		dbs, _ := strconv.Atoi(fs[2])
		nconn, _ := strconv.Atoi(fs[3])
		var idxs []int
		for _, s := range strings.Split(fs[4], ",") {
			i, _ := strconv.Atoi(s)
			idxs = append(idxs, i)
		}
		cfg := setupServer(dbs, args[2])
		if shards > 0 {
			cfg.ShardNum = shards
		}
		ctx, cancel := context.WithCancel(context.Background())
		var mgr *server.Manager
		addr := ""
		if mode == "tcp" {
			cfg.Port = freePort()
			addr = "127.0.0.1:" + strconv.Itoa(cfg.Port)
			go func() { _ = server.Start(cfg) }()
		} else {
			mgr = server.NewManager(cfg)
		}
		open := func(id int) (*raceConn, error) {
			if mode == "tcp" {
				var c net.Conn
				var err error
				for i := 0; i < 300; i++ {
					if c, err = net.Dial("tcp", addr); err == nil {
						break
					}
					time.Sleep(10 * time.Millisecond)
				}
				if err != nil {
					return nil, err
				}
				return &raceConn{id: id, c: c, r: bufio.NewReader(c)}, nil
			}
			cli, srv := net.Pipe()
			go mgr.Handle(ctx, srv)
			return &raceConn{id: id, c: cli, r: bufio.NewReader(cli)}, nil
		}
		fmt.Fprintf(w, "CASE %s %d\n", name, dbs)
		conns := make([]*raceConn, nconn)
		for i := range conns {
			c, err := open(i)
			if err != nil {
				cancel()
				return err
			}
			conns[i] = c
			// the connection is being served before the race starts
			out, cmd := c.do("PING")
			traceLine(w, i, cmd, out)
		}
		late := nconn
		for _, idx := range idxs {
			type rep struct {
				cmd [][]byte
				out string
			}
			sel := make([]rep, nconn)
			set := make([]rep, nconn)
			start := make(chan struct{})
			var wg sync.WaitGroup
			for i, c := range conns {
				wg.Add(1)
				go func(i int, c *raceConn) {
					defer wg.Done()
					<-start
					o, cmd := c.do("SELECT", strconv.Itoa(idx))
					sel[i] = rep{cmd, o}
					o, cmd = c.do("SET", fmt.Sprintf("k%d", i), fmt.Sprintf("v%d-db%d", i, idx))
					set[i] = rep{cmd, o}
				}(i, c)
			}
			close(start)
			wg.Wait()
			for i := range conns {
				traceLine(w, i, sel[i].cmd, sel[i].out)
			}
			for i := range conns {
				traceLine(w, i, set[i].cmd, set[i].out)
			}
			for i, c := range conns {
				for j := range conns {
					o, cmd := c.do("GET", fmt.Sprintf("k%d", j))
					traceLine(w, i, cmd, o)
				}
			}
			lc, err := open(late)
			if err != nil {
				cancel()
				return err
			}
			o, cmd := lc.do("SELECT", strconv.Itoa(idx))
			traceLine(w, late, cmd, o)
			for j := range conns {
				o, cmd := lc.do("GET", fmt.Sprintf("k%d", j))
				traceLine(w, late, cmd, o)
			}
			lc.c.Close()
			late++
		}
		if mgr != nil {
			dumpDBs(w, mgr)
		}
		fmt.Fprintf(w, "END\n")
		for _, c := range conns {
			c.c.Close()
		}
		cancel()
	}
	return nil
}
