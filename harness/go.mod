module verifharness

go 1.19

require (
	github.com/innovationb1ue/RedisGO v0.0.0
)

replace (
	github.com/innovationb1ue/RedisGO => /repo
	go.etcd.io/etcd/api/v3 => /repo/etcd/api
	go.etcd.io/etcd/client/pkg/v3 => /repo/etcd/client/pkg
	go.etcd.io/etcd/client/v2 => /repo/etcd/client/v2
	go.etcd.io/etcd/client/v3 => /repo/etcd/client/v3
	go.etcd.io/etcd/etcdctl/v3 => /repo/etcd/etcdctl
	go.etcd.io/etcd/etcdutl/v3 => /repo/etcd/etcdutl
	go.etcd.io/etcd/pkg/v3 => /repo/etcd/pkg
	go.etcd.io/etcd/raft/v3 => /repo/etcd/raft
	go.etcd.io/etcd/server/v3 => /repo/etcd/server
	go.etcd.io/etcd/tests/v3 => /repo/etcd/tests
)
