package main

// memx: the command-program runner with real connections (C06, C20).
//
//	memx <prog> <out> <scratch> <mode>
//
// Same program/trace format as memrun (WD and T lines included; the BG directive of memrun is not
// supported here), plus
//
//	CLOSE <conn>     the connection ends (trace line "X <conn>": the model forgets its selection);
//	                 a later use of the same or another id opens a new connection
//	PIPE ... FLUSH   the C lines in between are pipelined: per connection one Write with all its
//	                 commands, then all replies read in order (sleep and @T fields are not used)
//	PAR ... JOIN     the C lines in between run concurrently, one goroutine per connection id
//	                 (traced per connection, in order of first appearance)
//	ALIGN <ms>       sleep until the clock's millisecond-within-the-second equals <ms>
//	@T+<n> / @T-<n>  as an argument: replaced by the decimal unix time (seconds) at the moment the
//	                 command is issued plus/minus n (the substituted bytes appear in the trace)
//	@X+<n> / @X-<n>  likewise MaxInt64 - (unix time) plus/minus n: the overflow boundary of relative times
//
// and every connection id of a case is a connection of its own:
//
//	mode "view"    one server.Manager.NewConnView() per connection id, ExecCommand called directly
//	mode "handle"  one net.Pipe per connection id served by a goroutine running the real
//	               server.Manager.Handle; commands are written as RESP arrays and the reply is
//	               read back from the wire
//	mode "tcp"     server.Start on a loopback port, one real TCP connection per connection id,
//	               real clock (build without faketime); clock before and after each step recorded
//	               as "S <unix> <unixms> ... | reply | <unixms_after>"; no dumps (DUMP is skipped)
//
// In handle and tcp mode per-connection state is therefore whatever the server's own connection
// handler keeps, not something the harness provides.

import (
	"bufio"
	"context"
	"encoding/hex"
	"fmt"
	"io"
	"net"
	"os"
	"strconv"
	"strings"
	"sync"
	"time"

	"github.com/innovationb1ue/RedisGO/config"
	"github.com/innovationb1ue/RedisGO/server"
)

func init() { subcmds["memx"] = memxCmd }

type xconn struct {
	view   *server.Manager // mode view
	c      net.Conn        // mode handle / tcp: client side
	r      *bufio.Reader
	cancel context.CancelFunc
	done   chan struct{} // mode handle: closed when Manager.Handle has returned
}

// readWire reads one RESP value from the wire and renders it canonically (same text as canonReply).
func readWire(r *bufio.Reader) (string, error) {
	line, err := r.ReadBytes('\n')
	if err != nil {
		return "", err
	}
	if len(line) < 3 || line[len(line)-2] != '\r' {
		return "!BADLINE(" + hex.EncodeToString(line) + ")", nil
	}
	body := line[1 : len(line)-2]
	switch line[0] {
	case '+':
		return "+" + hx(body), nil
	case '-':
		if strings.HasPrefix(string(body), "WRONGTYPE") {
			return "-W", nil
		}
		return "-E", nil
	case ':':
		return ":" + string(body), nil
	case '$':
		n, err := strconv.Atoi(string(body))
		if err != nil {
			return "!BADBULK", nil
		}
		if n < 0 {
			return "$nil", nil
		}
		buf := make([]byte, n+2)
		if _, err := io.ReadFull(r, buf); err != nil {
			return "", err
		}
		if buf[n] != '\r' || buf[n+1] != '\n' {
			return "!BADBULKEND", nil
		}
		return "$" + hx(buf[:n]), nil
	case '*':
		n, err := strconv.Atoi(string(body))
		if err != nil {
			return "!BADARRAY", nil
		}
		if n < 0 {
			return "*nil", nil
		}
		parts := make([]string, 0, n)
		for i := 0; i < n; i++ {
			p, err := readWire(r)
			if err != nil {
				return "", err
			}
			parts = append(parts, p)
		}
		return "*[" + strings.Join(parts, " ") + "]", nil
	default:
		return "~" + hx(line[:len(line)-2]), nil
	}
}

func wireCommand(cmd [][]byte) []byte {
	var b strings.Builder
	fmt.Fprintf(&b, "*%d\r\n", len(cmd))
	for _, a := range cmd {
		fmt.Fprintf(&b, "$%d\r\n", len(a))
		b.Write(a)
		b.WriteString("\r\n")
	}
	return []byte(b.String())
}

func freePort() int {
	l, err := net.Listen("tcp", "127.0.0.1:0")
	if err != nil {
		panic(err)
	}
	p := l.Addr().(*net.TCPAddr).Port
	l.Close()
	return p
}

func memxCmd(args []string) error {
	if len(args) != 4 {
		return fmt.Errorf("memx <prog> <out> <scratch> view|handle|tcp")
	}
	mode := args[3]
	f, err := os.Open(args[0])
	if err != nil {
		return err
	}
	defer f.Close()
	of, err := os.Create(args[1])
	if err != nil {
		return err
	}
	defer of.Close()
	w := bufio.NewWriterSize(of, 1<<20)
	defer w.Flush()
	sc := bufio.NewScanner(f)
	sc.Buffer(make([]byte, 1<<20), 1<<28)
	progress, _ := os.Create(args[1] + ".progress")
	defer progress.Close()

	var mgr *server.Manager
	var cfg *config.Config
	conns := map[string]*xconn{}
	tcpAddr := ""
	closeConns := func() {
		for _, c := range conns {
			if c.cancel != nil {
				c.cancel()
			}
			if c.c != nil {
				c.c.Close()
			}
		}
		conns = map[string]*xconn{}
	}
	var connMu sync.Mutex
	getConn := func(id string) (*xconn, error) {
		connMu.Lock()
		defer connMu.Unlock()
		if c, ok := conns[id]; ok {
			return c, nil
		}
		c := &xconn{}
		switch mode {
		case "view":
			c.view = mgr.NewConnView()
		case "handle":
			cli, srv := net.Pipe()
			ctx, cancel := context.WithCancel(context.Background())
			c.c, c.cancel = cli, cancel
			c.r = bufio.NewReader(cli)
			c.done = make(chan struct{})
			go func(done chan struct{}) {
				mgr.Handle(ctx, srv)
				close(done)
			}(c.done)
		case "tcp":
			var cli net.Conn
			var err error
			for i := 0; i < 200; i++ {
				cli, err = net.Dial("tcp", tcpAddr)
				if err == nil {
					break
				}
				time.Sleep(10 * time.Millisecond)
			}
			if err != nil {
				return nil, err
			}
			c.c = cli
			c.r = bufio.NewReader(cli)
		default:
			return nil, fmt.Errorf("unknown mode %s", mode)
		}
		conns[id] = c
		return c, nil
	}

	// one C line: optional sleep, the command on its connection (opened on first use), trace line(s)
	doCmd := func(fs []string) (string, error) {
		ms, _ := strconv.Atoi(fs[2])
		if ms > 0 {
			time.Sleep(time.Duration(ms) * time.Millisecond)
		}
		c, err := getConn(fs[1])
		if err != nil {
			return "", err
		}
		var lb strings.Builder
		now := time.Now()
		cmd := make([][]byte, 0, len(fs)-3)
		hexargs := make([]string, 0, len(fs)-3)
		for _, h := range fs[3:] {
			if strings.HasPrefix(h, "@T") || strings.HasPrefix(h, "@X") {
				off, _ := strconv.ParseInt(h[2:], 10, 64)
				base := now.Unix()
				if h[1] == 'X' {
					base = 9223372036854775807 - now.Unix() // the largest relative time that does not overflow the clock
				}
				b := []byte(strconv.FormatInt(base+off, 10))
				cmd = append(cmd, b)
				hexargs = append(hexargs, hx(b))
			} else {
				cmd = append(cmd, unhx(h))
				hexargs = append(hexargs, h)
			}
		}
		var out string
		if mode == "view" {
			out = execStep(c.view, cmd)
		} else {
			if mode == "tcp" {
				c.c.SetDeadline(time.Now().Add(20 * time.Second))
			}
			if _, err := c.c.Write(wireCommand(cmd)); err != nil {
				out = "!WRITEERR"
			} else if out, err = readWire(c.r); err != nil {
				out = "!READERR(" + err.Error() + ")"
			}
			name := ""
			if len(cmd) > 0 {
				name = strings.ToLower(string(cmd[0]))
			}
			out = canonForCmd(name, out)
		}
		if mode == "tcp" {
			fmt.Fprintf(&lb, "S %d %d %s %s | %s | %d\n", now.Unix(), now.UnixMilli(), fs[1], strings.Join(hexargs, " "), out, time.Now().UnixMilli())
		} else {
			fmt.Fprintf(&lb, "S %d %d %s %s | %s\n", now.Unix(), now.UnixMilli(), fs[1], strings.Join(hexargs, " "), out)
			// as memrun: the instant a blocking pop returned, checked against the model
			if len(cmd) > 0 {
				if n := strings.ToLower(string(cmd[0])); n == "blpop" || n == "brpop" {
					fmt.Fprintf(&lb, "T %d\n", time.Now().UnixMilli())
				}
			}
		}
		return lb.String(), nil
	}
	inPar := false
	var parLines [][]string
	inPipe := false
	var pipeLines [][]string
	// PIPE ... FLUSH: per connection (in order of first appearance) all its buffered commands are
	// sent in ONE Write, as a pipelining client does, and only then the replies are read, in order.
	// (The write runs in a goroutine of its own: a net.Pipe has no buffer, the server may have to
	// write the first replies before it has read the last command.)  Clock of command i in the
	// trace: the instant reply i-1 arrived, which under faketime is the instant command i starts.
	// Modes handle and tcp; in mode view the commands run one by one.
	flushPipe := func() error {
		lines := pipeLines
		inPipe, pipeLines = false, nil
		if len(lines) == 0 {
			return nil
		}
		order := []string{}
		byConn := map[string][][]string{}
		for _, l := range lines {
			if _, ok := byConn[l[1]]; !ok {
				order = append(order, l[1])
			}
			byConn[l[1]] = append(byConn[l[1]], l)
		}
		for _, id := range order {
			if mode == "view" {
				for _, l := range byConn[id] {
					line, err := doCmd(l)
					if err != nil {
						return err
					}
					w.WriteString(line)
				}
				continue
			}
			c, err := getConn(id)
			if err != nil {
				return err
			}
			var wire []byte
			cmds := make([][][]byte, 0, len(byConn[id]))
			for _, l := range byConn[id] {
				cmd := make([][]byte, 0, len(l)-3)
				for _, h := range l[3:] {
					cmd = append(cmd, unhx(h))
				}
				cmds = append(cmds, cmd)
				wire = append(wire, wireCommand(cmd)...)
			}
			if mode == "tcp" {
				c.c.SetDeadline(time.Now().Add(30 * time.Second))
			}
			werr := make(chan error, 1)
			go func() { _, e := c.c.Write(wire); werr <- e }()
			at := time.Now()
			for i, cmd := range cmds {
				out, err := readWire(c.r)
				if err != nil {
					out = "!READERR(" + err.Error() + ")"
				}
				name := ""
				if len(cmd) > 0 {
					name = strings.ToLower(string(cmd[0]))
				}
				out = canonForCmd(name, out)
				done := time.Now()
				if mode == "tcp" {
					fmt.Fprintf(w, "S %d %d %s %s | %s | %d\n", at.Unix(), at.UnixMilli(), id, strings.Join(byConn[id][i][3:], " "), out, done.UnixMilli())
				} else {
					fmt.Fprintf(w, "S %d %d %s %s | %s\n", at.Unix(), at.UnixMilli(), id, strings.Join(byConn[id][i][3:], " "), out)
				}
				at = done
			}
			<-werr
		}
		return nil
	}

	for sc.Scan() {
		fs := strings.Fields(sc.Text())
		if len(fs) == 0 {
			continue
		}
		switch fs[0] {
		case "CASE":
			closeConns()
			dbs, _ := strconv.Atoi(fs[2])
			cfg = setupServer(dbs, args[2])
			if mode == "tcp" {
				// a fresh server per case: server.Start builds its own Manager
				cfg.Port = freePort()
				tcpAddr = "127.0.0.1:" + strconv.Itoa(cfg.Port)
				go func(c *config.Config) { _ = server.Start(c) }(cfg)
			} else {
				mgr = server.NewManager(cfg)
			}
			fmt.Fprintf(w, "CASE %s %d\n", fs[1], dbs)
			if mode == "view" {
				// execStep (mem.go) cancels a command still blocked after watchdogMs
				fmt.Fprintf(w, "WD %d\n", watchdogMs)
			}
			progress.Seek(0, 0)
			fmt.Fprintf(progress, "%s\n", fs[1])
		case "ALIGN":
			ms, _ := strconv.Atoi(fs[1])
			cur := int(time.Now().UnixMilli() % 1000)
			d := (ms - cur + 1000) % 1000
			if d > 0 {
				time.Sleep(time.Duration(d) * time.Millisecond)
			}
		case "C":
			if inPar {
				parLines = append(parLines, fs)
				continue
			}
			if inPipe {
				pipeLines = append(pipeLines, fs)
				continue
			}
			line, err := doCmd(fs)
			if err != nil {
				return err
			}
			w.WriteString(line)
		case "PIPE":
			// the C lines up to FLUSH are pipelined: see flushPipe
			inPipe = true
		case "FLUSH":
			if err := flushPipe(); err != nil {
				return err
			}
		case "PAR":
			// the C lines up to JOIN: one goroutine per connection id, all released together
			inPar, parLines = true, nil
		case "JOIN":
			inPar = false
			order := []string{}
			byConn := map[string][][]string{}
			for _, l := range parLines {
				if _, ok := byConn[l[1]]; !ok {
					order = append(order, l[1])
				}
				byConn[l[1]] = append(byConn[l[1]], l)
			}
			outs := map[string]*strings.Builder{}
			var pmu sync.Mutex
			var wg sync.WaitGroup
			start := make(chan struct{})
			var perr error
			for _, id := range order {
				outs[id] = &strings.Builder{}
				wg.Add(1)
				go func(id string) {
					defer wg.Done()
					<-start
					for _, l := range byConn[id] {
						line, err := doCmd(l)
						pmu.Lock()
						if err != nil {
							perr = err
						}
						outs[id].WriteString(line)
						pmu.Unlock()
					}
				}(id)
			}
			close(start)
			wg.Wait()
			if perr != nil {
				return perr
			}
			for _, id := range order {
				w.WriteString(outs[id].String())
			}
		case "CLOSE":
			// the connection ends; in mode handle wait until Manager.Handle has returned (that is when
			// the server is done with its per-connection state), over TCP give the server a moment
			connMu.Lock()
			c, ok := conns[fs[1]]
			delete(conns, fs[1])
			connMu.Unlock()
			if ok {
				if c.c != nil {
					c.c.Close()
				}
				if c.cancel != nil {
					c.cancel()
				}
				if c.done != nil {
					select {
					case <-c.done:
					case <-time.After(2 * time.Second):
					}
				} else if mode == "tcp" {
					time.Sleep(3 * time.Millisecond)
				}
			}
			fmt.Fprintf(w, "X %s\n", fs[1])
		case "DUMP":
			if mode == "tcp" {
				continue
			}
			// defensive walk: a nil entry of mgr.DBs is reported as a NOTE line, never a crash
			dumpDBs(w, mgr)
		case "END":
			if err := flushPipe(); err != nil {
				return err
			}
			closeConns()
			fmt.Fprintf(w, "END\n")
		}
	}
	closeConns()
	return nil
}
