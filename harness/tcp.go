package main

import (
	"bufio"
	"fmt"
	"io"
	"net"
	"os"
	"strconv"
	"strings"
	"time"

	"github.com/innovationb1ue/RedisGO/server"
)

func init() { subcmds["tcprun"] = tcpRunCmd }

// readCanon reads one RESP reply from the socket and renders it in the canonical form of
// canonReply (mem.go): what a client decodes from the bytes the server wrote.
func readCanon(r *bufio.Reader) (string, error) {
	line, err := r.ReadString('\n')
	if err != nil {
		return "", err
	}
	if len(line) < 3 || !strings.HasSuffix(line, "\r\n") {
		return "!BADLINE(" + hx([]byte(line)) + ")", nil
	}
	body := line[1 : len(line)-2]
	switch line[0] {
	case '+':
		return "+" + hx([]byte(body)), nil
	case '-':
		if strings.HasPrefix(body, "WRONGTYPE") {
			return "-W", nil
		}
		return "-E", nil
	case ':':
		if _, err := strconv.ParseInt(body, 10, 64); err != nil {
			return "!BADINT(" + body + ")", nil
		}
		return ":" + body, nil
	case '$':
		n, err := strconv.Atoi(body)
		if err != nil {
			return "!BADLEN(" + body + ")", nil
		}
		if n < 0 {
			return "$nil", nil
		}
		buf := make([]byte, n+2)
		if _, err := io.ReadFull(r, buf); err != nil {
			return "", err
		}
		if buf[n] != '\r' || buf[n+1] != '\n' {
			return "!BADBULKEND", nil
		}
		return "$" + hx(buf[:n]), nil
	case '*':
		n, err := strconv.Atoi(body)
		if err != nil {
			return "!BADLEN(" + body + ")", nil
		}
		if n < 0 {
			return "*nil", nil
		}
		parts := make([]string, 0, n)
		for i := 0; i < n; i++ {
			p, err := readCanon(r)
			if err != nil {
				return "", err
			}
			parts = append(parts, p)
		}
		return "*[" + strings.Join(parts, " ") + "]", nil
	}
	return "!BADTYPE(" + hx([]byte(line)) + ")", nil
}

func encodeCmd(cmd [][]byte) []byte {
	out := []byte("*" + strconv.Itoa(len(cmd)) + "\r\n")
	for _, a := range cmd {
		out = append(out, []byte("$"+strconv.Itoa(len(a))+"\r\n")...)
		out = append(out, a...)
		out = append(out, '\r', '\n')
	}
	return out
}

// tcprun <prog> <out> <scratch>: the same program format as memrun, but every command travels
// through a TCP connection to server.Start (real RESP parser, connection loop, reply encoder) on
// the real clock.  One server for the whole file; every CASE opens its own connection and first
// SELECTs database (case index mod dbs) so cases do not see each other's keys (at most <dbs>
// cases per file).  DUMP lines are ignored (the Manager of server.Start is not reachable).
func tcpRunCmd(args []string) error {
	if len(args) != 3 {
		return fmt.Errorf("tcprun <prog> <out> <scratch>")
	}
	f, err := os.Open(args[0])
	if err != nil {
		return err
	}
	defer f.Close()
	of, err := os.Create(args[1])
	if err != nil {
		return err
	}
	defer of.Close()
	w := bufio.NewWriterSize(of, 1<<20)
	defer w.Flush()

	const dbs = 16
	l, err := net.Listen("tcp", "127.0.0.1:0")
	if err != nil {
		return err
	}
	port := l.Addr().(*net.TCPAddr).Port
	l.Close()
	cfg := setupServer(dbs, args[2])
	cfg.Port = port
	devnull, _ := os.OpenFile(os.DevNull, os.O_WRONLY, 0)
	saved := os.Stdout
	os.Stdout = devnull // the banner
	go server.Start(cfg)
	addr := "127.0.0.1:" + strconv.Itoa(port)
	var conn net.Conn
	for i := 0; i < 200; i++ {
		conn, err = net.Dial("tcp", addr)
		if err == nil {
			conn.Close()
			break
		}
		time.Sleep(10 * time.Millisecond)
	}
	os.Stdout = saved
	if err != nil {
		return fmt.Errorf("server did not come up: %v", err)
	}

	sc := bufio.NewScanner(f)
	sc.Buffer(make([]byte, 1<<20), 1<<28)
	var rd *bufio.Reader
	conn = nil
	caseIdx := -1
	exec := func(connID string, hexargs []string) error {
		cmd := make([][]byte, 0, len(hexargs))
		for _, h := range hexargs {
			cmd = append(cmd, unhx(h))
		}
		now := time.Now()
		conn.SetDeadline(now.Add(10 * time.Second))
		if _, err := conn.Write(encodeCmd(cmd)); err != nil {
			return err
		}
		out, err := readCanon(rd)
		if err != nil {
			out = "!NOREPLY(" + err.Error() + ")"
		}
		name := ""
		if len(cmd) > 0 {
			name = strings.ToLower(string(cmd[0]))
		}
		fmt.Fprintf(w, "S %d %d %s %s | %s\n", now.Unix(), now.UnixMilli(), connID, strings.Join(hexargs, " "), canonForCmd(name, out))
		return nil
	}
	for sc.Scan() {
		fs := strings.Fields(sc.Text())
		if len(fs) == 0 {
			continue
		}
		switch fs[0] {
		case "CASE":
			caseIdx++
			if caseIdx >= dbs {
				return fmt.Errorf("tcprun: more than %d cases in one file", dbs)
			}
			if conn != nil {
				conn.Close()
			}
			conn, err = net.Dial("tcp", addr)
			if err != nil {
				return err
			}
			rd = bufio.NewReader(conn)
			fmt.Fprintf(w, "CASE %s %d\n", fs[1], dbs)
			if err := exec("0", []string{hx([]byte("select")), hx([]byte(strconv.Itoa(caseIdx)))}); err != nil {
				return err
			}
		case "C":
			if err := exec(fs[1], fs[3:]); err != nil {
				return err
			}
		case "END":
			fmt.Fprintf(w, "END\n")
		}
	}
	if conn != nil {
		conn.Close()
	}
	return nil
}
