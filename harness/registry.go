package main

import (
	"fmt"
	"os"
	"sort"

	"github.com/innovationb1ue/RedisGO/memdb"
)

func init() { subcmds["registry"] = registryCmd }

// registry <outfile>: the names in memdb.CmdTable after all Register* calls, sorted, one per line.
func registryCmd(args []string) error {
	if len(args) != 1 {
		return fmt.Errorf("registry <out>")
	}
	setupServer(1, os.TempDir())
	names := make([]string, 0, len(memdb.CmdTable))
	for n := range memdb.CmdTable {
		names = append(names, n)
	}
	sort.Strings(names)
	f, err := os.Create(args[0])
	if err != nil {
		return err
	}
	defer f.Close()
	for _, n := range names {
		fmt.Fprintln(f, n)
	}
	return nil
}
