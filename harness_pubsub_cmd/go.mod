module verifharness_pubsub_cmd

go 1.19

require github.com/innovationb1ue/RedisGO v0.0.0

require (
	github.com/beorn7/perks v1.0.1 // indirect
	github.com/cespare/xxhash/v2 v2.1.2 // indirect
	github.com/coreos/go-semver v0.3.0 // indirect
	github.com/dustin/go-humanize v1.0.0 // indirect
	github.com/gogo/protobuf v1.3.2 // indirect
	github.com/golang/protobuf v1.5.2 // indirect
	github.com/google/uuid v1.3.0 // indirect
	github.com/matttproud/golang_protobuf_extensions v1.0.1 // indirect
	github.com/prometheus/client_golang v1.12.2 // indirect
	github.com/prometheus/client_model v0.2.0 // indirect
	github.com/prometheus/common v0.32.1 // indirect
	github.com/prometheus/procfs v0.7.3 // indirect
	github.com/xiang90/probing v0.0.0-20190116061207-43a291ad63a2 // indirect
	go.etcd.io/etcd/api/v3 v3.6.0-alpha.0 // indirect
	go.etcd.io/etcd/client/pkg/v3 v3.6.0-alpha.0 // indirect
	go.etcd.io/etcd/pkg/v3 v3.6.0-alpha.0 // indirect
	go.etcd.io/etcd/raft/v3 v3.6.0-alpha.0 // indirect
	go.etcd.io/etcd/server/v3 v3.0.0-00010101000000-000000000000 // indirect
	go.uber.org/atomic v1.7.0 // indirect
	go.uber.org/multierr v1.8.0 // indirect
	go.uber.org/zap v1.21.0 // indirect
	golang.org/x/net v0.0.0-20220919171627-f8f703f97925 // indirect
	golang.org/x/sys v0.0.0-20220728004956-3c1f35247d10 // indirect
	golang.org/x/text v0.3.7 // indirect
	golang.org/x/time v0.0.0-20220609170525-579cf78fd858 // indirect
	google.golang.org/genproto v0.0.0-20220329172620-7be39ac1afc7 // indirect
	google.golang.org/grpc v1.47.0 // indirect
	google.golang.org/protobuf v1.28.0 // indirect
)

replace (
	github.com/innovationb1ue/RedisGO => /repo
	go.etcd.io/etcd/api/v3 => /repo/etcd/api
	go.etcd.io/etcd/client/pkg/v3 => /repo/etcd/client/pkg
	go.etcd.io/etcd/client/v2 => /repo/etcd/client/v2
	go.etcd.io/etcd/client/v3 => /repo/etcd/client/v3
	go.etcd.io/etcd/etcdctl/v3 => /repo/etcd/etcdctl
	go.etcd.io/etcd/etcdutl/v3 => /repo/etcd/etcdutl
	go.etcd.io/etcd/pkg/v3 => /repo/etcd/pkg
	go.etcd.io/etcd/raft/v3 => /repo/etcd/raft
	go.etcd.io/etcd/server/v3 => /repo/etcd/server
	go.etcd.io/etcd/tests/v3 => /repo/etcd/tests
)
