"""C17 — KEYS glob matching follows the documented grammar (DESIGN.md section 3, C17)."""
from . import lib

PID = "C17"


def first_diff(impl_lines, model_lines, subs):
    for li, (a, b) in enumerate(zip(impl_lines, model_lines)):
        if a != b:
            pa, ba = a.split(" ") if " " in a else (a, "")
            pb, bb = b.split(" ") if " " in b else (b, "")
            for i, (x, y) in enumerate(zip(ba, bb)):
                if x != y:
                    return dict(pattern_hex=pa, subject_hex=subs[i], impl=x, model=y, line=li)
            return dict(pattern_hex=pa, subject_hex=None, impl=a[:200], model=b[:200], line=li)
    if len(impl_lines) != len(model_lines):
        return dict(pattern_hex=None, subject_hex=None, impl="lines=%d" % len(impl_lines), model="lines=%d" % len(model_lines))
    return None


def compare(d):
    impl = (d / "impl.txt").read_text().splitlines()
    model = (d / "model.txt").read_text().splitlines()
    subs = [l.split(" ")[1] if " " in l.strip() else "" for l in (d / "cases.txt").read_text().splitlines() if l.startswith("S")]
    npat = len(impl)
    nontrivial = 0
    for l in model:
        bits = l.split(" ")[1] if " " in l else ""
        if "1" in bits and "0" in bits:
            nontrivial += 1
    return first_diff(impl, model, subs), npat, len(subs), nontrivial


def long_cases(seed):
    """Long patterns and subjects (the exhaustive family stops at 5 x 3 bytes, the random one at 14 x 10):
    star backtracking where early candidate positions fail late and a later one succeeds, several stars
    with classes / escapes / '?' after them, and inputs of thousands of bytes.  All of them polynomial for
    a naive backtracking matcher.  Returns (patterns, subjects) as lists of bytes; every pair is compared."""
    import random
    rnd = random.Random(seed * 7919 + 17)
    pats, subs = [], []
    for n, m in ((20, 40), (100, 250), (180, 420), (60, 1000)):
        pats += [b"*" + b"a" * n + b"b", b"*" + b"a" * n + b"?", b"a*" + b"a" * n + b"[a-c]", b"*" + b"a" * n + b"\\b",
                 b"job:*" + b"a" * n + b"b", b"*" + b"a" * n]
        subs += [b"a" * m + b"b", b"a" * m, b"a" * m + b"c", b"job:" + b"a" * m + b"b", b"a" * (n - 1) + b"b", b"a" * n + b"b"]
    for n in (130, 400):
        body = bytes(rnd.choice(b"abc") for _ in range(n))
        pats += [b"*" + body[:20] + b"*" + body[40:60] + b"[^x]" + b"?" * 3 + b"*" + body[-10:],
                 body[:50] + b"*" + body[-50:], b"*[a-c]" * 8 + b"*", b"?" * n, b"?" * (n - 1) + b"*"]
        subs += [body, body + b"z", b"x" + body, body[:-1]]
    for n in (10001, 12000):
        lit = bytes(rnd.choice(b"abcdefgh") for _ in range(n))
        pats += [lit, b"user:" + lit + b"*", b"*" + lit[-200:], lit[:200] + b"*" + lit[-200:]]
        subs += [lit, b"user:" + lit + b"tail", lit[:-1] + b"Z"]
    pats += [b"*", b"**", b"*?", b"?*?"]
    return pats, subs


def run(ctx):
    cov, broken = lib.proof_gate(ctx, extra_tb=[
        "modelled, not verified: Go string slicing/indexing in util.PattenMatch (re-stated as list recursion); tie = exhaustive-in-bounds differential run on every check",
    ])
    ok1, log1 = lib.ensure_modelrun()
    ok2, log2 = lib.ensure_harness()
    if not ok1 or not ok2:
        broken = broken or ("build failed: " + (log1 if not ok1 else log2)[-2000:])
    d = lib.scratch("c17-")
    diff = None
    npat = nsub = nontriv = nlong = 0
    samples = []
    if ctx.replay:
        import json
        r = json.load(open(ctx.replay))
        (d / "cases.txt").write_text("P %s\nS %s\n" % (r.get("pattern_hex") or "", r.get("subject_hex") or ""))
        lib.sh("%s globfile cases.txt impl.txt" % (lib.BUILD / "harness"), cwd=d, timeout=60)
        lib.sh("%s glob cases.txt model.txt" % (lib.BUILD / "modelrun"), cwd=d, timeout=60)
        print("impl :", (d / "impl.txt").read_text().strip())
        print("model:", (d / "model.txt").read_text().strip(), "(= specification by theorem C17_correct)")
        return 0 if (d / "impl.txt").read_text() == (d / "model.txt").read_text() else 1
    if not broken or (ok1 and ok2):
        # corpus first
        corpus = lib.VERIF / "corpus" / "c17_cases.txt"
        runs = []
        if corpus.exists():
            dc = d / "corpus"
            dc.mkdir()
            (dc / "cases.txt").write_text(corpus.read_text())
            rc, out = lib.sh("%s globfile cases.txt impl.txt" % (lib.BUILD / "harness"), cwd=dc, timeout=300)
            runs.append(dc)
        maxp, maxs, nrp, nrs = (4, 3, 400, 400) if ctx.tier == "quick" else (5, 3, 3000, 3000)
        dm = d / "main"
        dm.mkdir()
        rc, out = lib.sh("%s glob . %d %d %d %d %d" % (lib.BUILD / "harness", maxp, maxs, nrp, nrs, ctx.seed), cwd=dm, timeout=1500)
        if rc != 0:
            broken = broken or ("harness glob failed: " + out[-2000:])
        runs.append(dm)
        dl = d / "long"
        dl.mkdir()
        lp, ls = long_cases(ctx.seed)
        (dl / "cases.txt").write_text("".join("P %s\n" % x.hex() for x in lp) + "".join("S %s\n" % x.hex() for x in ls))
        rc, out = lib.sh("%s globfile cases.txt impl.txt" % (lib.BUILD / "harness"), cwd=dl, timeout=600)
        if rc != 0:
            broken = broken or ("harness globfile (long inputs) failed: " + out[-2000:])
        runs.append(dl)
        nlong = len(lp) * len(ls)
        for rd in runs:
            rc, out = lib.sh("%s glob cases.txt model.txt" % (lib.BUILD / "modelrun"), cwd=rd, timeout=3000)
            if rc != 0:
                broken = broken or ("modelrun glob failed: " + out[-2000:])
                continue
            df, a, b, c = compare(rd)
            npat += a
            nsub = max(nsub, b)
            nontriv += c
            if df and not diff:
                diff = df
        # samples
        lines = (dm / "model.txt").read_text().splitlines()
        for l in lines[1000:1003] + lines[-2:]:
            samples.append(l[:80])
    rc = 0
    if diff:
        # the model is proved equal to the specification (C17_correct), so a disagreement
        # between implementation and model on (pattern, subject) is a failing input.
        lib.violation(PID, dict(kind="impl-vs-spec", theorem="C17_correct", **diff,
                                note="impl = util.PattenMatch result ('1' match, '0' no match, 'X' panic); model = gmatch = documented grammar"))
        ctx.violations += 1
        rc = 1
    elif broken:
        lib.violation(PID, dict(kind="tie-broken", what=broken), found_input=False)
        ctx.violations += 1
        rc = 1
    for kf in lib.known_findings(PID):
        if kf["kind"] == "open":
            print("KNOWN-FINDING: property=%s %s %s" % (PID, kf["id"], kf["text"]))
    cov.update(dict(
        evaluations=npat * nsub,
        distinct_nontrivial=nontriv,
        rule="all patterns of length<=%s and subjects of length<=%s over the alphabet {a b c * ? [ ] ^ - \\} plus seeded random inputs (<= 14 x 10 bytes) over all 256 bytes, plus a long-input family (patterns x subjects of 20..12000 bytes: star backtracking with late-failing candidates, several stars followed by classes / escapes / '?', long literals); a pattern counts as non-trivial when it matches some but not all subjects (counted on the model side)" % (("4", "3") if ctx.tier == "quick" else ("5", "3")),
        patterns=npat, subjects=nsub, long_input_pairs=nlong, samples=samples or ["(none)"],
        exhaustive=True,
        correspondence="util.PattenMatch (built from /repo working tree) vs extracted gmatch, compared on every pair",
    ))
    lib.write_evidence(PID, ctx.tier, ctx.seed, cov,
                       ["Go runtime string semantics", "extraction + OCaml compiler", "KEYS end-to-end path is covered by the C01 programs"],
                       ctx.wall(), ctx.violations)
    return rc
