"""Driver shared by checks/c05.py and checks/c13.py (see conclib.py for what is checked)."""
import json
import re
from pathlib import Path

from . import lib, conclib

TB = [
    "translator/ (Go, go/ast): trusted to report lock / access / return / defer structure faithfully; conservative (unclassified code = EUnknown fails the obligation) and cross-checked at run time by the H2 lock log (every dynamic critical section must be an instance of a static lock event)",
    "modelled, not verified: sync.RWMutex as a writer-preferring reader-writer lock; goroutine scheduling as arbitrary interleaving of lock / access events; the Go memory model (the -race build of the thorough tier validates data-race freedom of the runs, it is not a theorem)",
    "ml/concrun.ml (Wing-Gong/Lowe linearizability search over the extracted srv_exec; parsing, memoisation, staging of MGET / multi-key DEL / EXISTS / BLPOP): trusted glue",
    "harness_conc/ (workload generators, logical clock, watchdog) and memdb/verif_lock_on.go (hook H2): testing machinery",
    "the sequential specification is the extracted keyspace model coq/Mem/* (tied to the code by the C01/C09.. differential checks); commands it does not cover yet are exercised for crashes, deadlock, lock discipline and races only",
]

ASSUME = ["Go runtime scheduler and memory model (not modelled)", "sync.RWMutex behaves as the modelled writer-preferring RW lock",
          "extraction + OCaml compiler", "translator faithfulness (cross-checked dynamically)"]


def builds(ctx, race):
    ok1, log1 = lib.ensure_runner("concrun", "Extract/ExtractConc.v", ("util.ml", "memrun.ml", "concrun.ml"), ("model",))
    if not ok1:
        return "concrun build failed: " + log1[-2000:]
    ok2, log2 = lib.ensure_harness(name="harness_conc", srcdir="harness_conc")
    if not ok2:
        return "harness_conc build failed: " + log2[-2000:]
    if race:
        ok3, log3 = lib.ensure_harness(name="harness_conc_race", srcdir="harness_conc", race=True)
        if not ok3:
            return "harness_conc -race build failed: " + log3[-2000:]
    return None


def races_in(log):
    return re.findall(r"WARNING: DATA RACE\n(?:.*\n){1,60}?={18}", log)


def one_run(pid, d, tag, seed, tier, phases, skip, tr, budget, stats, race=False, tcp=False, threads=None, nops=None, focus=None):
    """Run the workload once and check every phase.  Returns list of violations."""
    out = Path(d) / tag
    rc, log = conclib.run_workload(out, seed, tier, phases, skip, race=race, tcp=tcp, threads=threads, nops=nops, focus=focus)
    viol = []
    status = {}
    if (out / "status.txt").exists():
        for l in (out / "status.txt").read_text().splitlines():
            f = l.split(" ")
            if f[0] == "PHASE":
                status[f[1]] = f[2]
            elif f[0] == "SCREENED":
                stats["screened"][f[1]] = " ".join(conclib.unhx(h).decode("latin1") for h in f[2].replace("HANG:", "").split(" ")) if len(f) > 2 else ""
                if len(f) > 3:
                    stats["screened"][f[1]] = " ".join(conclib.unhx(h).decode("latin1") for h in [f[2].replace("HANG:", "")] + f[3:])
    if rc not in (0, 4):
        viol.append(dict(kind="harness-failed", rc=rc, log=log[-3000:]))
    for r in races_in(log)[:3]:
        viol.append(dict(kind="data-race", report=r[:4000]))
    for ph in phases:
        if ph not in status:
            continue
        if focus and not (out / ph / "history.txt").exists() and not (out / ph / "result.txt").exists():
            continue
        if status[ph] == "SLOW":
            # still progressing when the cap was reached: inconclusive, never a violation
            stats["slow_phases"].append(ph)
            continue
        if status[ph] != "OK":
            v = conclib.hang_report(ph, out / ph)
            v["verdict"] = status[ph]
            panics = re.findall(r"panic in (.*)", log)
            if panics:
                v["panics_before_hang"] = panics[:5]
                v["kind"] = "server-crash"
                v["note"] = "an executor panicked while holding a lock; everything touching that stripe then blocks for ever"
            viol.append(v)
            continue
        if ph == "keyscan":
            viol += conclib.check_keyscan(out / ph, stats)
            continue
        if ph == "bigval":
            viol += conclib.check_bigval(out / ph, stats)
            continue
        viol += conclib.check_phase_dir(ph, out / ph, tr, budget, stats)
    for v in viol:
        v.update(seed=seed, tier=tier, race=race, tcp=tcp, phases=phases)
    return viol


def confirm_timing(pid, d, tag, seed, tier, skip, tr, budget, stats, kw, viol):
    """A did-not-finish verdict rests on timing: it is reported only if it reproduces -- the phase is
    run twice more and must fail to finish in at least 2 of the 3 runs.  Other kinds are kept as is."""
    timing = [v for v in viol if v.get("kind") == "did-not-finish"]
    if not timing or len(timing) != len(viol):
        return viol
    ph = timing[0]["phase"]
    hits = 1
    for i in (1, 2):
        again = one_run(pid, d, "%s.again%d" % (tag, i), seed, tier, [ph], skip, tr, budget, stats, **kw)
        others = [v for v in again if v.get("kind") != "did-not-finish"]
        if others:
            return others            # a concrete non-timing violation is better evidence
        if again:
            hits += 1
        if hits >= 2:
            break
    if hits >= 2:
        timing[0]["reproduced"] = "%d of %d runs of this phase did not finish" % (hits, i + 1)
        return timing
    stats["unreproduced_timing"].append(dict(phase=ph, seed=seed, verdict=timing[0].get("verdict")))
    return []


def replay(pid, ctx, phases_all):
    r = json.load(open(ctx.replay))
    err = builds(ctx, False)
    if err:
        print(err)
        return 1
    d = lib.scratch(pid.lower() + "-replay-")
    tr = conclib.translate(d)
    print("translator obligations:", "hold" if tr["ok"] else "FAIL: " + "; ".join(conclib.obligation_failures(tr))[:600])
    if r.get("lin_input"):
        res, _ = conclib.run_concrun(r["lin_input"], d, 5_000_000)
        print("stored history (as recorded) against the sequential model:", res[0][:300] if res else "(checker failed)")
    phases = [p for p in r.get("phases", phases_all) if p in phases_all] or phases_all
    if r.get("phase") in phases_all:
        phases = [r["phase"]]
    hits = 0
    n = 5
    for i in range(n):
        stats = conclib.new_stats()
        viol = one_run(pid, d, "r%d" % i, int(r.get("seed", ctx.seed)), r.get("tier", "quick"), phases,
                       sorted(conclib.known_skel().keys()), tr, 2_000_000, stats)
        kinds = sorted(set(v["kind"] for v in viol))
        print("run %d: %s" % (i + 1, ", ".join(kinds) if kinds else "no violation"))
        if viol:
            hits += 1
    print("reproduced in %d of %d runs (schedules differ from run to run)" % (hits, n))
    # the stored history is evidence about the tree it was recorded on; the verdict of a replay is
    # about the current tree: do the obligations hold and does the workload still produce a violation
    return 1 if (hits > 0 or not tr["ok"]) else 0


def run(ctx, pid, phases, title, extra_tb, rule):
    cov, broken = lib.proof_gate(ctx, extra_tb=TB + extra_tb)
    if ctx.replay:
        return replay(pid, ctx, phases)
    thorough = ctx.tier == "thorough"
    err = builds(ctx, thorough)
    if err:
        broken = broken or err
    d = lib.scratch(pid.lower() + "-")
    tr = dict(ok=False, log="", report={}, obligations={}, skel=None, known=[])
    viol = []
    stats = conclib.new_stats()
    tie_msgs = []
    samples = []
    nobl = 0
    if not err:
        tr = conclib.translate(d)
        nobl = len(tr["obligations"])
        bad = conclib.obligation_failures(tr)
        if bad:
            tie_msgs += bad
        # the stripe function the workloads and the order theorem rely on: Go vs Gallina
        diff, herr = conclib.hash_check(conclib.hash_keys(ctx.seed, 3000 if thorough else 400), d)
        if herr:
            tie_msgs.append(herr)
        if diff:
            viol.append(dict(kind="hash-model-mismatch", **diff))
        if tr["skel"] is not None:
            skip = sorted(tr["known"])
            budget = 700_000 if thorough else 600_000
            runs = [("q", ctx.seed, "quick", dict())]
            if not thorough:
                runs.append(("q2", ctx.seed + 7919, "quick", dict(threads=3, nops=120)))
            else:
                runs += [("t%d" % i, ctx.seed + 101 * i, "thorough", dict()) for i in range(1, 6)]
                runs += [("race", ctx.seed + 13, "thorough", dict(race=True)),
                         ("tcp", ctx.seed + 17, "quick", dict(tcp=True)),
                         ("many", ctx.seed + 19, "quick", dict(threads=16, nops=40))]
            for tag, seed, tier, kw in runs:
                v = one_run(pid, d, tag, seed, tier, phases, skip, tr, budget, stats, **kw)
                v = confirm_timing(pid, d, tag, seed, tier, skip, tr, budget, stats, kw, v)
                viol += v
                if v:
                    break
            # DESIGN 2.4 (b): an obligation names executors -> stress exactly those, looking for a
            # failing history, within a time budget
            named = sorted(set(m.split(":")[0] for m in bad if ":" in m and not m.startswith("obligation")) & set(tr["report"]))
            # a broken shape fact names no executor: stress the commands that depend on it
            if not named and any("fact_count" in m or "fact_keys" in m for m in bad):
                named = ["del", "lpush", "set"]
            elif not named and any("shape fact" in m for m in bad):
                named = ["lmove", "mset", "rename", "sinter", "smove", "sunion"]
            if named and not viol:
                import time as _t
                t0 = _t.time()
                i = 0
                allph = ["counter", "list", "setnx", "multi", "setalg", "conserve", "book", "misc", "expiry", "pairs", "bigval", "keyscan", "hotlist", "hotmulti"]
                while not viol and _t.time() - t0 < (300 if thorough else 45):
                    i += 1
                    kwf = dict(threads=8, focus=named)
                    vf = one_run(pid, d, "focus%d" % i, ctx.seed + 31 * i, "quick", allph, skip, tr, budget, stats, **kwf)
                    viol += confirm_timing(pid, d, "focus%d" % i, ctx.seed + 31 * i, "quick", skip, tr, budget, stats, kwf, vf)
            # samples for the evidence
            try:
                ops, _, _ = conclib.read_phase(Path(d) / "q" / phases[0])
                samples = [o.ident() + " [%d,%d] " % (o.inv, o.res) + o.text()[:80] for o in ops[:5]]
            except Exception:
                pass
    rc = 0
    if viol:
        # one replay per run: the first violation, with the others summarised
        first = dict(viol[0])
        first["other_violations"] = [dict(kind=v["kind"], phase=v.get("phase")) for v in viol[1:20]]
        first["translator"] = tie_msgs[:10]
        lib.violation(pid, first)
        ctx.violations += 1
        rc = 1
    elif broken or tie_msgs:
        lib.violation(pid, dict(kind="tie-broken", what=(broken or "")[:3000], obligations=tie_msgs[:20],
                                note="the lock-skeleton obligations / proofs no longer check on this tree; the stress runs found no failing history"),
                      found_input=False)
        ctx.violations += 1
        rc = 1
    for name, ex in sorted(stats["screened"].items()):
        print("NOTE: %s panics when run by a single goroutine (e.g. %s): a sequential defect, left out of the concurrent mix" % (name, ex[:80]))
    for kf in lib.known_findings(pid):
        if kf["kind"] != "open":
            continue
        if kf["id"].startswith("skel:"):
            name = kf["id"][5:]
            if tr["report"].get(name, {}).get("why"):
                print("KNOWN-FINDING: property=%s %s %s [translator: %s]" % (pid, kf["id"], kf["text"], tr["report"][name]["why"]))
        else:
            print("KNOWN-FINDING: property=%s %s %s" % (pid, kf["id"], kf["text"]))
    cov["obligations"] = cov.get("obligations", 0) + nobl
    cov["discharged"] = cov.get("discharged", 0) + sum(1 for b in tr["obligations"].values() if b)
    cov["checker_cmd"] += " && translator/ -> Gen/LockSkel.v && coqc Gen/Obligations.v"
    cov.update(dict(
        evaluations=stats["ops_total"],
        traces_validated_against_impl=len(stats["phases"]),
        distinct_nontrivial=len(stats["nontrivial"]),
        ops_in_decided_components=stats["ops_checked"],
        rule=rule,
        samples=samples or ["(none)"],
        executors_translated=len(tr["report"]),
        executors_known_open=tr["known"],
        translator_obligations=tr["obligations"],
        components_checked=stats["components_checked"], components_unchecked=stats["components_unchecked"],
        components_over_budget=stats["components_budget"], ops_unchecked=stats["ops_unchecked"],
        unmodelled_commands=sorted(stats["unmodelled"]), search_nodes=stats["search_nodes"],
        lock_events=stats["lock_events"], sections=stats["sections"], sections_matched=stats["sections_matched"],
        exists_checked=stats["exists_checked"], phases=sorted(set(stats["phases"])),
        commands_exercised=sorted(stats["commands"]),
        excluded_sequentially_crashing=stats["screened"],
        slow_phases_inconclusive=stats["slow_phases"], unreproduced_timing_verdicts=stats["unreproduced_timing"],
        correspondence=title,
    ))
    lib.write_evidence(pid, ctx.tier, ctx.seed, cov, ASSUME, ctx.wall(), ctx.violations)
    return rc


