"""C12 — sorted sets keep one score per member, ordered output, valid AVL (DESIGN.md section 3, C12)."""
from . import gen_zset, memlib

PID = "C12"


def make_cases(tier, seed):
    return gen_zset.gen_c12(seed, tier)


def run(ctx):
    return memlib.run_family(
        ctx, PID, make_cases, wire_every=2,
        rule="seeded random programs of ZADD (all options, both letter cases) / ZREM / ZRANGE (negative and out-of-range "
             "windows, REV, WITHSCORES, malformed options) / ZRANK over 1-3 keys with many tied scores, plus shaped programs "
             "(ascending / descending / zigzag / random insertion orders of 3-40 scores, then deletions of roots and inner "
             "nodes and score updates), programs naming one member several times in one ZADD, deletion-pattern programs on trees of 8-64 scores (insertion order, reverse, min/max first, middle outwards, every second, random; all ordered pairs of deletions on one small tree) and TTL programs; the keyspace dump after every step carries the AVL tree node for "
             "node with stored heights, len and dict",
        extra_tb=["float64 scores are modelled as exact decimals: the generated domain is restricted to <= 15 significant "
                  "digits, no negative zero, INCR only on multiples of 1/8 (where float64 addition is exact)"])
