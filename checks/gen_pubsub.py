"""Generator of sequential pub/sub programs for C19 (input of `harness_pubsub seq`).
All randomness derives from the seed (VERIF_SEED)."""
import random


def hx(b):
    return b.hex() if b else "-"


CHANNELS = [b"x", b"y", b"", b"a\r\nb", b"\x00\xff", b"news.*", b"message", b"c" * 300, b"$7\r\nmessage\r\n"]
PAYLOADS = [b"", b"hello", b"\r\n", b"a\r\nb", b"\x00", b"\xff\xfe\x00", b"+OK\r\n", b"$5\r\n", b":1\r\n",
            b"*3\r\n$7\r\nmessage\r\n$1\r\nx\r\n$1\r\nz\r\n", b"-ERR x\r\n", b" ", b"\n", b"\r"]


def gen_case(r, cid, long_ok=True):
    nch = r.randint(1, 3)
    chans = r.sample(CHANNELS, nch)
    nconn = r.randint(2, 5)
    live = list(range(1, nconn + 1))
    nxt = nconn + 1
    subs = set()
    lines = []
    nops = r.randint(3, 28)
    for _ in range(nops):
        if not live:
            live.append(nxt)
            nxt += 1
        x = r.random()
        c = r.choice(live)
        if x < 0.30:
            k = 1 if r.random() < 0.8 else r.randint(2, 3)
            cs = [r.choice(chans) for _ in range(k)]
            if k > 1 and r.random() < 0.3:        # the same channel twice in one command (a a / a b a)
                cs[-1] = cs[0]
            if subs and r.random() < 0.25:       # repeat an existing subscription on purpose
                c, ch0 = r.choice(sorted(subs))
                cs[0] = ch0
            lines.append("S %d %s" % (c, " ".join(hx(ch) for ch in cs)))
            for ch in cs:
                subs.add((c, ch))
        elif x < 0.72:
            y = r.random()
            if y < 0.75:
                m = r.choice(PAYLOADS)
            elif y < 0.93 or not long_ok:
                m = bytes(r.getrandbits(8) for _ in range(r.randint(1, 40)))
            elif y < 0.99:
                m = bytes(r.getrandbits(8) for _ in range(r.randint(1000, 9000)))
            else:
                m = bytes(r.getrandbits(8) for _ in range(70000))
            lines.append("P %d %s %s" % (c, hx(r.choice(chans)), hx(m)))
        elif x < 0.84:
            if subs and r.random() < 0.8:
                c, ch = r.choice(sorted(subs))
            else:
                ch = r.choice(chans)
            lines.append("U %d %s" % (c, hx(ch)))
            subs.discard((c, ch))
        else:
            lines.append("%s %d" % ("D" if r.random() < 0.5 else "K", c))
            live.remove(c)
            subs = {(a, b) for (a, b) in subs if a != c}
            if r.random() < 0.5:
                live.append(nxt)
                nxt += 1
    return ["CASE %s" % cid] + lines + ["END"]


def fixed_cases(api=True):
    """the situations named in the property / found defective at the pinned commit"""
    x, y = hx(b"x"), hx(b"y")
    cs = [
        ["S 1 " + x, "S 1 " + x, "P 2 " + x + " " + hx(b"once")],                         # repeated SUBSCRIBE
        ["S 1 " + x, "S 2 " + x, "D 1", "P 3 " + x + " 01", "P 3 " + x + " 02"],          # client went away
        ["S 1 " + x, "S 2 " + x, "K 1", "P 3 " + x + " 01", "P 3 " + x + " 02"],          # dead connection
        ["S 1 " + x, "S 2 " + x, "K 1", "P 3 " + x + " 01", "D 2", "S 4 " + x, "P 3 " + x + " 02"],
        ["S 1 %s %s" % (x, y), "P 2 " + y + " " + hx(b"a\r\nb\x00\xff"), "P 2 " + x + " -"],   # framing
        ["P 1 " + x + " 00"],                                                           # nobody listens
        ["S 1 " + x, "U 1 " + x, "P 2 " + x + " 01", "S 1 " + x, "P 2 " + x + " 02"],     # leave and come back
        ["S 1 " + x, "P 1 " + x + " " + hx(b"self")],                                    # publisher is subscribed
        ["S 1 " + x, "S 2 " + y, "P 3 " + x + " 01", "P 3 " + y + " 02"],                 # no other connection
        ["S 1 " + x, "K 1", "S 2 " + x, "U 2 " + x, "S 3 " + x, "P 4 " + x + " 01"],      # retire / re-create channel
        # one SUBSCRIBE naming a channel more than once: one confirmation per occurrence, one subscription
        ["S 1 %s %s" % (x, y), "S 2 %s %s" % (x, x), "P 3 " + x + " " + hx(b"m2"), "P 3 " + y + " 01"],
        ["S 1 %s %s %s" % (x, y, x), "P 2 " + x + " 01", "P 2 " + y + " 02", "S 1 " + x, "P 2 " + x + " 03"],
        ["S 1 %s %s" % (x, x), "D 1", "S 2 " + x, "P 3 " + x + " 01"],
        # unsubscribing what is not subscribed changes nothing; subscribing again in a later command
        ["S 1 " + x, "U 1 " + y, "U 2 " + x, "P 3 " + x + " 01", "U 1 " + x, "U 1 " + x, "P 3 " + x + " 02", "S 1 " + x, "S 1 " + x, "P 3 " + x + " 03"],
    ]
    cs = [c for c in cs if api or not any(l.startswith("U ") for l in c)]
    return [["CASE f%d" % i] + c + ["END"] for i, c in enumerate(cs)]


def gen_programs(seed, n, api=True):
    """api=False: programs for the command-level harness (no API-level U operation)."""
    r = random.Random(seed * 1000003 + 19)
    cases = fixed_cases(api)
    for i in range(n):
        c = gen_case(r, "g%d" % i)
        if not api:
            c = [l for l in c if not l.startswith("U ")]
        cases.append(c)
    return cases


def valid(lines):
    """no operation on a connection after it was closed (D/K)"""
    dead = set()
    for l in lines:
        f = l.split()
        if f[0] in ("CASE", "END"):
            continue
        if f[1] in dead:
            return False
        if f[0] in ("D", "K"):
            dead.add(f[1])
    return True
