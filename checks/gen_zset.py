"""Program generators for the sorted-set commands (C12).  One PRNG, seeded by VERIF_SEED.

Domain of the scores (what the model states exactly, see coq/Mem/ZSets.v parse_score):
decimals with at most 15 significant digits and small exponents, the infinities in every
spelling Go's ParseFloat accepts, and the rejected words (nan, empty, junk).  Not generated,
because float64 and the exact-decimal model part ways there: more than 15 significant digits,
exponents beyond +-20, negative zero, hexadecimal floats, digit-separating underscores.
ZADD INCR is generated only in "dyadic" cases, where every score is a multiple of 1/8 of small
magnitude, so that float64 addition is exact.
"""
import random

from .gen import Case, pick, randcase, SLEEPS

DYADIC = [b"0", b"1", b"2", b"3", b"4", b"5", b"6", b"7", b"8", b"9", b"10", b"-1", b"-2", b"-3", b"1.5", b"2.5",
          b"-0.5", b"0.25", b"0.125", b"100", b"-100", b"3.0", b"1e2", b"+2", b"00012", b"2.", b".5", b"-.5",
          b"1E+1", b"25e-1", b"1000000", b"-7.75", b"0.0", b"12.50"]
DECIMAL = [b"0.1", b"0.2", b"0.3", b"-0.3", b"3.14", b"2.718281828", b"1e-3", b"123456.789", b"0.30", b"1.10",
           b"-1e-7", b"0.0000001", b"99999.99999", b"1e20", b"-1e20", b"123456789012345", b"0.123456789012345",
           b"1.7e10", b"5e-5", b"33.333"]
INFS = [b"inf", b"+inf", b"-inf", b"Inf", b"INF", b"-INF", b"infinity", b"-Infinity", b"+INFINITY"]
BADSCORES = [b"nan", b"NaN", b"NAN", b"+nan", b"", b"abc", b"1.2.3", b"1e", b"e5", b"--1", b" 1", b"1 ", b".", b"-",
             b"+", b"in", b"infinit", b"infinityy", b"1e+", b"1x", b"0x", b"\r\n", b"1,5"]
MEMBERS = [b"a", b"b", b"c", b"d", b"A", b"B", b"", b"x\r\ny", b"\n", b"ab", b"aa", b"a\x00", b"\xff", b"\x80",
           b"nx", b"incr", b"limit", b"withscores", b"1", b"-1"]
KEYS = [b"z", b"Z", b"zs", b"Zs", b"other", b"", b"k\r\n"]
IDX = [b"0", b"1", b"2", b"3", b"4", b"5", b"7", b"10", b"-1", b"-2", b"-3", b"-4", b"-5", b"-8", b"-100", b"100",
       b"9223372036854775807", b"-9223372036854775808"]
BADIDX = [b"x", b"", b"1.5", b"9223372036854775808", b"(1", b"+inf"]
ZOPTS = [b"nx", b"xx", b"gt", b"lt", b"ch", b"incr"]


def member(r, big=False):
    if big and r.random() < 0.7:
        return b"m%02d" % r.randrange(40)
    return pick(r, MEMBERS)


def score(r, mode, special=0.08):
    x = r.random()
    if x < special:
        return pick(r, INFS)
    if x < special + 0.04:
        return pick(r, BADSCORES)
    if mode == "dyadic":
        if r.random() < 0.5:
            return b"%d" % r.randrange(-6, 30)
        return pick(r, DYADIC)
    if r.random() < 0.3:
        return b"%d.%d" % (r.randrange(0, 50), r.randrange(1, 1000))
    return pick(r, DECIMAL + DYADIC)


def zadd_cmd(r, key, mode, big=False):
    a = [randcase(r, b"zadd"), key]
    nopt = r.choice([0, 0, 0, 1, 1, 2, 3])
    opts = []
    for _ in range(nopt):
        o = pick(r, ZOPTS)
        if o == b"incr" and mode != "dyadic":
            continue
        opts.append(randcase(r, o))
    a += opts
    single = any(o.lower() == b"incr" for o in opts) and r.random() < 0.9
    for _ in range(1 if single else r.choice([1, 1, 1, 2, 2, 3, 4])):
        a += [score(r, mode), member(r, big)]
    if r.random() < 0.03:
        a.append(member(r))          # odd number of pair arguments
    if r.random() < 0.02:
        a.append(randcase(r, pick(r, ZOPTS)))   # an option word where a score is expected
    return a


def zrange_cmd(r, key):
    a = [randcase(r, b"zrange"), key, pick(r, IDX), pick(r, IDX)]
    if r.random() < 0.05:
        a[r.choice([2, 3])] = pick(r, BADIDX)
    for _ in range(r.choice([0, 0, 1, 1, 2, 3])):
        x = r.random()
        if x < 0.45:
            a.append(randcase(r, b"withscores"))
        elif x < 0.85:
            a.append(randcase(r, b"rev"))
        elif x < 0.89:
            a.append(randcase(r, b"bylex"))
        elif x < 0.92:
            a.append(randcase(r, b"byscore"))
        elif x < 0.97:
            a.append(randcase(r, b"limit"))
            for _ in range(r.choice([0, 1, 2, 2, 2])):
                a.append(pick(r, [b"0", b"1", b"2", b"-1", b"x", b"10"]))
        else:
            a.append(pick(r, [b"bogus", b"", b"with", b"0"]))
    return a


def zset_cmd(r, keys, mode, big=False):
    k = lambda: pick(r, keys)
    c = r.randrange(100)
    if c < 40:
        return zadd_cmd(r, k(), mode, big)
    if c < 54:
        return [randcase(r, b"zrem"), k()] + [member(r, big) for _ in range(r.choice([1, 1, 1, 2, 3]))]
    if c < 72:
        return zrange_cmd(r, k())
    if c < 84:
        return [randcase(r, b"zrank"), k(), member(r, big)]
    if c < 87:
        return [pick(r, [b"type", b"exists", b"ttl", b"del", b"persist"]), k()]
    if c < 90:
        return [b"expire", k(), pick(r, [b"1", b"2", b"100", b"0"])]
    if c < 92:
        return [b"rename", k(), k()]
    if c < 94:
        return [b"keys", b"*"]
    if c < 95:
        return [pick(r, [b"set", b"get", b"lpush", b"llen"]), k(), b"v"][:r.choice([2, 3])]
    # malformed arity
    name = pick(r, [b"zadd", b"zrem", b"zrange", b"zrank", b"ZADD", b"ZRANGE"])
    return [name] + [pick(r, MEMBERS + IDX[:16] + DYADIC) for _ in range(r.randrange(0, 4))]   # no 19-digit scores


def gen_random(seed, ncases, maxlen=40):
    r = random.Random(seed)
    cases = []
    for i in range(ncases):
        c = Case("c12r_%d_%d" % (seed, i))
        keys = r.sample(KEYS, r.randrange(1, 4))
        mode = r.choice(["dyadic", "dyadic", "decimal"])
        big = r.random() < 0.4
        if r.random() < 0.15:
            c.cmd([b"set", keys[-1], b"str"])
        elif r.random() < 0.05:
            c.cmd([b"rpush", keys[-1], b"e"])
        for _ in range(r.randrange(1, maxlen + 1)):
            c.cmd(zset_cmd(r, keys, mode, big), sleep_ms=pick(r, SLEEPS) if r.random() < 0.12 else 0)
            c.dump()
        cases.append(c)
    return cases


def gen_shapes(seed, ncases):
    """Insertion orders that drive every rotation, then deletions of roots / inner nodes / leaves,
    score updates that move a member across the tree; the tree is dumped after every step."""
    r = random.Random(seed ^ 0x5A5A)
    cases = []
    for i in range(ncases):
        c = Case("c12s_%d_%d" % (seed, i))
        key = pick(r, [b"z", b"Z", b"t"])
        n = r.choice([3, 4, 5, 6, 7, 8, 10, 12, 15, 16, 20, 25, 31, 33, 40])
        vals = list(range(n))
        order = r.choice(["asc", "desc", "zigzag", "rand", "rand", "inout"])
        if order == "desc":
            vals.reverse()
        elif order == "zigzag":
            vals = [v for p in zip(vals[:n // 2], reversed(vals[n // 2:])) for v in p] + ([vals[n // 2]] if n % 2 else [])
            vals = list(dict.fromkeys(vals))
        elif order == "rand":
            r.shuffle(vals)
        elif order == "inout":
            mid = n // 2
            vals = sorted(vals, key=lambda v: abs(v - mid))
        ties = r.random() < 0.5
        names = {}
        for v in vals:
            sc = b"%d" % (v // 2 if ties else v)
            m = b"m%02d" % v
            names[m] = sc
            if r.random() < 0.8:
                c.cmd([b"zadd", key, sc, m])
            else:
                m2 = b"n%02d" % v
                names[m2] = sc
                c.cmd([b"zadd", key, sc, m, sc, m2])
            c.dump()
        c.cmd([b"zrange", key, b"0", b"-1", b"withscores"])
        for _ in range(r.randrange(3, 3 + n)):
            x = r.random()
            ms = sorted(names)
            if x < 0.45 and ms:
                m = pick(r, ms)
                del names[m]
                c.cmd([b"zrem", key, m])
            elif x < 0.7 and ms:
                m = pick(r, ms)
                sc = b"%d" % r.randrange(-3, n + 3)
                names[m] = sc
                c.cmd([b"zadd", key] + ([randcase(r, pick(r, [b"ch", b"xx", b"gt", b"lt"]))] if r.random() < 0.4 else []) + [sc, m])
            elif x < 0.8 and ms:
                c.cmd([b"zadd", key, b"incr", pick(r, [b"1", b"-1", b"2.5", b"100", b"-100", b"0"]), pick(r, ms)])
            elif x < 0.9:
                c.cmd([b"zrank", key, pick(r, ms) if ms else b"none"])
            else:
                a = [b"zrange", key, pick(r, IDX), pick(r, IDX)]
                if r.random() < 0.5:
                    a.append(b"rev")
                if r.random() < 0.5:
                    a.append(b"withscores")
                c.cmd(a)
            c.dump()
        for m in sorted(names):
            if r.random() < 0.5:
                c.cmd([b"zrank", key, m])
        c.cmd([b"zrange", key, b"0", b"-1", b"withscores", b"rev"])
        if r.random() < 0.5:
            ms = sorted(names)
            r.shuffle(ms)
            for m in ms:
                c.cmd([b"zrem", key, m])
                c.dump()
            c.cmd([b"exists", key])
        c.dump()
        cases.append(c)
    return cases


def gen_ttl(seed, ncases):
    r = random.Random(seed ^ 0x77)
    cases = []
    for i in range(ncases):
        c = Case("c12t_%d_%d" % (seed, i))
        key = pick(r, [b"z", b"Z"])
        c.cmd([b"zadd", key, b"1", b"a", b"2", b"b", b"2", b"c"])
        c.cmd([b"expire", key, pick(r, [b"1", b"2", b"3"])])
        c.dump()
        for _ in range(r.randrange(2, 10)):
            cmd = r.choice([
                [b"zadd", key, pick(r, DYADIC), member(r)],
                [b"zadd", key, b"xx", b"ch", pick(r, DYADIC), pick(r, [b"a", b"b", b"q"])],
                [b"zrange", key, b"0", b"-1", b"withscores"],
                [b"zrank", key, pick(r, [b"a", b"b", b"c"])],
                [b"zrem", key, pick(r, [b"a", b"b", b"c"])],
                [b"ttl", key], [b"type", key], [b"exists", key], [b"persist", key],
            ])
            c.cmd(cmd, sleep_ms=pick(r, [0, 0, 400, 700, 1000, 1600]))
            c.dump()
        cases.append(c)
    return cases


def gen_dups(seed, ncases):
    """One ZADD naming the same member several times (the later pair sees the effect of the earlier
    one), with every option, on new and existing keys, mixed with other members."""
    r = random.Random(seed ^ 0xD0B1)
    cases = []
    for i in range(ncases):
        c = Case("c12d_%d_%d" % (seed, i))
        key = pick(r, [b"z", b"Z", b"dd"])
        if r.random() < 0.6:
            c.cmd([b"zadd", key] + [x for v in range(r.randrange(1, 9)) for x in (b"%d" % (v // 2), b"m%02d" % v)])
            c.dump()
        for _ in range(r.randrange(1, 5)):
            m = pick(r, [b"a", b"A", b"m00", b"m01", b"m03", b"", b"x\r\ny"])
            a = [randcase(r, b"zadd"), key]
            for _ in range(r.choice([0, 0, 1, 1, 2])):
                a.append(randcase(r, pick(r, [b"nx", b"xx", b"gt", b"lt", b"ch"])))
            pairs = []
            for _ in range(r.randrange(2, 5)):
                pairs.append([score(r, "dyadic", special=0.1), m])
            for _ in range(r.choice([0, 0, 1, 2])):
                pairs.insert(r.randrange(len(pairs) + 1), [score(r, "dyadic", special=0.05), member(r, True)])
            if r.random() < 0.15:
                pairs.append([pairs[0][0], randcase(r, m)])      # same name in another letter case
            for p in pairs:
                a += p
            c.cmd(a)
            c.dump()
            c.cmd([b"zrange", key, b"0", b"-1", b"withscores"])
            c.cmd([b"zrank", key, m])
        if r.random() < 0.5:
            c.cmd([b"zrem", key, m, m])
            c.dump()
        cases.append(c)
    return cases


def _orders(r, n):
    vals = list(range(n))
    kind = r.choice(["asc", "desc", "rand", "rand", "inout", "evenodd"])
    if kind == "desc":
        vals.reverse()
    elif kind == "rand":
        r.shuffle(vals)
    elif kind == "inout":
        vals.sort(key=lambda v: abs(v - n // 2))
    elif kind == "evenodd":
        vals = vals[::2] + vals[1::2]
    return vals


def gen_deletions(seed, ncases):
    """Trees of 8-64 distinct scores, then deletion sequences chosen to hit every case of deleteNode
    (leaf, one child, two children whose successor is a leaf / has a right child / is the right
    child itself) and every rebalancing case on the way back (single and double rotations, child
    balance 0): delete in insertion order, in reverse, minimum / maximum repeatedly, from the middle
    outwards, every second member, random permutations -- dumped after every deletion."""
    r = random.Random(seed ^ 0xDE1E)
    cases = []
    for i in range(ncases):
        c = Case("c12x_%d_%d" % (seed, i))
        key = b"t"
        n = r.choice([8, 9, 10, 11, 12, 13, 15, 16, 17, 20, 24, 31, 32, 33, 48, 64])
        ins = _orders(r, n)
        if r.random() < 0.5:
            c.cmd([b"zadd", key] + [x for v in ins for x in (b"%d" % v, b"m%02d" % v)])
            c.dump()
        else:
            for v in ins:
                c.cmd([b"zadd", key, b"%d" % v, b"m%02d" % v])
            c.dump()
        kind = r.choice(["ins", "rev", "min", "max", "mid", "second", "rand", "rand", "rand"])
        dels = list(range(n))
        if kind == "ins":
            dels = list(ins)
        elif kind == "rev":
            dels = list(reversed(ins))
        elif kind == "max":
            dels.reverse()
        elif kind == "mid":
            dels.sort(key=lambda v: abs(v - n // 2))
        elif kind == "second":
            dels = dels[1::2] + dels[::2]
        elif kind == "rand":
            r.shuffle(dels)
        stop = n if r.random() < 0.6 else r.randrange(n // 2, n)
        for j, v in enumerate(dels[:stop]):
            c.cmd([b"zrem", key, b"m%02d" % v])
            c.dump()
            if r.random() < 0.1:
                c.cmd([b"zrank", key, b"m%02d" % pick(r, dels)])
            if r.random() < 0.05:
                c.cmd([b"zadd", key, b"%d" % v, b"m%02d" % v])      # put it back, delete again later
                c.dump()
        c.cmd([b"zrange", key, b"0", b"-1", b"withscores"])
        c.cmd([b"exists", key])
        cases.append(c)
    return cases


def gen_delete_pairs(seed):
    """Small-scope exhaustive: one tree of n in 8..13 scores (built by one ZADD in ascending order),
    every single deletion and every ordered pair of deletions, dumped after each."""
    r = random.Random(seed ^ 0x9A12)
    n = r.randrange(8, 14)
    build = [b"zadd", b"t"] + [x for v in range(n) for x in (b"%d" % v, b"m%02d" % v)]
    cases = []
    for a in range(n):
        for b in range(n):
            if a == b:
                continue
            c = Case("c12p_%d_%d_%d_%d" % (seed, n, a, b))
            c.cmd(build)
            c.cmd([b"zrem", b"t", b"m%02d" % a])
            c.dump()
            c.cmd([b"zrem", b"t", b"m%02d" % b])
            c.dump()
            cases.append(c)
    return cases


def gen_c12(seed, tier):
    if tier == "quick":
        return (gen_shapes(seed, 500) + gen_random(seed, 3500) + gen_ttl(seed, 250) + gen_dups(seed, 400)
                + gen_deletions(seed, 300) + gen_delete_pairs(seed))
    return (gen_shapes(seed, 4000) + gen_random(seed, 24000, maxlen=60) + gen_ttl(seed, 2000) + gen_dups(seed, 4000)
            + gen_deletions(seed, 4000) + gen_delete_pairs(seed) + gen_delete_pairs(seed + 1) + gen_delete_pairs(seed + 2))
