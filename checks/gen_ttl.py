"""Program generators for C06: every way of attaching a deadline x every value type x every
probing command x probe instants around the deadline (virtual clock, exact to the millisecond).

A case is
    ALIGN phase                      -- fix the millisecond within the second
    create K (type T) [+ a deadline it already has]  [+ other keys O, N]
    attach (one of ATTACH)           -- at clock second s: intended deadline d = s + n
    sleep to d + offset              -- offset in {-1 s, -1 ms, 0, +1 ms, +1 s}
    probe (one of the probing commands) ; DUMP ; TTL K ; TYPE K ; DUMP
so the harness needs no knowledge of absolute time (EXAT uses the @T+n token of memx).

The type list is a parameter: TYPES maps a type name to (creator commands, probes of the family)."""
import random

from . import gen, gen_hash, gen_zset

hx = gen.hx


class Tok(str):
    """an argument passed to the harness verbatim (e.g. @T+5), not hex-encoded"""


class TCase(gen.Case):
    def cmd(self, args, conn=0, sleep_ms=0):
        self.lines.append("C %d %d %s" % (conn, sleep_ms, " ".join(a if isinstance(a, Tok) else hx(a) for a in args)))
        self.nsteps += 1

    def align(self, ms):
        self.lines.append("ALIGN %d" % ms)


K, O, N = b"k", b"other", b"newname"

# ---------------------------------------------------------------- value types
# creator(key) -> list of commands that make `key` hold a value of the type
TYPES = {
    "string": lambda k: [[b"set", k, b"10"]],
    "list": lambda k: [[b"rpush", k, b"a", b"b", b"a"]],
    "hash": lambda k: [[b"hset", k, b"f", b"1", b"g", b"v"]],
    "zset": lambda k: [[b"zadd", k, b"1", b"a", b"2", b"b", b"2", b"c"]],
    "set": lambda k: [[b"sadd", k, b"a", b"b", b"c"]],
    "stream": lambda k: [[b"xadd", k, b"5-1", b"f", b"v"], [b"xadd", k, b"5-2", b"g", b"w"]],
}
# types the Coq model covers today; sets/streams are added by extending TYPES and PROBES
# (and c06.MODEL_TYPES / MODEL_FAMILIES)
DEFAULT_TYPES = ["string", "list", "hash", "zset", "set", "stream"]

# ---------------------------------------------------------------- probing commands
# name -> (family, command as a function of nothing); K is the key under test, O an existing
# string key without deadline, N a name that does not exist
PROBES = {
    # reads, strings
    "get": ("string", [[b"get", K]]),
    "getrange": ("string", [[b"getrange", K, b"0", b"-1"]]),
    "strlen": ("string", [[b"strlen", K]]),
    "mget": ("string", [[b"mget", O, K, N, K]]),
    # writes, strings
    "append": ("string", [[b"append", K, b"x"]]),
    "incr": ("string", [[b"incr", K]]),
    "decr": ("string", [[b"decr", K]]),
    "incrby": ("string", [[b"incrby", K, b"5"]]),
    "decrby": ("string", [[b"decrby", K, b"5"]]),
    "setrange": ("string", [[b"setrange", K, b"1", b"Z"]]),
    "setnx": ("string", [[b"setnx", K, b"fresh"]]),
    "set": ("string", [[b"set", K, b"w"]]),
    "set_nx": ("string", [[b"set", K, b"w", b"NX"]]),
    "set_xx": ("string", [[b"set", K, b"w", b"XX"]]),
    "set_keepttl": ("string", [[b"set", K, b"w", b"KEEPTTL"]]),
    "set_get": ("string", [[b"set", K, b"w", b"GET"]]),
    "set_xx_get_ex": ("string", [[b"set", K, b"w", b"xx", b"get", b"ex", b"7"]]),
    "setex": ("string", [[b"setex", K, b"5", b"w"]]),
    "mset": ("string", [[b"mset", O, b"x", K, b"y"]]),
    # generic key commands
    "del": ("key", [[b"del", K]]),
    "del_multi": ("key", [[b"del", N, K, O, K]]),
    "exists": ("key", [[b"exists", K]]),
    "exists_multi": ("key", [[b"exists", K, O, K, N]]),
    "type": ("key", [[b"type", K]]),
    "ttl": ("key", [[b"ttl", K]]),
    "persist": ("key", [[b"persist", K]]),
    "expire": ("key", [[b"expire", K, b"10"]]),
    "expire_nx": ("key", [[b"expire", K, b"10", b"NX"]]),
    "expire_xx": ("key", [[b"expire", K, b"10", b"xx"]]),
    "expire_gt": ("key", [[b"expire", K, b"10", b"GT"]]),
    "expire_lt": ("key", [[b"expire", K, b"10", b"lt"]]),
    "expire_neg": ("key", [[b"expire", K, b"-1"]]),
    "rename_from": ("key", [[b"rename", K, N]]),
    "rename_onto": ("key", [[b"rename", O, K]]),
    "rename_self": ("key", [[b"rename", K, K]]),
    "keys": ("key", [[b"keys", b"*"]]),
    "keys_k": ("key", [[b"keys", b"k*"]]),
    # lists: reads
    "llen": ("list", [[b"llen", K]]),
    "lindex": ("list", [[b"lindex", K, b"0"]]),
    "lrange": ("list", [[b"lrange", K, b"0", b"-1"]]),
    "lpos": ("list", [[b"lpos", K, b"a"]]),
    "lpos_count": ("list", [[b"lpos", K, b"a", b"COUNT", b"0"]]),
    # lists: writes
    "lpush": ("list", [[b"lpush", K, b"x"]]),
    "rpush": ("list", [[b"rpush", K, b"x", b"y"]]),
    "lpushx": ("list", [[b"lpushx", K, b"x"]]),
    "rpushx": ("list", [[b"rpushx", K, b"x"]]),
    "lpop": ("list", [[b"lpop", K]]),
    "rpop": ("list", [[b"rpop", K]]),
    "lpop_n": ("list", [[b"lpop", K, b"5"]]),
    "lset": ("list", [[b"lset", K, b"0", b"z"]]),
    "lrem": ("list", [[b"lrem", K, b"0", b"a"]]),
    "ltrim": ("list", [[b"ltrim", K, b"0", b"0"]]),
    "ltrim_empty": ("list", [[b"ltrim", K, b"5", b"9"]]),
    "lmove_from": ("list", [[b"lmove", K, N, b"left", b"right"]]),
    "lmove_onto": ("list", [[b"rpush", b"src", b"s1"], [b"lmove", b"src", K, b"RIGHT", b"LEFT"]]),
    "lmove_self": ("list", [[b"lmove", K, K, b"left", b"right"]]),
    "blpop": ("list", [[b"blpop", K, b"1"]]),
    "brpop_multi": ("list", [[b"brpop", N, K, O, b"1"]]),
    "blpop_2": ("list", [[b"blpop", K, N, b"2"]]),
    # hashes: reads
    "hget": ("hash", [[b"hget", K, b"f"]]),
    "hmget": ("hash", [[b"hmget", K, b"f", b"nofield", b"g"]]),
    "hgetall": ("hash", [[b"hgetall", K]]),
    "hkeys": ("hash", [[b"hkeys", K]]),
    "hvals": ("hash", [[b"hvals", K]]),
    "hlen": ("hash", [[b"hlen", K]]),
    "hexists": ("hash", [[b"hexists", K, b"f"]]),
    "hstrlen": ("hash", [[b"hstrlen", K, b"g"]]),
    "hrandfield": ("hash", [[b"hrandfield", K]]),
    "hrandfield_n": ("hash", [[b"hrandfield", K, b"-3", b"WITHVALUES"]]),
    # hashes: writes
    "hset": ("hash", [[b"hset", K, b"f", b"9", b"new", b"x"]]),
    "hsetnx": ("hash", [[b"hsetnx", K, b"f", b"fresh"]]),
    "hdel": ("hash", [[b"hdel", K, b"f"]]),
    "hdel_all": ("hash", [[b"hdel", K, b"f", b"g", b"f"]]),
    "hincrby": ("hash", [[b"hincrby", K, b"f", b"5"]]),
    "hincrbyfloat": ("hash", [[b"hincrbyfloat", K, b"f", b"0.5"]]),
    # sorted sets
    "zrange": ("zset", [[b"zrange", K, b"0", b"-1", b"WITHSCORES"]]),
    "zrange_rev": ("zset", [[b"zrange", K, b"0", b"0", b"rev"]]),
    "zrank": ("zset", [[b"zrank", K, b"b"]]),
    "zadd": ("zset", [[b"zadd", K, b"5", b"e"]]),
    "zadd_xx_ch": ("zset", [[b"zadd", K, b"XX", b"CH", b"7", b"a"]]),
    "zadd_nx": ("zset", [[b"zadd", K, b"nx", b"7", b"a", b"8", b"n"]]),
    "zadd_incr": ("zset", [[b"zadd", K, b"incr", b"1.5", b"a"]]),
    "zrem": ("zset", [[b"zrem", K, b"a"]]),
    "zrem_all": ("zset", [[b"zrem", K, b"a", b"b", b"c"]]),
    # sets: reads (O2 = a second set without deadline, created by the probe itself)
    "scard": ("set", [[b"scard", K]]),
    "sismember": ("set", [[b"sismember", K, b"a"]]),
    "smembers": ("set", [[b"smembers", K]]),
    "srandmember": ("set", [[b"srandmember", K]]),
    "srandmember_n": ("set", [[b"srandmember", K, b"-4"]]),
    "sunion": ("set", [[b"sadd", b"s2", b"b", b"z"], [b"sunion", K, b"s2", N]]),
    "sinter": ("set", [[b"sadd", b"s2", b"b", b"z"], [b"sinter", b"s2", K]]),
    "sdiff": ("set", [[b"sadd", b"s2", b"b", b"z"], [b"sdiff", b"s2", K]]),
    # sets: writes
    "sadd": ("set", [[b"sadd", K, b"a", b"n"]]),
    "srem": ("set", [[b"srem", K, b"a"]]),
    "srem_all": ("set", [[b"srem", K, b"a", b"b", b"c"]]),
    "spop": ("set", [[b"spop", K]]),
    "spop_n": ("set", [[b"spop", K, b"5"]]),
    "smove_from": ("set", [[b"smove", K, N, b"a"]]),
    "smove_onto": ("set", [[b"sadd", b"s2", b"b", b"z"], [b"smove", b"s2", K, b"z"]]),
    "smove_self": ("set", [[b"smove", K, K, b"a"]]),
    "sunionstore_onto": ("set", [[b"sadd", b"s2", b"b", b"z"], [b"sunionstore", K, b"s2", N]]),
    "sinterstore_from": ("set", [[b"sadd", b"s2", b"b", b"z"], [b"sinterstore", N, b"s2", K]]),
    "sdiffstore_self": ("set", [[b"sadd", b"s2", b"b", b"z"], [b"sdiffstore", K, K, b"s2"]]),
    "sdiffstore_empty": ("set", [[b"sdiffstore", K, N, N]]),
    # streams
    "xrange": ("stream", [[b"xrange", K, b"-", b"+"]]),
    "xrange_count": ("stream", [[b"xrange", K, b"5-2", b"+", b"COUNT", b"1"]]),
    "xadd_auto": ("stream", [[b"xadd", K, b"*", b"f", b"v"]]),
    "xadd_explicit": ("stream", [[b"xadd", K, b"99999999999999-0", b"f", b"v"]]),
    "xadd_nomkstream": ("stream", [[b"xadd", K, b"NOMKSTREAM", b"*", b"f", b"v"]]),
    "xadd_maxlen": ("stream", [[b"xadd", K, b"MAXLEN", b"1", b"*", b"f", b"v"]]),
    "xadd_small": ("stream", [[b"xadd", K, b"1-1", b"f", b"v"]]),
}
DEFAULT_FAMILIES = ["string", "key", "list", "hash", "zset", "set", "stream"]

OFFSETS = [("d-1s", -1000), ("d-1ms", -1), ("d", 0), ("d+1ms", 1), ("d+1s", 1000)]


# ---------------------------------------------------------------- ways of attaching a deadline
def attach_ways(typ):
    """list of (name, pre-existing ttl seconds or None, commands, [candidate deadline offsets in s])
    `commands` run at the aligned instant; candidate deadlines are seconds after that instant's
    clock second at which the key may be due to disappear (probed one by one)."""
    ways = []
    for opt in (None, b"NX", b"xx", b"Gt", b"LT"):
        for pre in (None, 1, 4):
            cmd = [b"expire", K, b"2"] + ([opt] if opt else [])
            cands = [2] + ([pre] if pre else [])
            ways.append(("expire_%s_pre%s" % ((opt or b"none").decode().lower(), pre), pre, [cmd], cands))
    ways.append(("expire_0", None, [[b"expire", K, b"0"]], [0]))
    ways.append(("expire_neg", 3, [[b"expire", K, b"-5"]], [0, 3]))
    ways.append(("expire_twice", None, [[b"expire", K, b"1"], [b"expire", K, b"3"]], [1, 3]))
    ways.append(("expire_persist", None, [[b"expire", K, b"1"], [b"persist", K]], [1]))
    ways.append(("expire_persist_expire", None, [[b"expire", K, b"1"], [b"persist", K], [b"expire", K, b"2", b"nx"]], [1, 2]))
    # overwriting forms: valid on any type for SETEX/SET (SET on a non-string is WRONGTYPE)
    ways.append(("setex", None, [[b"setex", K, b"2", b"v"]], [2]))
    ways.append(("setex_pre", 4, [[b"setex", K, b"1", b"v"]], [1, 4]))
    ways.append(("set_ex", None, [[b"set", K, b"v", b"EX", b"2"]], [2]))
    ways.append(("set_ex_pre", 1, [[b"set", K, b"v", b"ex", b"3"]], [1, 3]))
    for px in (1, 999, 1000, 1001, 1500, 2000):
        ways.append(("set_px_%d" % px, None, [[b"set", K, b"v", b"PX", str(px).encode()]], [(px + 999) // 1000]))
    ways.append(("set_exat", None, [[b"set", K, b"v", b"EXAT", Tok("@T+2")]], [2]))
    ways.append(("set_exat_past", None, [[b"set", K, b"v", b"exat", Tok("@T-1")]], [0]))
    ways.append(("set_keepttl", 2, [[b"set", K, b"v", b"KEEPTTL"]], [2]))
    ways.append(("set_plain_drops", 1, [[b"set", K, b"v"]], [1]))
    ways.append(("set_nx_keeps", 1, [[b"set", K, b"v", b"NX"]], [1]))
    ways.append(("set_xx_get_drops", 1, [[b"set", K, b"v", b"XX", b"GET"]], [1]))
    ways.append(("mset_drops", 1, [[b"mset", K, b"v", O, b"o"]], [1]))
    ways.append(("append_keeps", 2, [[b"append", K, b"1"]], [2]))
    ways.append(("incr_keeps", 2, [[b"incr", K]], [2]))
    ways.append(("rpush_keeps", 2, [[b"rpush", K, b"z"]], [2]))
    ways.append(("lpop_keeps", 2, [[b"lpop", K]], [2]))
    ways.append(("lmove_self_keeps", 2, [[b"lmove", K, K, b"left", b"right"]], [2]))
    ways.append(("hset_keeps", 2, [[b"hset", K, b"n", b"1"]], [2]))
    ways.append(("hincrby_hdel_keeps", 2, [[b"hincrby", K, b"f", b"1"], [b"hdel", K, b"g"]], [2]))
    ways.append(("zadd_zrem_keeps", 2, [[b"zadd", K, b"9", b"z"], [b"zrem", K, b"a"]], [2]))
    ways.append(("sadd_srem_keeps", 2, [[b"sadd", K, b"n"], [b"srem", K, b"a"]], [2]))
    ways.append(("smove_onto_keeps", 2, [[b"sadd", b"s3", b"q"], [b"smove", b"s3", K, b"q"]], [2]))
    ways.append(("xadd_keeps", 2, [[b"xadd", K, b"*", b"f", b"v"]], [2]))
    ways.append(("sunionstore_drops", 1, [[b"sadd", b"s3", b"q"], [b"sunionstore", K, b"s3"]], [1]))
    ways.append(("sdiffstore_self_drops", 1, [[b"sdiffstore", K, K, N]], [1]))
    # RENAME of a key with a deadline onto K (which may have its own), and away and back
    creator = TYPES[typ]
    ways.append(("rename_onto", 4, creator(b"src") + [[b"expire", b"src", b"2"], [b"rename", b"src", K]], [2, 4]))
    ways.append(("rename_persistent_onto", 1, creator(b"src") + [[b"rename", b"src", K]], [1]))
    ways.append(("rename_away_back", 2, [[b"rename", K, b"tmp"], [b"rename", b"tmp", K]], [2]))
    ways.append(("rename_self", 2, [[b"rename", K, K]], [2]))
    ways.append(("del_recreate", 1, [[b"del", K]] + creator(K), [1]))
    return ways


def build_case(name, typ, way, cand, off_ms, phase, probe_cmds, dbs=1):
    wname, pre, cmds, _ = way
    c = TCase(name, dbs)
    c.align(phase)
    for cmd in TYPES[typ](K):
        c.cmd(cmd)
    c.cmd([b"set", O, b"ov"])
    if pre is not None:
        c.cmd([b"expire", K, str(pre).encode()])
    for cmd in cmds:
        c.cmd(cmd)
    c.dump()
    sleep = cand * 1000 - phase + off_ms
    first = True
    for cmd in probe_cmds:
        c.cmd(cmd, sleep_ms=max(sleep, 0) if first else 0)
        first = False
    c.dump()
    c.cmd([b"ttl", K])
    c.cmd([b"type", K])
    c.cmd([b"exists", K, O])
    c.dump()
    return c


def gen_matrix(seed, tier, types=None, families=None):
    """every (type, way, candidate deadline, offset) x probes; quick: all probes of the type's own
    family and of the generic key commands + 10 seeded probes of other families, one seeded clock
    phase; thorough: every probe, six phases."""
    r = random.Random(seed)
    types = types or DEFAULT_TYPES
    families = families or DEFAULT_FAMILIES
    probes = [(n, p[1]) for n, p in sorted(PROBES.items()) if p[0] in families]
    own = lambda typ: [(n, p[1]) for n, p in sorted(PROBES.items()) if p[0] in families and p[0] in (typ, "key")]
    foreign = lambda typ: [(n, p[1]) for n, p in sorted(PROBES.items()) if p[0] in families and p[0] not in (typ, "key")]
    cases = []
    i = 0
    for typ in types:
        for way in attach_ways(typ):
            for cand in way[3]:
                for oname, off in OFFSETS:
                    if cand * 1000 + off < 0:
                        continue
                    if tier == "quick":
                        # every probe of the key's own family and of the generic key commands,
                        # a seeded sample of the other families' probes (all of them in thorough)
                        fo = foreign(typ)
                        chosen = own(typ) + r.sample(fo, min(10, len(fo)))
                        phases = [r.choice([0, 1, 250, 500, 998, 999])]
                    else:
                        chosen = probes
                        phases = [0, 1, 250, 500, 998, 999]
                    for phase in phases:
                        if cand * 1000 - phase + off < 0:
                            continue
                        for pname, pc in chosen:
                            i += 1
                            cases.append(build_case("c06m_%s_%s_%d_%s_%s_p%d_%d" % (typ, way[0], cand, oname, pname, phase, i),
                                                    typ, way, cand, off, phase, pc))
    return cases


def gen_timer(seed, types=None):
    """the per-key timer goroutine: a key re-created / extended / persisted before its old deadline
    must survive the old timer; an expired key must stay gone 2 s after the deadline."""
    types = types or DEFAULT_TYPES
    cases = []
    for typ in types:
        mk = TYPES[typ]
        scen = {
            "overwrite_before_deadline": mk(K) + [[b"expire", K, b"1"]] + [("sleep", 500)] + [[b"del", K]] + mk(K),
            "set_over": [[b"set", K, b"v", b"EX", b"1"], ("sleep", 500), [b"set", K, b"w"]],
            "set_over_longer": [[b"set", K, b"v", b"EX", b"1"], ("sleep", 500), [b"set", K, b"w", b"EX", b"100"]],
            "persist_before_deadline": mk(K) + [[b"expire", K, b"1"], ("sleep", 500), [b"persist", K]],
            "extend_gt": mk(K) + [[b"expire", K, b"1"], ("sleep", 500), [b"expire", K, b"50", b"GT"]],
            "shorten_then_recreate": mk(K) + [[b"expire", K, b"5"], [b"expire", K, b"1", b"LT"], ("sleep", 1500)] + mk(K),
            "rename_over_expiring": mk(K) + [[b"expire", K, b"1"]] + mk(b"src") + [("sleep", 500), [b"rename", b"src", K]],
            "rename_away": mk(K) + [[b"expire", K, b"1"], ("sleep", 200), [b"rename", K, N]] + mk(K),
            "lazy_then_recreate": mk(K) + [[b"expire", K, b"1"], ("sleep", 1000), [b"exists", K]] + mk(K),
            "expired_stays_gone": mk(K) + [[b"expire", K, b"1"]],
        }
        if typ == "hash":
            scen["emptied_then_recreated"] = mk(K) + [[b"expire", K, b"1"], ("sleep", 500), [b"hdel", K, b"f", b"g"], [b"hset", K, b"n", b"1"]]
        if typ == "set":
            scen["emptied_then_recreated"] = mk(K) + [[b"expire", K, b"1"], ("sleep", 500), [b"spop", K, b"9"], [b"sadd", K, b"n"]]
            scen["store_over_expiring"] = mk(K) + [[b"expire", K, b"1"], [b"sadd", b"s2", b"q"], ("sleep", 500), [b"sunionstore", K, b"s2"]]
        if typ == "zset":
            scen["emptied_then_recreated"] = mk(K) + [[b"expire", K, b"1"], ("sleep", 500), [b"zrem", K, b"a", b"b", b"c"], [b"zadd", K, b"1", b"n"]]
        if typ == "list":
            scen["emptied_then_recreated"] = mk(K) + [[b"expire", K, b"1"], ("sleep", 500), [b"lpop", K, b"3"], [b"rpush", K, b"n"]]
            scen["blpop_emptied_then_recreated"] = [[b"rpush", K, b"one"], [b"expire", K, b"1"], [b"blpop", K, b"1"], [b"rpush", K, b"n"]]
        for sname, steps in sorted(scen.items()):
            for phase in (0, 600):
                c = TCase("c06t_%s_%s_p%d" % (typ, sname, phase))
                c.align(phase)
                sl = 0
                for s in steps:
                    if isinstance(s, tuple):
                        sl += s[1]
                        continue
                    c.cmd(s, sleep_ms=sl)
                    sl = 0
                c.dump()
                for wait in (1000, 1000, 1000):
                    c.cmd([b"type", K], sleep_ms=wait)
                    c.cmd([b"ttl", K])
                    c.cmd([b"keys", b"*"])
                    c.dump()
                cases.append(c)
    return cases


def gen_random(seed, n, types=None):
    """random TTL-heavy programs: commands of all families over few keys, with sleeps drawn around
    second boundaries."""
    r = random.Random(seed * 7919 + 13)
    types = types or DEFAULT_TYPES
    keys = [K, O, b"K", b"l"]
    ttlcmds = lambda k: [
        [b"expire", k, r.choice([b"0", b"1", b"2", b"3", b"-1"])] + r.choice([[], [], [b"nx"], [b"XX"], [b"gt"], [b"LT"]]),
        [b"persist", k], [b"ttl", k],
        [b"setex", k, r.choice([b"1", b"2"]), b"v"],
        [b"set", k, b"5"] + r.choice([[], [b"ex", b"1"], [b"PX", r.choice([b"1", b"999", b"1001", b"1500"])], [b"keepttl"],
                                      [b"exat", Tok("@T+%d" % r.choice([0, 1, 2]))], [b"nx"], [b"xx", b"get"]]),
        [b"rename", k, r.choice(keys)],
    ]
    cases = []
    for i in range(n):
        c = TCase("c06r_%d_%d" % (seed, i))
        c.align(r.choice([0, 1, 499, 500, 900, 999]))
        for _ in range(r.randrange(4, 25)):
            k = r.choice(keys)
            x = r.random()
            if x < 0.45:
                cmd = r.choice(ttlcmds(k))
            elif x < 0.6:
                cmd = r.choice(TYPES[r.choice(types)](k))
            elif x < 0.7:
                cmd = gen.list_cmd(r, keys)
            elif x < 0.8:
                cmd = gen.string_cmd(r, keys)
            elif x < 0.86:
                cmd = gen_hash.hash_cmd(r, keys, {})
            elif x < 0.92:
                cmd = gen_zset.zset_cmd(r, keys, "dyadic")
            elif x < 0.97:
                cmd = r.choice([[b"sadd", k, r.choice([b"a", b"b"])], [b"srem", k, b"a"], [b"spop", k], [b"scard", k],
                                [b"smembers", k], [b"smove", k, r.choice(keys), b"a"], [b"sinter", k, r.choice(keys)],
                                [b"sunionstore", k, r.choice(keys), r.choice(keys)], [b"sdiffstore", r.choice(keys), k, r.choice(keys)]])
            else:
                cmd = r.choice([[b"xadd", k, b"*", b"f", b"v"], [b"xadd", k, b"nomkstream", b"*", b"f", b"v"],
                                [b"xrange", k, b"-", b"+"], [b"xadd", k, b"maxlen", b"2", b"*", b"a", b"b"]])
            if cmd and cmd[0].lower() in (b"blpop", b"brpop") and cmd[-1] == b"0":
                cmd[-1] = b"1"
            sl = r.choice([0, 0, 0, 1, 99, 100, 400, 500, 900, 999, 1000, 1001, 1999, 2000]) if r.random() < 0.5 else 0
            c.cmd(cmd, sleep_ms=sl)
            if r.random() < 0.4:
                c.dump()
        c.dump()
        cases.append(c)
    return cases


def gen_tcp(seed, n, types=None):
    """real clock: deadlines 1-2 s away, probes well inside/outside the second of the deadline plus
    a few near it (the replay accepts either second for a step that straddles a boundary)."""
    r = random.Random(seed * 31 + 5)
    types = types or DEFAULT_TYPES
    cases = []
    for i in range(n):
        typ = r.choice(types)
        c = TCase("c06tcp_%d_%d" % (seed, i))
        for cmd in TYPES[typ](K):
            c.cmd(cmd)
        c.cmd([b"set", O, b"ov"])
        ttl = r.choice([1, 2])
        att = r.choice([[b"expire", K, str(ttl).encode()], [b"expire", K, str(ttl).encode(), b"NX"],
                        [b"setex", K, str(ttl).encode(), b"v"], [b"set", K, b"v", b"EX", str(ttl).encode()],
                        [b"set", K, b"v", b"PX", str(ttl * 1000 - 300).encode()],
                        [b"set", K, b"v", b"EXAT", Tok("@T+%d" % ttl)]])
        c.cmd(att)
        c.cmd([b"ttl", K])
        # real clock: no blocking pops, and no auto-generated stream ids (`XADD k *`: the id carries the
        # server's own millisecond clock, which the replay cannot know -- covered exactly by the
        # virtual-clock matrix instead)
        probes = [p[1] for _, p in sorted(PROBES.items()) if not p[1][0][0].startswith(b"b")
                  and not any(c[0].lower() == b"xadd" and b"*" in c for c in p[1])]
        for wait in (r.choice([300, 500]), r.choice([400, 700, 1000]), r.choice([600, 1000]), 1000):
            for cmd in r.choice(probes):
                c.cmd(cmd, sleep_ms=wait)
                wait = 0
            c.cmd([b"ttl", K])
            c.cmd([b"exists", K, O])
        cases.append(c)
    return cases


# ---------------------------------------------------------------- cross-database slice
# the same key name in two or three databases, with different value types and different / no
# deadlines: whatever happens to the deadline of K in one database (every way of attach_ways)
# must leave K in the other databases alone -- value, deadline, visibility around each deadline,
# and after the expiry timers have fired.
READ_OF = {
    "string": [b"get", K], "list": [b"lrange", K, b"0", b"-1"], "hash": [b"hgetall", K],
    "set": [b"smembers", K], "zset": [b"zrange", K, b"0", b"-1", b"withscores"], "stream": [b"xrange", K, b"-", b"+"],
}
XDB_QUICK_WAYS = ["expire_none_preNone", "expire_none_pre4", "expire_gt_pre1", "expire_persist", "setex", "set_ex",
                  "set_px_1500", "set_exat", "set_keepttl", "set_plain_drops", "mset_drops", "rename_onto", "rename_away_back",
                  "del_recreate", "sunionstore_drops", "lpop_keeps", "expire_0", "expire_neg"]


def xdb_case(name, ta, tv, way, vttl, adb, cand, off_ms, phase):
    """attacker database adb in {0,1}; victim = the other of {0,1}; database 2 holds K as a string with
    deadline +3; connection c works in database c"""
    wname, pre, cmds, _ = way
    vdb = 1 - adb
    c = TCase(name, 3)
    c.align(phase)
    c.cmd([b"select", b"1"], conn=1)
    c.cmd([b"select", b"2"], conn=2)
    for cmd in TYPES[tv](K):
        c.cmd(cmd, conn=vdb)
    if vttl is not None:
        c.cmd([b"expire", K, str(vttl).encode()], conn=vdb)
    c.cmd([b"set", K, b"third", b"EX", b"3"], conn=2)
    for cmd in TYPES[ta](K):
        c.cmd(cmd, conn=adb)
    c.cmd([b"set", O, b"ov"], conn=adb)
    if pre is not None:
        c.cmd([b"expire", K, str(pre).encode()], conn=adb)
    for cmd in cmds:
        c.cmd(cmd, conn=adb)
    c.dump()

    def probes(first_sleep):
        sl = first_sleep
        for conn, typ in ((vdb, tv), (2, "string"), (adb, ta)):
            for cmd in ([b"ttl", K], READ_OF[typ], [b"type", K], [b"exists", K]):
                c.cmd(cmd, conn=conn, sleep_ms=sl)
                sl = 0
        c.dump()
    probes(max(cand * 1000 - phase + off_ms, 0))
    probes(3000)      # after every expiry timer that could have been armed for the probed deadline
    c.cmd([b"keys", b"*"], conn=vdb)
    c.cmd([b"keys", b"*"], conn=adb)
    c.dump()
    return c


def gen_crossdb(seed, tier, types=None):
    r = random.Random(seed * 48271 + 3)
    types = types or DEFAULT_TYPES
    cases = []
    i = 0
    if tier == "quick":
        pairs = [("string", "string"), ("string", "list"), ("list", "string"), ("hash", "zset"), ("set", "string"), ("string", "stream")]
        pairs = [p for p in pairs if p[0] in types and p[1] in types]
        for ta, tv in pairs:
            ways = {w[0]: w for w in attach_ways(ta)}
            for wn in XDB_QUICK_WAYS:
                if wn not in ways:
                    continue
                way = ways[wn]
                vttl = r.choice([None, 2, 5])
                cands = sorted(set(way[3] + ([vttl] if vttl else [])))
                cand = r.choice(cands)
                for oname, off in r.sample(OFFSETS, 2):
                    if cand * 1000 + off < 0:
                        continue
                    i += 1
                    cases.append(xdb_case("c06x_%s_%s_%s_v%s_%d_%s_%d" % (ta, tv, wn, vttl, cand, oname, i), ta, tv, way, vttl,
                                          r.choice([0, 1]), cand, off, r.choice([0, 500, 999])))
        return cases
    for ta in types:
        for tv in types:
            for way in attach_ways(ta):
                for vttl in (None, 2, 5):
                    for cand in sorted(set(way[3] + ([vttl] if vttl else []))):
                        for oname, off in OFFSETS:
                            if cand * 1000 + off < 0:
                                continue
                            i += 1
                            cases.append(xdb_case("c06x_%s_%s_%s_v%s_%d_%s_%d" % (ta, tv, way[0], vttl, cand, oname, i), ta, tv, way,
                                                  vttl, i % 2, cand, off, r.choice([0, 1, 500, 999])))
    return cases


# ---------------------------------------------------------------- numeric boundaries of every time argument
M63 = 2 ** 63 - 1
REL_VALUES = ([0, 1, 2, 999, 1000, 1001, 1500, 1999, 2000, 2001, -1, -1000, 2 ** 31 - 1, 2 ** 31, 2 ** 31 + 1, 2 ** 32 - 1, 2 ** 32,
               2 ** 32 + 1, 2 ** 53 - 1, 2 ** 53, 2 ** 53 + 1, 9223372036, 9223372037, 9223372036000 - 1, 9223372036000,
               9223372036000 + 1, 9223372036854, 9223372036855, 9223372036854775 - 1, 9223372036854775, 9223372036854775 + 1,
               9223372036854776, 10000000000000, 9007199254740992, 4611686018427387904, M63 - 1, M63, M63 + 1, -M63, -M63 - 1, -M63 - 2]
              + [Tok("@X-1"), Tok("@X+0"), Tok("@X+1"), Tok("@X+2")])
ABS_VALUES = [Tok("@T-1000"), Tok("@T-1"), Tok("@T+0"), Tok("@T+1"), Tok("@T+2"), Tok("@T+1000"), 0, 1, -1, 2 ** 31, 2 ** 32, 2 ** 53,
              9223372036854775, M63 - 1, M63, M63 + 1, -M63 - 1]


def _val(v):
    return v if isinstance(v, Tok) else str(v).encode()


def gen_boundary(seed, tier):
    """every command/option that takes a time x the numeric boundary values; then TTL, GET/EXISTS,
    a clock advance across the small deadlines (1.001 s, 2.002 s), dumps."""
    r = random.Random(seed * 40503 + 9)
    forms = []
    for v in REL_VALUES:
        forms.append(("set_ex", None, [[b"set", K, b"v", b"EX", _val(v)]]))
        forms.append(("set_px", None, [[b"set", K, b"v", b"PX", _val(v)]]))
        forms.append(("set_px_get", None, [[b"set", K, b"w", b"px", _val(v), b"GET"]]))
        forms.append(("setex", None, [[b"setex", K, _val(v), b"v"]]))
        forms.append(("psetex", None, [[b"psetex", K, _val(v), b"v"]]))
        forms.append(("getex_px", None, [[b"getex", K, b"PX", _val(v)]]))
        for opt in (None, b"NX", b"XX", b"GT", b"LT"):
            for pre in (None, 100):
                forms.append(("expire_%s_pre%s" % ((opt or b"none").decode().lower(), pre), pre,
                              [[b"expire", K, _val(v)] + ([opt] if opt else [])]))
        forms.append(("pexpire", None, [[b"pexpire", K, _val(v)]]))
    for v in ABS_VALUES:
        forms.append(("set_exat", None, [[b"set", K, b"v", b"EXAT", _val(v)]]))
        forms.append(("set_pxat", None, [[b"set", K, b"v", b"PXAT", _val(v)]]))
        forms.append(("expireat", None, [[b"expireat", K, _val(v)]]))
    cases = []
    for i, (name, pre, cmds) in enumerate(forms):
        c = TCase("c06b_%s_%d" % (name, i))
        c.align(r.choice([0, 1, 500, 999]))
        c.cmd([b"set", K, b"old"])
        if pre is not None:
            c.cmd([b"expire", K, str(pre).encode()])
        for cmd in cmds:
            c.cmd(cmd)
        c.cmd([b"ttl", K])
        c.cmd([b"get", K])
        c.cmd([b"exists", K])
        c.dump()
        for wait in (1001, 1001):
            c.cmd([b"ttl", K], sleep_ms=wait)
            c.cmd([b"get", K])
            c.dump()
        cases.append(c)
    return cases
