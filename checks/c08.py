"""C08 — acknowledged cluster writes survive crashes and restarts (PARTIAL: the ordering/recovery
logic of a node's Ready loop is proved for all Ready sequences and crash points; real disks,
processes and the transport are exercised here, not modelled).  DESIGN.md section 3, C08.

Proof half: coq/Properties/C08.v.
Tie, re-run from VERIF_REPO's working tree on every invocation:
 (T) the statements of the `case rd := <-rc.Node.Ready()` block of raftexample/raft.go are read from
     the source and must appear in the order of the model's step_order (extracted) -- this is the
     hypothesis-free part of C08_ack_implies_durable: wal.Save before publishEntries before
     maybeTriggerSnapshot before Advance.
 (L) a restart on a LONG log: n committed commands (n around 1024, 1500, 2600, 5000, a random size;
     more in thorough, all below the snapshot threshold) handed as ONE Ready to a node's real
     entriesToApply -> publishEntries -> commitC -> handleClusterCommits (hook VerifReplay); the
     keyspace -- including a list to which command i appends i -- must be that of executing the log
     one by one, which the extracted model replays: every committed command exactly once, in order.
 (V) below the snapshot threshold, real node processes: three nodes, concurrent writers, every
     acknowledged write recorded; kill -9 of all nodes at once (and, thorough, of minorities and
     majorities at random instants, restart in every order, several rounds); after restart every
     node's keyspace (VERIFDUMP) must contain every acknowledged write.
 (M) with hook H3 lowering the threshold, a single-node cluster is compared with the model's
     prediction (extracted run_readys / crash / restart) -- which index the snapshot is taken at,
     which keys exist after a restart, when the node dies.  Both predictions are violations of the
     property, listed as open findings; the check prints KNOWN-FINDING when the real node does
     what the refuted model says and reports a VIOLATION when it does anything else."""
import collections
import json
import os
import random
import re
import socket
import threading
import time

from . import clusterlib, lib

PID = "C08"

STEP_PATTERNS = [
    ("saveSnap", r"rc\.saveSnap\(rd\.Snapshot\)"),
    ("wal.Save", r"rc\.wal\.Save\(rd\.HardState,\s*rd\.Entries\)"),
    ("ApplySnapshot", r"rc\.raftStorage\.ApplySnapshot\(rd\.Snapshot\)"),
    ("raftStorage.Append", r"rc\.raftStorage\.Append\(rd\.Entries\)"),
    ("transport.Send", r"rc\.transport\.Send\("),
    ("publishEntries", r"rc\.publishEntries\(rc\.entriesToApply\(rd\.CommittedEntries\)\)"),
    ("maybeTriggerSnapshot", r"rc\.maybeTriggerSnapshot\("),
    ("Node.Advance", r"rc\.Node\.Advance\(\)"),
]


def build():
    ok, log = lib.ensure_runner("clusterrun", "Extract/ExtractCluster.v", ("clusterutil.ml", "clusterrun.ml"), ("clustermodel",))
    if not ok:
        return "clusterrun build failed: " + log[-2500:]
    ok, log = lib.ensure_modelrun()
    if not ok:
        return "modelrun build failed: " + log[-2500:]
    ok, log = lib.ensure_harness_ft("harness_cluster_ft", srcdir="harness_cluster")
    if not ok:
        return "harness_cluster build failed (does the repository still compile with -tags verif?): " + log[-2500:]
    return None


# ----------------------------------------------------------------------------- (T)
def step_order_tie(d):
    """Returns None or a description of the disagreement."""
    src = (lib.REPO / "raftexample" / "raft.go").read_text()
    m = re.search(r"case rd := <-rc\.Node\.Ready\(\):(.*?)\n\t\tcase ", src, flags=re.S)
    if not m:
        return dict(what="the Ready case of serveChannels was not found in raftexample/raft.go")
    block = re.sub(r"//[^\n]*", "", m.group(1))
    found = []
    for name, pat in STEP_PATTERNS:
        ms = list(re.finditer(pat, block))
        if len(ms) != 1:
            return dict(what="statement %s occurs %d times in the Ready case (expected once)" % (name, len(ms)))
        found.append((ms[0].start(), name))
    src_order = [n for _, n in sorted(found)]
    rc, log = lib.sh("%s steporder %s" % (lib.BUILD / "clusterrun", d / "steporder.txt"), cwd=d, timeout=60)
    if rc != 0:
        return dict(what="clusterrun steporder failed: " + log[-500:])
    model_order = (d / "steporder.txt").read_text().split()
    if src_order != model_order:
        return dict(what="order of the statements in the Ready case differs from the model's step_order",
                    source=src_order, model=model_order,
                    note="C08_ack_implies_durable is proved for the model's order; with publishEntries before wal.Save a reply can "
                         "precede the durable write (kill -9 between the two loses an acknowledged write)")
    return None


# ----------------------------------------------------------------------------- (L) long replay
HB = "harness_cluster_ft"


def long_replay_tie(d, n, tag="lr"):
    """A restart on a LONG log: n committed commands (RPUSH seq i / SET k<i> v<i> / INCR ctr, i = 1..n)
    handed to a node's real apply path as ONE Ready (hook VerifReplay: entriesToApply -> publishEntries
    -> commitC -> handleClusterCommits).  The keyspace must be the one of executing the n commands one by
    one, which the extracted model replays (C08_restart_recovers is over any log length): in particular
    the list 'seq' must be 1..n -- every committed command delivered exactly once, in order.
    Returns (failing, err)."""
    out = d / ("%s_%d.trace" % (tag, n))
    rc, log = lib.sh("timeout 300 %s replayrun %d %s %s" % (lib.BUILD / HB, n, out, d), cwd=d, timeout=400,
                     extra_env={"GOMAXPROCS": "1"})
    rep = d / (out.name + ".replay")
    if rc != 0 or not rep.exists():
        return dict(kind="long-replay-took-the-node-down", replay_long_log=n,
                    detail=re.sub(r"[^\x20-\x7e\n]+", " ", log)[-1200:],
                    note="a node restarting on a log of %d committed commands died in its apply path" % n), None
    ver = d / (out.name + ".verdict")
    rc, log = lib.sh("%s mem %s %s" % (lib.BUILD / "modelrun", out, ver), cwd=d, timeout=600)
    if rc != 0 or not ver.exists():
        return None, "modelrun rc=%s %s" % (rc, log[-800:])
    if any(l.startswith("MISMATCH") for l in ver.read_text().splitlines()):
        return None, "the one-by-one execution of the long log disagrees with the model (a matter of C01/C09): %s" % ver.read_text()[:300]
    want = sorted(l for l in out.read_text().splitlines() if l.startswith("D "))
    have = sorted(l for l in rep.read_text().splitlines() if l.startswith("D "))
    if want == have and "!NOTOK" not in rep.read_text():
        return None, None

    def seq_of(lines):
        for l in lines:
            fs = l.split(" ")
            if fs[2] == b"seq".hex():
                return [bytes.fromhex(x).decode() for x in fs[-1].split(",") if x and x != "-"]
        return []
    ws, hs = seq_of(want), seq_of(have)
    first = next((i for i, (a, b) in enumerate(zip(ws, hs)) if a != b), min(len(ws), len(hs)))
    cnt = collections.Counter(hs)
    never = [x for x in ws if cnt[x] == 0]
    twice = [x for x, c in cnt.items() if c > 1]
    only_w = sorted(set(want) - set(have))
    return dict(kind="replay-of-a-long-log-is-not-the-log", replay_long_log=n,
                applied_order_first_difference=dict(position=first + 1, expected_command="RPUSH seq %s" % (ws[first] if first < len(ws) else "-"),
                                                    applied_instead="RPUSH seq %s" % (hs[first] if first < len(hs) else "<nothing>")),
                commands_never_applied=len(never), first_never_applied=["RPUSH seq " + x for x in never[:3]],
                commands_applied_twice=len(twice), first_applied_twice=["RPUSH seq " + x for x in sorted(twice, key=int)[:3]],
                keyspace_lines_missing=[l[:120] for l in only_w[:3]],
                note="log = commands i=1..%d: i%%4==0 SET k<i> v<i>, i%%4==1 INCR ctr, otherwise RPUSH seq <i>; handed to the apply path as one Ready "
                     "(a restart on this WAL); C08_restart_recovers: the recovered keyspace is the replay of the committed prefix" % n), None


# ----------------------------------------------------------------------------- (V)
def dump_map(cluster, i):
    c = cluster.client(i, timeout=30.0)
    try:
        rep = c.cmd([b"verifdump"])
    finally:
        c.close()
    res = {}
    if not rep.startswith("*["):
        return None
    for x in clusterlib.split_top(rep[2:-1])[1:]:
        line = bytes.fromhex(x[1:]).decode("latin-1")
        fs = line.split(" ")
        key = b"" if fs[0] == "-" else bytes.fromhex(fs[0])
        res[key] = " ".join(fs[2:])
    return res


def writer(cluster, cid, node, n, acked, lock, stop):
    try:
        c = cluster.client(node, timeout=20.0)
    except OSError:
        return
    for i in range(n):
        if stop.is_set():
            break
        k, v = b"w%d:%d" % (cid, i), b"val%d-%d \xff" % (cid, i)
        try:
            rep = c.cmd([b"set", k, v])
        except (OSError, clusterlib.ConnClosed, socket.timeout, ValueError):
            return          # node killed under us: this write was not acknowledged
        if rep == "+4f4b":
            with lock:
                acked[k] = v
    c.close()


def crash_scenario(ctx, binary, rounds, tag):
    """rounds: list of (kill_set, delay_s_before_kill, restart_order).  Each round: concurrent
    writers on all live nodes, kill -9 the given nodes after the delay, restart them in the given
    order, wait until they serve, then every node must hold every write acknowledged so far."""
    stats = dict(acked=0, rounds_done=0, kills=0)
    cluster = clusterlib.Cluster(binary, 3, tag="c08" + tag)
    try:
        cluster.start_all()
        err = cluster.wait_ready()
        if err:
            return None, "cluster start-up: " + err, stats
        acked, lock = {}, threading.Lock()
        cid = 0
        for ri, (kill, delay, order) in enumerate(rounds):
            stop = threading.Event()
            ths = []
            for node in range(3):
                for _ in range(2):
                    ths.append(threading.Thread(target=writer, args=(cluster, cid, node, 150, acked, lock, stop)))
                    cid += 1
            for t in ths:
                t.start()
            time.sleep(delay)
            for i in kill:
                cluster.kill(i)
            stats["kills"] += len(kill)
            if len(kill) >= 2:
                stop.set()       # no quorum: the surviving writers would only wait for time-outs
            for t in ths:
                t.join(40)
            stop.set()
            for t in ths:
                t.join(15)
            for i in order:
                cluster.start(i)
            err = cluster.wait_ready(timeout=60)
            if err:
                return dict(kind="cluster-does-not-come-back", round=ri + 1, killed=[k + 1 for k in kill], detail=err,
                            outputs={str(i + 1): cluster.output(i, 800) for i in kill}), None, stats
            stats["rounds_done"] += 1
            with lock:
                want = dict(acked)
            stats["acked"] = len(want)
            for i in range(3):
                have = dump_map(cluster, i)
                if have is None:
                    return dict(kind="no-dump", node=i + 1), None, stats
                lost = [k for k, v in want.items() if have.get(k) != "S " + clusterlib.hx(v)]
                if lost:
                    k = sorted(lost)[0]
                    return dict(kind="acknowledged-write-lost", round=ri + 1, node=i + 1, killed=[x + 1 for x in kill],
                                restart_order=[x + 1 for x in order], n_lost=len(lost), n_acknowledged=len(want),
                                example=dict(key=repr(k), acknowledged_value=repr(want[k]), node_has=have.get(k)),
                                scenario=dict(rounds=[[list(a), b, list(c)] for a, b, c in rounds], seed=ctx.seed),
                                note="SET was answered +OK before the kill; after the restart the node serves requests and does not hold it"), None, stats
        for i in range(3):
            if not cluster.alive(i):
                return dict(kind="node-down", node=i + 1, reason=cluster.crash_reason(i) or cluster.output(i, 800)), None, stats
        return None, None, stats
    finally:
        cluster.close()


# ----------------------------------------------------------------------------- (M)
def model_recover(d, snapcount, entries, tag):
    f = d / (tag + ".in")
    lines = ["SNAPCOUNT %d" % snapcount]
    for e in entries:
        if e in ("e", "f"):
            lines.append("E " + e)
        else:
            lines.append("E c %s %s" % (clusterlib.hx(e[0]), " ".join(clusterlib.hx(a) for a in e)))
    lines.append("END")
    f.write_text("\n".join(lines) + "\n")
    rc, log = lib.sh("%s recover %s %s" % (lib.BUILD / "clusterrun", f, d / (tag + ".out")), cwd=d, timeout=120)
    if rc != 0:
        return None
    out = (d / (tag + ".out")).read_text().splitlines()
    res = {}
    for l in out:
        m = re.match(r"(BEFORE|AFTER) (up|down) snap=(\S+)(?: acked=(\d+))?(?: keys=(\S*))?", l)
        if m:
            res[m.group(1)] = dict(state=m.group(2), snap=m.group(3), acked=m.group(4),
                                   keys=sorted(k for k in (m.group(5) or "").split(",") if k))
    return res


def snapshot_scenario(ctx, d, binary, snapcount, with_list, nsets, tag):
    """Single node, threshold lowered by H3.  Log: conf change, leader no-op, the readiness probes
    (PING; normally one), then our commands, one Ready each (sequential client).  Returns (verdict, detail):
    verdict in {"as-model", "differs", "not-run"}."""
    cluster = clusterlib.Cluster(binary, 1, tag="c08" + tag,
                                 env={"VERIF_SNAPSHOT_COUNT": str(snapcount), "VERIF_SNAPSHOT_CATCHUP": "2"})
    try:
        cluster.start_all()
        err = cluster.wait_ready()
        if err:
            return "not-run", err
        cmds = ([[b"rpush", b"lst", b"x"]] if with_list else []) + [[b"set", b"s%d" % i, b"v"] for i in range(nsets)]
        # log so far: the bootstrap conf change, the leader's no-op, one entry per readiness probe sent
        model = model_recover(d, snapcount, ["f", "e"] + [[b"ping"]] * cluster.probes_sent + cmds, tag)
        if not model:
            return "not-run", "model run failed"
        c = cluster.client(0, timeout=20.0)
        nack = 0
        for cmd in cmds:
            try:
                if c.cmd(cmd).startswith(("+", ":")):
                    nack += 1
                else:
                    break
            except (OSError, clusterlib.ConnClosed, socket.timeout):
                break
        time.sleep(0.4)
        alive1 = cluster.alive(0)
        out = cluster.output(0, 400000)
        snaps = [int(x) for x in re.findall(r"start snapshot \[applied index: (\d+)", out)]
        obs = dict(before="up" if alive1 else "down", acked=nack + cluster.probes_sent, snaps=snaps, probes=cluster.probes_sent,
                   crash=(cluster.crash_reason(0) or "")[:160])
        want_before = model["BEFORE"]
        # a node that panics in maybeTriggerSnapshot has handed the last reply to the callback channel
        # (model: acknowledged) but may die before the connection goroutine writes it to the socket
        slack = (0, 1) if want_before["state"] == "down" else (0,)
        if (want_before["state"] != obs["before"]) or (int(want_before["acked"]) - obs["acked"]) not in slack:
            return "differs", dict(model=model, observed=obs, phase="before the restart")
        if want_before["state"] == "up":
            last = str(snaps[-1]) if snaps else "-"
            if want_before["snap"] != last:
                return "differs", dict(model=model, observed=obs, phase="snapshot index")
        # kill -9 (or already dead), restart
        cluster.kill(0)
        cluster.start(0)
        err = cluster.wait_ready(timeout=25)
        alive2 = cluster.alive(0) and not err
        obs["after"] = "up" if alive2 else "down"
        if alive2:
            c2 = cluster.client(0, timeout=20.0)
            rep = c2.cmd([b"keys", b"*"])
            c2.close()
            obs["keys"] = sorted(x[1:] for x in clusterlib.split_top(rep[2:-1]) if x.startswith("$")) if rep.startswith("*[") else [rep]
        else:
            obs["keys"] = []
            obs["crash_after_restart"] = (cluster.crash_reason(0) or err or "")[:200]
        want_after = model["AFTER"]
        if want_after["state"] != obs["after"] or want_after["keys"] != obs["keys"]:
            return "differs", dict(model=model, observed=obs, phase="after the restart")
        return "as-model", dict(model=model, observed=obs, acknowledged_writes=nack,
                                surviving_keys=[bytes.fromhex(k).decode("latin-1") for k in obs["keys"]])
    finally:
        cluster.close()


def follower_snapshot_replay(binary):
    """The same finding through the other door: a follower that was down while the leader compacted
    its log is sent a snapshot (rd.Snapshot -> publishSnapshot -> 'commitC <- nil', only logged):
    it then serves a keyspace without anything the snapshot covers."""
    cluster = clusterlib.Cluster(binary, 3, tag="c08fs", env={"VERIF_SNAPSHOT_COUNT": "5", "VERIF_SNAPSHOT_CATCHUP": "2"})
    try:
        cluster.start_all()
        if cluster.wait_ready():
            return "not run (cluster start-up)"
        cluster.kill(2)
        k = None
        for i in (0, 1):
            try:
                k = cluster.client(i, timeout=20)
                if k.cmd([b"set", b"fs:probe", b"1"]).startswith("+"):
                    break
            except (OSError, clusterlib.ConnClosed, socket.timeout):
                k = None
        if k is None:
            return "not run (no quorum answer)"
        n = sum(1 for i in range(20) if k.cmd([b"set", b"fs:%d" % i, b"v"]).startswith("+"))
        k.close()
        cluster.start(2)
        if cluster.wait_ready(nodes=[2], timeout=40):
            return "not run (node 3 did not come back)"
        time.sleep(0.5)
        d1, d3 = dump_map(cluster, 0), dump_map(cluster, 2)
        if d1 is None or d3 is None:
            return "not run (no dump)"
        missing = sorted(x.decode("latin-1") for x in d1 if x.startswith(b"fs:") and x not in d3)
        if missing:
            return ("reproduced (3 nodes, threshold 5): node 3 down during %d acknowledged SETs, restarted, receives a snapshot from the leader: "
                    "node 1 holds %d fs:* keys, node 3 lacks %d of them (%s ...)" % (n, sum(1 for x in d1 if x.startswith(b"fs:")), len(missing), ", ".join(missing[:4])))
        return "not reproduced (node 3 holds every key)"
    finally:
        cluster.close()


# ----------------------------------------------------------------------------- driver
def run(ctx):
    cov, broken = lib.proof_gate(ctx, extra_tb=[
        "imported, not proved here: the Raft library hands committed entries to the application only after handing them over for saving, with a HardState that covers them (ready_ok); an entry is committed only when a quorum saved it and every later leader holds it (C15); the WAL returns what was saved (C16)",
        "modelled, not verified: the file system (WAL and snapshot files as values), process death as loss of the volatile record, a sequential client giving one committed entry per Ready in the snapshot scenarios; snapshots received from a leader (rd.Snapshot) and follower-side log truncation are outside the model",
        "the step order of the Ready case is read from raft.go by regular expressions (checks/c08.py STEP_PATTERNS): trusted to recognise the eight statements; anything it does not recognise exactly once is reported",
        "hook H3 (VERIF_SNAPSHOT_COUNT/VERIF_SNAPSHOT_CATCHUP), hook H1 VERIFDUMP, ml/clusterrun.ml, checks/clusterlib.py: trusted glue",
    ])
    berr = build()
    d = lib.scratch("c08-")
    quick = ctx.tier == "quick"
    ok, log, binary = clusterlib.build_server()
    if not ok and not berr:
        berr = "server build failed: " + log[-1500:]
    if ctx.replay:
        r = json.load(open(ctx.replay))
        if berr:
            print(berr)
            return 1
        if r.get("replay_long_log"):
            f, err = long_replay_tie(d, int(r["replay_long_log"]), "replay")
            print(json.dumps(f or err or "the replay of the long log is the log", indent=1, default=str))
            return 1 if (f or err) else 0
        if r.get("scenario"):
            rounds = [(tuple(a), b, tuple(c)) for a, b, c in r["scenario"]["rounds"]]
            f, err, st = crash_scenario(ctx, binary, rounds, "replay")
            print(json.dumps(f or err or "scenario passes", indent=1, default=str))
            return 1 if (f or err) else 0
        if r.get("snapshot_scenario"):
            s = r["snapshot_scenario"]
            v, detail = snapshot_scenario(ctx, d, binary, s["snapcount"], s["with_list"], s["nsets"], "replay")
            print(v, json.dumps(detail, indent=1, default=str))
            return 0 if v == "as-model" else 1
        t = step_order_tie(d)
        print(json.dumps(t or "step order agrees", indent=1))
        return 1 if t else 0
    failing, err = None, berr
    vstats, mstats, known = [], [], {}
    if not err:
        t = step_order_tie(d)
        if t:
            failing = dict(kind="ready-loop-step-order", **t)
    lr_sizes = []
    if not err and not failing:
        rs = random.Random(ctx.seed * 31 + 5)
        sizes = [1, 1023, 1024, 1025, 1500, 2600, 5000, rs.randrange(1026, 9000)] if quick else \
            [1, 2, 1023, 1024, 1025, 1500, 2047, 2048, 2049, 2600, 3072, 3073, 4096, 5000, 7777, 9000, 9990] + [rs.randrange(2, 9990) for _ in range(12)]
        for n in sizes:
            f, err = long_replay_tie(d, n)
            if f:
                # smallest failing length
                lo, hi = 1, n
                while lo < hi:
                    mid = (lo + hi) // 2
                    fm, em = long_replay_tie(d, mid, "lrs")
                    if fm:
                        hi, f = mid, fm
                    else:
                        lo = mid + 1
                failing = f
            if failing or err:
                break
            lr_sizes.append(n)
    if not err and not failing:
        r = random.Random(ctx.seed * 7 + 8)
        if quick:
            plans = [[((0, 1, 2), 0.25, (2, 0, 1))]]
        else:
            plans = [[((0, 1, 2), 0.25, (2, 0, 1)), ((0, 1, 2), 0.1, (0, 1, 2))]]
            for _ in range(6):
                rounds = []
                for _ in range(r.randrange(2, 5)):
                    kill = tuple(r.sample(range(3), r.choice([1, 1, 2, 3])))
                    order = list(kill)
                    r.shuffle(order)
                    rounds.append((kill, r.choice([0.05, 0.15, 0.3, 0.6]), tuple(order)))
                plans.append(rounds)
        for pi, rounds in enumerate(plans):
            f, e, st = None, None, {}
            for attempt in range(2):
                f, e, st = crash_scenario(ctx, binary, rounds, "v%d" % pi)
                if not (e and e.startswith("cluster start-up")):
                    break
            vstats.append(dict(rounds=[[list(a), b, list(c)] for a, b, c in rounds], **st))
            if f:
                failing = f
                break
            if e:
                err = e
                break
    if not err and not failing:
        scen = [(5, False, 12, "snapshot-state-not-reloaded"), (5, True, 9, "snapshot-panics-on-list")]
        if not quick:
            scen += [(3, False, 11, "snapshot-state-not-reloaded"), (8, False, 30, "snapshot-state-not-reloaded"),
                     (4, True, 3, "snapshot-panics-on-list"), (6, False, 5, None)]
        for sc, wl, ns, fid in scen:
            v, detail = "not-run", None
            for attempt in range(2):
                v, detail = snapshot_scenario(ctx, d, binary, sc, wl, ns, "m%d%d" % (sc, ns))
                if v != "not-run":
                    break
            mstats.append(dict(snapcount=sc, with_list=wl, nsets=ns, verdict=v))
            if v == "differs":
                failing = dict(kind="snapshot-behaviour-differs-from-model", snapshot_scenario=dict(snapcount=sc, with_list=wl, nsets=ns),
                               detail=detail,
                               note="the model (Cluster/Durability.v) predicts what the pinned code does around a snapshot -- itself a listed violation "
                                    "of C08; the working tree now does something else: either the defect was repaired (update the model, prove the positive "
                                    "theorem, drop the open finding) or it lost or kept different writes")
                break
            if v == "not-run":
                err = "snapshot scenario could not run: %s" % (detail,)
                break
            if fid:
                o = detail["observed"]
                if fid == "snapshot-state-not-reloaded":
                    known[fid] = ("reproduced (threshold lowered to %d by H3): %d acknowledged SETs, snapshot at index %s, kill -9, restart: only %s exist"
                                  % (sc, detail["acknowledged_writes"], o["snaps"][-1] if o["snaps"] else "-", detail["surviving_keys"]))
                else:
                    known[fid] = ("reproduced (threshold %d): RPUSH lst x then %d acknowledged SETs: node dies with '%s'; after a restart it replays the log and dies again: %s"
                                  % (sc, detail["acknowledged_writes"] - 1, o["crash"][:90].replace("\n", " "), o.get("after")))
    if not quick and not err and not failing:
        known["snapshot-state-not-reloaded"] = known.get("snapshot-state-not-reloaded", "") + "; follower: " + follower_snapshot_replay(binary)
    rc = 0
    if failing:
        lib.violation(PID, failing)
        ctx.violations += 1
        rc = 1
    elif broken or err:
        lib.violation(PID, dict(kind="tie-broken", what=broken or err), found_input=False)
        ctx.violations += 1
        rc = 1
    for kf in lib.known_findings(PID):
        if kf["kind"] == "open":
            obs = known.get(kf["id"])
            print("KNOWN-FINDING: property=%s %s %s%s" % (PID, kf["id"], kf["text"], (" [this run: %s]" % obs) if obs else ""))
    nacked = sum(v.get("acked", 0) for v in vstats)
    cov.update(dict(
        evaluations=nacked + sum(m["nsets"] for m in mstats) + len(STEP_PATTERNS) + sum(lr_sizes),
        long_replays_single_ready=lr_sizes,
        acknowledged_writes_checked_on_every_node=nacked, crash_scenarios=vstats, snapshot_scenarios=mstats,
        distinct_nontrivial=sum(v.get("rounds_done", 0) for v in vstats) + len([m for m in mstats if m["verdict"] == "as-model"]),
        rule="(V) scenarios are lists of rounds (set of nodes killed with SIGKILL, delay after the writers start, restart order); six concurrent writers "
             "(two per node) issue SET with unique keys, an acknowledged write is one answered +OK; quick: all three nodes killed at once 0.25 s into "
             "the load; thorough: seeded random kill sets of size 1-3, delays 0.05-0.6 s, 2-4 rounds per cluster, shuffled restart orders; "
             "(M) single-node clusters with the snapshot threshold lowered to 3-8 by H3, with and without a list key, compared with the extracted model; "
             "distinct_nontrivial = kill/restart rounds completed + snapshot scenarios that matched the model",
        samples=[json.dumps(vstats[0]) if vstats else "(none)", json.dumps(mstats[0]) if mstats else "(none)"],
        known_findings_replayed=known,
        correspondence="order of the Ready-case statements in raft.go vs extracted step_order; acknowledged SETs vs VERIFDUMP of every node after kill -9 / restart; "
                       "snapshot index, liveness and surviving keys of a real single-node cluster vs extracted run_readys/crash/restart",
        partial="real file system, process faults and the transport are exercised, not modelled; cluster-wide durability rests on C15/C16",
    ))
    lib.write_evidence(PID, ctx.tier, ctx.seed, cov,
                       ["Raft Ready contract, quorum commit, leader completeness (C15)", "WAL returns what was saved (C16)",
                        "extraction + OCaml compiler", "log shorter than the snapshot threshold for the positive claim"],
                       ctx.wall(), ctx.violations)
    return rc
