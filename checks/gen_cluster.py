"""Generators for the cluster properties (C14, C07, C08): adversarial argument bytes on top of the
shared command generators of checks/gen.py, argument vectors for the encoder tie, Ready-batch
sequences for the apply-loop tie.  One PRNG per call, seeded by VERIF_SEED."""
import random

from . import gen
from .gen import Case, hx, pick

ALL256 = bytes(range(256))

# arguments that the pinned encoding (join with spaces / JSON string / split) could not carry,
# and the usual framing suspects
ADVERSARIAL = [
    b"", b" ", b"  ", b"a b", b" lead", b"trail ", b"hello world", b"a  b   c",
    b"\r\n", b"a\r\nb", b"\n", b"\r", b"*1\r\n$4\r\nPING\r\n",
    b"\xff", b"\xff\xfe", b"\xc3\x28", b"\xe2\x82\xac", b"\xe2\x82", b"\xf0\x9f\x98\x80", b"\xf0\x9f",
    b"\xed\xa0\x80", b"\xc0\xaf", b"\xf4\x90\x80\x80", b"\xef\xbf\xbd", b"\x80", b"\xbf\xbf",
    b"\x00", b"\x00\x00", b"\"", b"\\", b"\\\"", b"<>&", b"\xe2\x80\xa8", b"\x7f", b"\x1f",
    b"=", b"==", b"QUJD", b"null", b"[]", b"{}", b",", b"\"]", b"],\"ID\":\"x\"}",
    ALL256, ALL256[::-1], b"x" * 1000, b"\xff" * 257, b" " * 50,
]


def rand_bytes(r, maxlen=24):
    n = r.randrange(0, maxlen + 1)
    return bytes(r.randrange(256) for _ in range(n))


def adversarial_arg(r):
    c = r.randrange(100)
    if c < 55:
        return pick(r, ADVERSARIAL)
    if c < 70:
        return bytes([r.randrange(256)])
    if c < 90:
        return rand_bytes(r)
    if c < 96:
        return rand_bytes(r, 300)
    return bytes(r.randrange(256) for _ in range(r.randrange(1000, 6000)))


def uuid_like(r):
    h = "%032x" % r.getrandbits(128)
    return ("%s-%s-%s-%s-%s" % (h[:8], h[8:12], h[12:16], h[16:20], h[20:])).encode()


def gen_enc_cases(seed, n):
    """Argument vectors for the encoder/decoder tie: lines 'A <idhex> <arghex>*'.
    Systematic part first: the empty vector, every single byte value, every pair position of the
    base64 padding (lengths 0..8), then random vectors."""
    r = random.Random(seed * 7919 + 14)
    vecs = [[], [b""], [b"", b""], [b"", b"", b""]]
    vecs += [[bytes([b])] for b in range(256)]
    vecs += [[b"k", bytes([b]) * ln] for b in (0, 0x20, 0x3d, 0x7f, 0x80, 0xff) for ln in range(0, 9)]
    vecs += [[a] for a in ADVERSARIAL] + [[b"set", b"k", a] for a in ADVERSARIAL]
    while len(vecs) < n:
        k = r.choice([0, 1, 1, 2, 3, 3, 4, 6, 12])
        vecs.append([adversarial_arg(r) if r.random() < 0.7 else pick(r, gen.VALS + gen.KEYS) for _ in range(k)])
    return ["A %s %s" % (hx(uuid_like(r)), " ".join(hx(a) for a in v)) for v in vecs]


def mutate_cmd(r, cmd, p=0.35):
    """Keep the command shape, make the bytes hostile: replace an argument, glue a space / CRLF /
    non-UTF-8 byte onto it, flip the letter case of the name or of an option word."""
    cmd = list(cmd)
    if not cmd:
        return cmd
    if r.random() < 0.3:
        cmd[0] = gen.randcase(r, cmd[0])
    for i in range(1, len(cmd)):
        if r.random() < p:
            c = r.randrange(10)
            if c < 4:
                cmd[i] = adversarial_arg(r)
            elif c < 6:
                cmd[i] = cmd[i] + pick(r, [b" ", b" x", b"\r\n", b"\xff", b"\x00", b" \xfe "])
            elif c < 7:
                cmd[i] = pick(r, [b" ", b"\xff", b"\r\n"]) + cmd[i]
            elif c < 9:
                cmd[i] = gen.randcase(r, cmd[i])
            else:
                cmd[i] = b""
    return cmd


ADV_KEYS = [b"a b", b"", b" ", b"x\r\ny", b"\x00\xff", b"\xff\xfe", b"Key", b"KEY", b"key", b"k ", b" k", b"\xc3\x28", b"\xe2\x82\xac"]


def gen_c14_model_cases(seed, ncases, maxlen=25):
    """Programs of string/key and list commands (the families the extracted model executes) with
    hostile argument bytes; compared standalone vs cluster path vs model."""
    r = random.Random(seed * 104729 + 1414)
    cases = []
    for i in range(ncases):
        c = Case("c14m_%d_%d" % (seed, i))
        keys = r.sample(gen.KEYS, r.randrange(1, 4)) + r.sample(ADV_KEYS, r.randrange(1, 4))
        fam = r.choice(["s", "l", "sl"])
        if r.random() < 0.3:
            c.cmd([b"set", keys[0], pick(r, gen.VALS)])
        every = r.random() < 0.4
        if r.random() < 0.35:
            # store -> grow an earlier stored item -> read the neighbours, between the random commands
            for cmd in alias_seq(r, pick(r, [b"al", keys[0][:3] or b"z"])):
                c.cmd(cmd)
        for _ in range(r.randrange(1, maxlen + 1)):
            f = r.choice(fam)
            cmd = gen.string_cmd(r, keys) if f == "s" else gen.list_cmd(r, keys)
            if cmd and cmd[0].lower() in (b"blpop", b"brpop") and r.random() < 0.7:
                continue   # keep a few: they only cost virtual time
            cmd = mutate_cmd(r, cmd)
            c.cmd(cmd, sleep_ms=pick(r, gen.SLEEPS) if r.random() < 0.1 else 0)
            if every:
                c.dump()
        c.dump()
        cases.append(c)
    return cases


# ---- every other registered command family: compared standalone vs cluster path only
MEMBERS = [b"a", b"b", b"c", b"A", b"", b"a b", b"x\r\ny", b"\xff\xfe", b"10", b"m1", b"m2"]
SCORES = [b"1", b"2", b"3", b"1.5", b"-1", b"0", b"10", b"x", b"inf", b"-inf", b"1e2"]
FIELDS = [b"f", b"g", b"F", b"", b"f g", b"\xff", b"n"]
IDS = [b"*", b"1-1", b"1-2", b"2-0", b"5-1", b"0-1", b"x", b"3", b"18446744073709551615-0"]


def other_cmd(r, keys):
    k = lambda: pick(r, keys)
    m = lambda: pick(r, MEMBERS)
    c = r.randrange(100)
    if c < 8:
        return [b"sadd", k()] + [m() for _ in range(r.randrange(1, 4))]
    if c < 12:
        return [b"srem", k()] + [m() for _ in range(r.randrange(1, 3))]
    if c < 16:
        return [pick(r, [b"smembers", b"scard"]), k()]
    if c < 19:
        return [b"sismember", k(), m()]
    if c < 23:
        return [pick(r, [b"sunion", b"sinter", b"sdiff"])] + [k() for _ in range(r.randrange(1, 3))]
    if c < 26:
        return [pick(r, [b"sunionstore", b"sinterstore", b"sdiffstore"]), k()] + [k() for _ in range(r.randrange(1, 3))]
    if c < 28:
        return [b"smove", k(), k(), m()]
    if c < 36:
        a = [b"hset", k()]
        for _ in range(r.randrange(1, 3)):
            a += [pick(r, FIELDS), pick(r, gen.VALS)]
        return a
    if c < 41:
        return [pick(r, [b"hget", b"hexists", b"hdel", b"hstrlen"]), k(), pick(r, FIELDS)]
    if c < 45:
        return [pick(r, [b"hgetall", b"hkeys", b"hvals", b"hlen"]), k()]
    if c < 48:
        return [b"hmget", k()] + [pick(r, FIELDS) for _ in range(r.randrange(1, 3))]
    if c < 51:
        return [b"hincrby", k(), pick(r, FIELDS), pick(r, gen.INTS)]
    if c < 54:
        return [b"hsetnx", k(), pick(r, FIELDS), pick(r, gen.VALS)]
    if c < 64:
        a = [b"zadd", k()]
        if r.random() < 0.3:
            a.append(gen.randcase(r, pick(r, [b"nx", b"xx", b"gt", b"lt", b"ch", b"incr"])))
        for _ in range(r.randrange(1, 3)):
            a += [pick(r, SCORES), m()]
        return a
    if c < 68:
        return [pick(r, [b"zscore", b"zrank", b"zrem"]), k(), m()]
    if c < 71:
        return [b"zcard", k()]
    if c < 76:
        a = [b"zrange", k(), pick(r, gen.IDX), pick(r, gen.IDX)]
        if r.random() < 0.4:
            a.append(gen.randcase(r, b"withscores"))
        return a
    if c < 84:
        a = [b"xadd", k()]
        if r.random() < 0.2:
            a.append(b"nomkstream")
        a.append(pick(r, IDS[1:]))     # explicit ids only: '*' takes the id from each node's clock
        for _ in range(r.randrange(1, 3)):
            a += [pick(r, FIELDS), pick(r, gen.VALS)]
        return a
    if c < 88:
        return [b"xrange", k(), pick(r, [b"-", b"1", b"1-1", b"2"]), pick(r, [b"+", b"5", b"2-0", b"1-2"])]
    if c < 90:
        return [b"xlen", k()]
    if c < 93:
        return [pick(r, [b"type", b"exists", b"del"]), k()]
    if c < 95:
        return [b"member", pick(r, [b"list", b"LIST", b"x", b""])]
    if c < 96:
        return [b"member"]
    if c < 97:
        return [pick(r, [b"select", b"SELECT"]), pick(r, [b"0", b"1", b"x", b"-1", b"16"])]
    if c < 98:
        return []
    return [pick(r, [b"nosuch", b"no such", b"\xff", b"PING", b"Publis"])] + [m() for _ in range(r.randrange(0, 3))]


# commands whose reply or effect is a random / clock choice made by the executing node
NONDET = {b"spop", b"srandmember", b"hrandfield"}


def gen_c14_wire_cases(seed, ncases, maxlen=20):
    r = random.Random(seed * 15485863 + 77)
    cases = []
    for i in range(ncases):
        c = Case("c14w_%d_%d" % (seed, i))
        keys = r.sample(gen.KEYS, r.randrange(1, 4)) + r.sample(ADV_KEYS, r.randrange(1, 3))
        for _ in range(r.randrange(1, maxlen + 1)):
            cmd = other_cmd(r, keys)
            cmd = mutate_cmd(r, cmd, p=0.25)
            if cmd and cmd[0].lower() in NONDET:
                continue
            if len(cmd) > 2 and cmd[0].lower() == b"xadd" and b"*" in cmd[2:4]:
                continue
            c.cmd(cmd)
        c.dump()
        cases.append(c)
    return cases


def gen_c14_filter_cases(seed, ncases):
    """Commands the cluster path treats specially -- refused (PUBLISH/SUBSCRIBE), executed locally
    (RCONF; only forms that fail before a configuration change is sent) -- in every letter case,
    between ordinary commands.  Checked against the model's routing, not against standalone."""
    r = random.Random(seed * 86028121 + 3)
    cases = []
    special = [[b"publish", b"ch", b"msg"], [b"publish"], [b"subscribe", b"ch"], [b"subscribe"], [b"publish", b"a b", b"\xff"],
               [b"rconf"], [b"rconf", b"x", b"1"], [b"rconf", b"nope", b"2", b"http://x"], [b"rconf", b"add", b"zz", b"u"],
               [b"publishx", b"c", b"m"], [b"subscribes", b"c"], [b"rconfx"], [b" publish", b"c", b"m"], [b"publish ", b"c", b"m"]]
    for i in range(ncases):
        c = Case("c14f_%d_%d" % (seed, i))
        for _ in range(r.randrange(1, 8)):
            if r.random() < 0.6:
                cmd = list(pick(r, special))
                cmd[0] = gen.randcase(r, cmd[0])
            else:
                cmd = pick(r, [[b"ping"], [b"set", b"k", b"v"], [b"get", b"k"], [], [b"PING", b"publish"]])
            c.cmd(cmd)
        c.dump()
        cases.append(c)
    return cases


# ---- aliasing family: a command that stores several of its argument slices, then in-place growth
# or modification of an EARLIER stored item, then reads of everything.  If the decoded arguments of a
# log entry shared one backing buffer, the grown item would run over its neighbours.
def _val(r, n, numeric=False):
    if numeric:
        return pick(r, [b"9", b"99", b"999", b"-1", b"0", b"9999999"])
    return bytes(r.choice(b"abcdefghijklmnopqrstuvwxyz") for _ in range(n))


STORES = ["mset2", "mset3", "mset4", "set", "setopt", "setnx", "setex", "append_create", "rpush", "lpush", "sadd", "hset", "zadd", "xadd", "mset_num"]
MUTS = ["append", "append2", "setrange_in", "setrange_end", "setrange_beyond", "incr", "incrby", "decrby", "lset", "hset_over", "hincrby",
        "lpushx", "sadd_more", "zadd_over", "set_keepttl", "getset_like"]


def alias_seq(r, tag, store=None, mut=None, short=None, grow=None):
    """Commands of one store -> mutate-earlier-item -> read-all sequence on keys carrying [tag]."""
    store = store or pick(r, STORES)
    mut = mut or pick(r, MUTS)
    short = short if short is not None else r.choice([1, 2, 3, 5])          # length of the stored items
    grow = grow if grow is not None else r.choice([1, 4, 9, 17, 40])        # how far the first item grows
    num = store == "mset_num" or mut in ("incr", "incrby", "decrby", "hincrby")
    k = [b"%s:k%d" % (tag, i) for i in range(1, 5)]
    v = [_val(r, short, num) for _ in range(4)]
    L, S, H, Z, X = b"%s:l" % tag, b"%s:s" % tag, b"%s:h" % tag, b"%s:z" % tag, b"%s:x" % tag
    big = _val(r, grow)
    cmds = []
    # --- store
    if store in ("mset2", "mset3", "mset4", "mset_num"):
        n = {"mset2": 2, "mset3": 3, "mset4": 4, "mset_num": 3}[store]
        a = [b"mset"]
        for i in range(n):
            a += [k[i], v[i]]
        cmds.append(a)
        cmds.append([b"mset", k[0], v[0], k[1], v[1]] if r.random() < 0.2 else [b"setnx", k[3], v[3]])
    elif store == "set":
        cmds += [[b"set", k[0], v[0]], [b"set", k[1], v[1]]]
    elif store == "setopt":
        cmds += [[b"set", k[0], v[0], b"NX"], [b"set", k[1], v[1], b"EX", b"1000"], [b"set", k[2], v[2], b"XX"]]
    elif store == "setnx":
        cmds += [[b"setnx", k[0], v[0]], [b"setnx", k[1], v[1]]]
    elif store == "setex":
        cmds += [[b"setex", k[0], b"1000", v[0]], [b"setex", k[1], b"1000", v[1]]]
    elif store == "append_create":
        cmds += [[b"append", k[0], v[0]], [b"append", k[1], v[1]]]
    elif store in ("rpush", "lpush"):
        cmds.append([store.encode(), L] + v[:3])
        cmds.append([b"mset", k[0], v[0], k[1], v[1]])
    elif store == "sadd":
        cmds.append([b"sadd", S] + v[:3])
        cmds.append([b"mset", k[0], v[0], k[1], v[1]])
    elif store == "hset":
        cmds.append([b"hset", H, b"f1", v[0], b"f2", v[1], b"f3", v[2]])
        cmds.append([b"mset", k[0], v[0], k[1], v[1]])
    elif store == "zadd":
        cmds.append([b"zadd", Z, b"1", v[0] + b"a", b"2", v[1] + b"b", b"3", v[2] + b"c"])
        cmds.append([b"mset", k[0], v[0], k[1], v[1]])
    elif store == "xadd":
        cmds.append([b"xadd", X, b"1-1", b"f1", v[0], b"f2", v[1]])
        cmds.append([b"mset", k[0], v[0], k[1], v[1]])
    # --- mutate the first / an earlier stored item
    if mut == "append":
        cmds.append([b"append", k[0], big])
    elif mut == "append2":
        cmds += [[b"append", k[0], big[:max(1, len(big) // 2)]], [b"append", k[1], b"-"], [b"append", k[0], big]]
    elif mut == "setrange_in":
        cmds.append([b"setrange", k[0], b"0", big[:max(1, short)]])
    elif mut == "setrange_end":
        cmds.append([b"setrange", k[0], b"%d" % len(v[0]), big])
    elif mut == "setrange_beyond":
        cmds.append([b"setrange", k[0], b"%d" % (len(v[0]) + r.choice([1, 3, 8])), big])
    elif mut == "incr":
        cmds += [[b"incr", k[0]], [b"incr", k[0]]]
    elif mut == "incrby":
        cmds.append([b"incrby", k[0], pick(r, [b"1", b"91", b"999999", b"100000000000"])])
    elif mut == "decrby":
        cmds.append([b"decrby", k[0], pick(r, [b"10", b"1000", b"100000000000"])])
    elif mut == "lset":
        cmds += [[b"lset", L, b"0", big], [b"lset", L, b"1", big + b"!"]]
    elif mut == "hset_over":
        cmds.append([b"hset", H, b"f1", big])
    elif mut == "hincrby":
        cmds += [[b"hset", H, b"n1", b"9", b"n2", b"99"], [b"hincrby", H, b"n1", b"99991"], [b"hincrby", H, b"f1", b"1"]]
    elif mut == "lpushx":
        cmds += [[b"lpushx", L, big], [b"rpushx", L, big]]
    elif mut == "sadd_more":
        cmds += [[b"sadd", S, big, v[0]], [b"srem", S, v[1]]]
    elif mut == "zadd_over":
        cmds += [[b"zadd", Z, b"5", v[0] + b"a"], [b"zadd", Z, b"1", big]]
    elif mut == "set_keepttl":
        cmds += [[b"set", k[0], big, b"KEEPTTL"], [b"append", k[0], big]]
    elif mut == "getset_like":
        cmds += [[b"rename", k[0], k[2]], [b"append", k[2], big], [b"append", k[1], big]]
    # --- read everything back
    cmds.append([b"mget"] + k)
    for key in k:
        cmds.append([b"get", key])
    cmds += [[b"strlen", k[1]], [b"lrange", L, b"0", b"-1"], [b"smembers", S], [b"hgetall", H],
             [b"zrange", Z, b"0", b"-1", b"withscores"], [b"xrange", X, b"-", b"+"]]
    return cmds


def gen_c14_alias_cases(seed, nrandom):
    """Directed: every store kind x every mutator x a short/long growth; plus seeded random ones."""
    r = random.Random(seed * 982451653 + 17)
    cases = []
    i = 0
    for st in STORES:
        for mu in MUTS:
            for short, grow in ((3, 6), (1, 24)):
                c = Case("c14a_%d_%d" % (seed, i))
                i += 1
                for cmd in alias_seq(r, b"a", st, mu, short, grow):
                    c.cmd(cmd)
                c.dump()
                cases.append(c)
    c = Case("c14a_%d_witness" % seed)      # the shape of the witness named in KNOWN_FINDINGS / the seed
    for cmd in ([b"MSET", b"user:1", b"ann", b"user:2", b"bob", b"user:3", b"joe"], [b"APPEND", b"user:1", b"-jones"],
                [b"GET", b"user:2"], [b"GET", b"user:3"], [b"MGET", b"user:1", b"user:2", b"user:3"]):
        c.cmd(cmd)
    c.dump()
    cases.append(c)
    for j in range(nrandom):
        c = Case("c14a_%d_r%d" % (seed, j))
        for t in range(r.randrange(1, 4)):
            for cmd in alias_seq(r, b"t%d" % r.randrange(2)):
                c.cmd(cmd)
            if r.random() < 0.5:
                c.dump()
        c.dump()
        cases.append(c)
    return cases


PAR_CONNS = 4


def par_cmd(r, own):
    """One single-owner command: every key it names belongs to the issuing connection, so the
    replies do not depend on how the commands of different connections interleave."""
    for _ in range(50):
        f = r.randrange(10)
        cmd = gen.string_cmd(r, own) if f < 4 else gen.list_cmd(r, own) if f < 7 else other_cmd(r, own)
        if not cmd:
            return cmd
        n = cmd[0].lower()
        if n in (b"keys", b"blpop", b"brpop", b"select", b"member", b"rconf", b"publish", b"subscribe") or n in NONDET:
            continue
        if n == b"xadd" and any(a == b"*" or a.endswith(b"-*") for a in cmd[2:5]):
            continue
        if r.random() < 0.25:
            cmd[0] = gen.randcase(r, cmd[0])
        return cmd
    return [b"get", own[0]]


def gen_c14_par_cases(seed, ncases, maxrounds=12):
    """Rounds of up to four commands, one per connection, all pending in the node before any of
    them is committed (hook VerifClusterLoopbackMulti).  Keys carry the owner's number; half of
    the rounds use commands of identical encoded length (INCR c<i>:n, SET c<i>:k v<i>), the
    shape under which one pending proposal can be mistaken for another."""
    r = random.Random(seed * 67867967 + 41)
    cases = []
    for i in range(ncases):
        c = Case("c14p_%d_%d" % (seed, i))
        own = [[b"c%d:n" % k, b"c%d:k" % k, b"c%d a b" % k, b"c%d\xff\r\n" % k, b"c%d:l" % k] for k in range(PAR_CONNS)]
        for _ in range(r.randrange(2, maxrounds + 1)):
            conns = r.sample(range(PAR_CONNS), r.randrange(2, PAR_CONNS + 1))
            shape = r.randrange(6)
            for k in conns:
                if shape == 0:
                    cmd = [b"incr", own[k][0]]
                elif shape == 1:
                    cmd = [b"set", own[k][1], b"v%d" % k]
                elif shape == 2:
                    cmd = [b"rpush", own[k][4], b"e%d" % k]
                else:
                    cmd = par_cmd(r, own[k])
                c.cmd(cmd, conn=k)
            if r.random() < 0.3:
                c.dump()
        c.dump()
        cases.append(c)
    return cases


def gen_concurrent_clients(seed, nclients, nops):
    """Per-client command lists for real node processes: every client works on its own keys, the
    commands of different clients have identical encoded lengths (INCR ctr:<c>, SET reg:<c> v<c>-<iii>,
    RPUSH lst:<c> e<iii>) mixed with a few of other lengths."""
    r = random.Random(seed * 2654435761 + 99)
    progs = []
    for cl in range(nclients):
        tag = b"%02d" % cl          # every client its own keys; same length for all clients
        p = []
        for i in range(nops):
            x = r.randrange(10)
            if x < 5:
                p.append([b"incr", b"ctr:" + tag])
            elif x < 7:
                p.append([b"set", b"reg:" + tag, b"v%s-%03d" % (tag, i)])
            elif x < 8:
                p.append([b"get", b"reg:" + tag])
            elif x < 9:
                p.append([b"rpush", b"lst:" + tag, b"e%03d" % i])
            else:
                p.append([b"append", b"app:" + tag, b"x" * r.randrange(1, 40)])
        progs.append(p)
    return progs


HOLD_TIMEOUT_MS = 3000


def gen_c07_hold_cases(seed, ncases):
    """Slow commits: rounds of 1-4 non-idempotent commands (one per connection, own keys) whose commit
    the held loop-back delays by a fraction 0.2 .. 0.95 of ProposalTimeout (lowered to 3 s of virtual
    time), then reads of everything.  A command that was only slow must be in the log once."""
    r = random.Random(seed * 433494437 + 7)
    cases = []
    fr = [0.2, 0.3, 0.4, 0.5, 0.6, 0.7, 0.8, 0.9, 0.95]
    for i in range(ncases):
        c = Case("c07h_%d_%d" % (seed, i))
        keys = [[b"h%d:n" % k, b"h%d:s" % k, b"h%d:l" % k, b"h%d:set" % k, b"h%d:h" % k] for k in range(PAR_CONNS)]
        for rd in range(r.randrange(1, 5)):
            f = fr[(i + rd) % len(fr)] if rd == 0 else pick(r, fr + [0.0])
            c.lines.append("H %d" % int(f * HOLD_TIMEOUT_MS))
            for k in r.sample(range(PAR_CONNS), r.randrange(1, PAR_CONNS + 1)):
                n, st, l, se, h = keys[k]
                x = r.randrange(9)
                cmd = ([b"incr", n] if x == 0 else [b"incrby", n, b"7"] if x == 1 else [b"append", st, b"ab"] if x == 2
                       else [b"lpush", l, b"e%d" % rd] if x == 3 else [b"rpush", l, b"x", b"y"] if x == 4 else [b"lpop", l] if x == 5
                       else [b"sadd", se, b"m%d" % rd, b"m"] if x == 6 else [b"hincrby", h, b"f", b"3"] if x == 7 else [b"decr", n])
                c.cmd(cmd, conn=k)
        c.lines.append("H 0")
        for k in range(PAR_CONNS):
            n, st, l, se, h = keys[k]
            for cmd in ([b"get", n], [b"get", st], [b"lrange", l, b"0", b"-1"], [b"scard", se], [b"hget", h, b"f"]):
                c.cmd(cmd, conn=k)
        c.dump()
        cases.append(c)
    return cases


def gen_c07_late_cases(seed, ncases):
    """A proposal that times out (ProposalTimeout = 3 s of virtual time) while its commit is only held:
    the commit is released at offsets around the time-out instant -- before, exactly at, just after
    (while the ERR reply is being written to a client that has not read yet: 'L <ms>' = slow reader),
    long after -- and the SAME connection then issues further commands, some with held commits of
    their own ('H <ms>' = the client reads at once)."""
    r = random.Random(seed * 179424673 + 11)
    T = HOLD_TIMEOUT_MS
    offs = [T - 600, T - 1, T + 1, T + 2, T + 300, T + 1500, 3 * T]     # not T itself: timer and result at one instant is a coin toss
    cases = []
    for i in range(ncases):
        c = Case("c07l_%d_%d" % (seed, i))
        k = i % PAR_CONNS
        n, st, l = b"L%d:n" % k, b"L%d:s" % k, b"L%d:l" % k
        c.lines.append("H 0")
        for _ in range(r.randrange(0, 3)):
            c.cmd(pick(r, [[b"incr", n], [b"rpush", l, b"w"], [b"set", st, b"s"]]), conn=k)
        for rd in range(r.randrange(1, 3)):
            c.lines.append("L %d" % offs[(i + rd) % len(offs)])
            c.cmd(pick(r, [[b"incr", n], [b"append", st, b"ab"], [b"rpush", l, b"late"], [b"incrby", n, b"10"]]), conn=k)
            if r.random() < 0.3:      # another connection had a command in the same held round
                c.cmd([b"incr", b"L%d:n" % ((k + 1) % PAR_CONNS)], conn=(k + 1) % PAR_CONNS)
            c.lines.append("H 0")
            c.cmd([b"get", b"never:written"], conn=k)
            c.cmd([b"get", n], conn=k)
            c.lines.append("H %d" % pick(r, [1000, 500, 2000]))
            c.cmd(pick(r, [[b"set", b"L%d:k" % k, b"v%d" % rd], [b"incr", n], [b"lpush", l, b"x"]]), conn=k)
            c.lines.append("H 0")
            for cmd in r.sample([[b"get", b"L%d:k" % k], [b"get", st], [b"lrange", l, b"0", b"-1"], [b"get", n], [b"strlen", st], [b"ping", b"tok%d" % i]], 3):
                c.cmd(cmd, conn=k)
        c.dump()
        cases.append(c)
    return cases


TIMED = {b"expire", b"setex", b"ttl", b"blpop", b"brpop", b"persist"}


def clock_free(cmd):
    """True when neither reply nor effect of the command depends on the executing node's clock."""
    if not cmd:
        return True
    n = cmd[0].lower()
    if n in TIMED or n in NONDET:
        return False
    if n == b"set" and any(a.lower() in (b"ex", b"px", b"exat", b"pxat", b"keepttl") for a in cmd[3:]):
        return False
    if n == b"xadd" and any(a == b"*" or a.endswith(b"-*") for a in cmd[2:5]):
        return False
    return True


def gen_process_program(seed, n, fam="sl"):
    """One flat clock-free program (list of argument vectors) for real node processes."""
    r = random.Random(seed * 32452843 + 5)
    keys = r.sample(gen.KEYS, 4) + r.sample(ADV_KEYS, 4)
    prog = []
    while len(prog) < n:
        f = r.choice(fam)
        cmd = gen.string_cmd(r, keys) if f == "s" else gen.list_cmd(r, keys) if f == "l" else other_cmd(r, keys)
        cmd = mutate_cmd(r, cmd)
        if not clock_free(cmd) or not cmd:
            continue
        if cmd[0].lower() in (b"rconf", b"member", b"subscribe", b"publish"):
            continue
        prog.append(cmd)
    return prog


# ------------------------------------------------------------------ C07 (D): Ready sequences
def gen_apply_cases(seed, ncases):
    """A log (kinds: c = command, e = empty no-op entry) and a sequence of Ready batches, each a
    window (lo, len) of the log: contiguous, overlapping the applied prefix, entirely old, repeated,
    empty, of any size -- never starting beyond appliedIndex+1 (Raft's contract; the code answers
    that with log.Fatalf)."""
    r = random.Random(seed * 49979687 + 7)
    out = []
    for i in range(ncases):
        base = r.choice([0, 0, 1, 5, 1000, 2 ** 32, 2 ** 61])
        n = r.randrange(0, 40)
        kinds = "".join(r.choice("ccce") for _ in range(n))
        lines = ["CASE a%d_%d %d %s" % (seed, i, base, kinds)]
        k = 0   # entries applied so far
        for _ in range(r.randrange(1, 25)):
            c = r.randrange(10)
            if c < 4:
                lo = k                                   # contiguous
            elif c < 8:
                lo = r.randrange(0, k + 1)               # overlapping / old
            else:
                lo = r.randrange(0, k + 1) if k else 0
            ln = r.choice([0, 1, 1, 2, 3, 5, 8, 40])
            lines.append("W %d %d" % (lo, ln))
            hi = min(n, lo + ln)
            if hi > lo:
                k = max(k, hi)
        lines.append("END")
        out.append("\n".join(lines))
    return "\n".join(out) + "\n"
