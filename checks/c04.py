"""C04 — no client input can crash, wedge or hang the server (DESIGN.md 3/C04, 7.1).

Theorems (Properties/C04.v): the command model is total, every reply is well-formed and every
step preserves the keyspace invariants, for every command name and argument vector.
Tie: bounded-exhaustive adversarial sweep — every command registered in memdb.CmdTable (read
from the implementation at run time) x every argument vector up to the tier's arity over the
adversarial alphabet, on a keyspace holding a key of each type, under the virtual clock; the
implementation must answer every call (no recovered panic, no nil result, no hang) with the
model's reply, and the keyspace dumps must agree."""
from . import gen_sweep, lib, memlib

PID = "C04"


def make_cases(tier, seed):
    d = lib.scratch("c04reg-")
    rc, out = lib.sh("%s registry %s" % (lib.BUILD / memlib.FT, d / "reg.txt"), cwd=d, timeout=60,
                     extra_env={"GOMAXPROCS": "1"})
    if rc != 0:
        raise RuntimeError("harness registry failed: " + out[-1000:])
    names = (d / "reg.txt").read_text().split()
    names.append("nosuchcommand")
    return gen_sweep.gen_sweep(names, tier, seed)


def run(ctx):
    return memlib.run_family(
        ctx, PID, make_cases,
        rule="every command name registered in memdb.CmdTable (read from the running implementation) x all argument vectors of length 0..%s over the adversarial alphabet (empty, numeric extremes, nan/inf, option keywords of that command, stream-id shapes, a key of each of the six types, a missing key) + seeded longer vectors; keyspace re-populated with one key per type every 150 calls; liveness probes interleaved" % ("2" if ctx.tier == "quick" else "3"),
        extra_tb=["blocking commands run under Go's faketime virtual clock: their delay is observed exactly in virtual milliseconds",
                  "not modelled: stack/heap exhaustion by legitimately large inputs; SUBSCRIBE/PUBLISH/RCONF need a live connection / Raft node and are exercised by C19 / C07 instead"],
        extra_cov=dict(exhaustive=True))
