"""C04 — no client input can crash, wedge or hang the server (DESIGN.md 3/C04, 7.1).

Theorems (Properties/C04.v): the command model is total, every reply is well-formed and every
step preserves the keyspace invariant, for every command name and argument vector, over all
programs; blocking pops return no later than their timeout.
Tie: bounded-exhaustive adversarial sweep — every command registered in memdb.CmdTable (read
from the implementation at run time) x every argument vector up to the tier's arity over the
adversarial alphabet, on a keyspace holding a key of each type, under the virtual clock; the
implementation must answer every call (no recovered panic, no nil result, no hang beyond the
blocking commands' timeout) with the model's reply, and the keyspace dumps must agree."""
import os

from . import gen_sweep, lib, memlib

PID = "C04"
_x = {}


def registry():
    d = lib.scratch("c04reg-")
    rc, out = lib.sh("%s registry %s" % (lib.BUILD / memlib.FT, d / "reg.txt"), cwd=d, timeout=60,
                     extra_env={"GOMAXPROCS": "1"})
    if rc != 0:
        raise RuntimeError("harness registry failed: " + out[-1000:])
    return (d / "reg.txt").read_text().split()


def make_cases(tier, seed):
    names = registry()
    _x["registered"] = names
    names = names + ["nosuchcommand"]
    cases, xcases = gen_sweep.gen_sweep(names, tier, seed)
    _x["xcases"] = xcases
    return cases


def crash_only(ctx, d):
    """Vectors outside the model's exact-decimal domain: run on the implementation only; any
    recovered panic, nil result or harness death is a failing input."""
    xcases = _x.get("xcases") or []
    if not xcases:
        return None, {}
    text = "".join(c.text() for c in xcases)
    prog, out = d / "x.prog", d / "x.trace"
    prog.write_text(text)
    rc, log = lib.sh("%s memrun %s %s %s" % (lib.BUILD / memlib.FT, prog, out, d), cwd=d, timeout=900,
                     extra_env={"GOMAXPROCS": "1"})
    bad = None
    n = 0
    if rc != 0 or not out.exists():
        bad = "harness died or hung on the out-of-domain vectors: rc=%s %s" % (rc, log[-800:])
    else:
        for l in out.read_text().splitlines():
            if l.startswith("S "):
                n += 1
                obs = l.partition("|")[2].strip()
                if obs.startswith("!") and obs != "!BLOCKED":
                    bad = "implementation step without a reply: " + l[:400]
                    break
    return bad, dict(crash_only_steps=n, registered_commands=len(_x.get("registered", [])))


def run(ctx):
    os.environ.setdefault("VERIF_WATCHDOG_MS", "5050")
    return memlib.run_family(
        ctx, PID, make_cases, wire_every=2,
        rule="every command name registered in memdb.CmdTable (read from the running implementation) x all argument vectors of length 0..%s over the adversarial alphabet, plus all vectors one longer whose first argument is one of the seven keys (empty, numeric extremes, nan/inf, option keywords of that command, stream-id shapes, a key of each of the six types, a missing key) + seeded longer vectors; keyspace re-populated with one key per type every 150 calls; liveness probes interleaved; ZADD vectors with scores outside the model's exact-decimal domain are run crash-only" % ("2" if ctx.tier == "quick" else "3"),
        extra_tb=["blocking commands run under Go's faketime virtual clock with a 5.05 s virtual watchdog: a call still blocked then is cancelled and must be one the model also blocks",
                  "not modelled: stack/heap exhaustion by legitimately large inputs; SUBSCRIBE/PUBLISH/RCONF need a live connection / Raft node and are exercised by C19 / C07 / C14 instead"],
        extra_cov=dict(exhaustive=True), post=crash_only)
