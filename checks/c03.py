"""C03 — each command gets exactly one well-formed RESP reply, in request order; payload bytes
are framed so that a conforming client decodes exactly the stored bytes.

Proof half : coq/Properties/C03.v (decode . encode = id for every well-formed reply and any
             continuation; every reply of the command model is well formed; the connection loop
             writes exactly one decodable reply per executed command, in order).
Tie        : pipelined programs over real TCP to the server built from the working tree
             (server.Start, every family registered), written in random chunkings; the raw
             reply bytes are decoded by the extracted `decode_stream` and must (i) decode
             completely, (ii) hold exactly one reply per command sent, (iii) equal, reply for
             reply (errors by class, map-ordered arrays sorted), what the extracted `srv_exec`
             produces for the same program."""
import collections
import json
import random
import re
import threading
import time

from . import gen_resp as G
from . import lib, resplib

PID = "C03"

# hand-written programs that are always run: unknown commands, wrong arity, CR/LF in the command
# name and in every kind of payload position
CORPUS = [
    [[b"x\r\n+OK"], [b"PING"]],
    [[b"GET\r\n", b"k"], [b"\r\n"], [b""], [b"PING", b"a\r\n+b"]],
    [[], [b"PING"], []],
    [[b"GET"], [b"SET", b"k"], [b"DEL"], [b"KEYS"], [b"MSET", b"a"], [b"GETRANGE", b"k", b"0"], [b"LPUSH", b"l"], [b"LRANGE", b"l", b"0"],
     [b"LPOP"], [b"RENAME", b"a"], [b"SELECT"], [b"SELECT", b"a\r\nb"], [b"PING", b"a", b"b"], [b"PING"]],
    [[b"SET", b"corpus:k\r\n", b"v\r\n+OK\r\n$-1\r\n"], [b"GET", b"corpus:k\r\n"], [b"KEYS", b"corpus:k*"], [b"RENAME", b"corpus:k\r\n", b"corpus:\x00\xff"],
     [b"KEYS", b"corpus:*"], [b"TYPE", b"corpus:\x00\xff"], [b"APPEND", b"corpus:\x00\xff", b"\r"], [b"GET", b"corpus:\x00\xff"], [b"DEL", b"corpus:\x00\xff"]],
    [[b"RPUSH", b"corpus:l\r\n", b"", b"\r\n", b"+OK", b"-ERR", b"$5", b":1", b"*2", b"\x00", b"\xff"], [b"LRANGE", b"corpus:l\r\n", b"0", b"-1"],
     [b"BLPOP", b"corpus:l\r\n", b"20"], [b"BRPOP", b"corpus:l\r\n", b"20"], [b"LPOP", b"corpus:l\r\n", b"3"], [b"LINDEX", b"corpus:l\r\n", b"0"],
     [b"LMOVE", b"corpus:l\r\n", b"corpus:m\n", b"left", b"right"], [b"LRANGE", b"corpus:m\n", b"0", b"-1"], [b"DEL", b"corpus:l\r\n", b"corpus:m\n"]],
    [[b"SET", b"corpus:s", b"x"], [b"LPUSH", b"corpus:s", b"a\r\n"], [b"INCR", b"corpus:s"], [b"INCRBY", b"corpus:s", b"1\r\n"], [b"SET", b"corpus:s", b"v", b"bogus\r\n"],
     [b"SETRANGE", b"corpus:s", b"x\r\n", b"v"], [b"LSET", b"corpus:nolist\r\n", b"0", b"v"], [b"RENAME", b"corpus:missing\r\n", b"corpus:b"], [b"DEL", b"corpus:s"]],
]


def build_cases(ctx, families=None):
    n = 550 if ctx.tier == "quick" else 12000
    # every program works on its own key namespace (the programs of a batch share one server)
    progs = [G.Program("corpus%d" % i, [[a.replace(b"corpus:", b"q%d:" % i) for a in cmd] for cmd in c]) for i, c in enumerate(CORPUS)]
    progs += G.alias_programs(ctx.seed, ctx.tier)
    progs += G.gen_programs(ctx.seed, n, families)
    return progs


def to_tcp(r, prog):
    s = prog.stream()
    sizes = G.random_chunking(r, s)
    pause = r.choice([0, 0, 0, 0, 2, 8]) if len(sizes) < 600 else 0
    return resplib.TcpCase(prog.name, s, sizes, "F", pause)


def hx(b):
    return b.hex() if b else "-"


def run_programs(server, d, progs, r, tag):
    """Returns ({name: mismatch text}, trace lines, err)."""
    cases = [to_tcp(r, p) for p in progs]
    # one connection at a time: the property is about the reply stream of a connection, and the
    # model is sequential (concurrent clients are the subject of C05/C13)
    res, err = resplib.run_tcp(server, d, cases, tag=tag, workers=1)
    if err:
        return None, [], err
    return judge_programs(d, progs, res, tag)


def judge_programs(d, progs, res, tag):
    now = time.time()
    inp, ver, tr = d / (tag + ".c03in"), d / (tag + ".verdict"), d / (tag + ".trace")
    with open(inp, "w") as f:
        for p in progs:
            o = res.get(p.name)
            if o is not None and o["status"] == "SKIPPED":
                continue      # the batch was cut short after several dead/slow cases (reported from those)
            f.write("CASE %s 16 %d %d\n" % (p.name, int(now), int(now * 1000)))
            for c in p.cmds:
                f.write("C %s\n" % " ".join(hx(a) for a in c))
            if o is None:
                f.write("R MISSING -\n")
            else:
                st = o["status"] if o["witness"] == "WOK" or o["status"] == "SKIPPED" else "OTHER-CONNECTION-" + o["witness"]
                f.write("R %s %s\n" % (st, hx(o["rx"])))
            f.write("END\n")
    for x in (ver, tr):
        if x.exists():
            x.unlink()
    rc, log = lib.sh("%s tcp %s %s %s" % (lib.BUILD / "c03run", inp, ver, tr), cwd=d, timeout=1800)
    if rc != 0 or not ver.exists():
        return None, [], "c03run rc=%s %s" % (rc, log[-800:])
    mm = {}
    for l in ver.read_text().splitlines():
        if l.startswith("MISMATCH "):
            f = l.split(" ", 2)
            mm[f[1]] = f[2]
    return mm, tr.read_text().splitlines(), None


def fresh_run(d, prog, r, st):
    """one program on a fresh server (no state from earlier runs); (mismatch text or None, trace)"""
    server = resplib.Server(d)
    try:
        if not server.start():
            raise RuntimeError("could not start the server: " + server.stderr_tail())
        st["server_starts"] += 1
        mm, trace, err = run_programs(server, d, [prog], r, "one")
        if err:
            raise RuntimeError(err)
        died = not server.alive()
        txt = mm.get(prog.name)
        if died and not txt:
            txt = "kind=status step=0 model=EOF impl=the server process died"
        return txt, trace, server.stderr_tail() if died else ""
    finally:
        server.stop()


def confirm(d, prog, r, st, runs=3, need=2):
    """(mismatch text, server stderr) if the program fails `need` times with the same kind of
    mismatch in at most `runs` runs, each on a fresh server; (None, "") otherwise"""
    seen, last = collections.Counter(), {}
    for i in range(runs):
        txt, _, serr = fresh_run(d, prog, r, st)
        if txt:
            k = kind_of(txt)
            seen[k] += 1
            last[k] = (txt, serr)
            if seen[k] >= need:
                return last[k]
        elif i + 1 - sum(seen.values()) > runs - need:
            break
    return None, ""


def kind_of(txt):
    m = re.search(r"kind=(\S+)", txt or "")
    return m.group(1) if m else None


def shrink_prog(d, prog, r, st, budget=45):
    base, _, _ = fresh_run(d, prog, r, st)
    want = kind_of(base)

    def bad(cmds):
        if not cmds:
            return False
        t, _, _ = fresh_run(d, G.Program(prog.name, cmds), r, st)
        return t is not None and kind_of(t) == want
    cmds = list(prog.cmds)
    n = 0
    chunk = max(1, len(cmds) // 2)
    while chunk >= 1 and n < budget:
        i, changed = 0, False
        while i < len(cmds) and n < budget:
            cand = cmds[:i] + cmds[i + chunk:]
            n += 1
            if cand != cmds and bad(cand):
                cmds, changed = cand, True
            else:
                i += chunk
        if chunk == 1 and not changed:
            break
        if not changed or chunk > 1:
            chunk //= 2
    # shorten arguments of the remaining commands (keep the failure)
    for ci in range(len(cmds)):
        for ai in range(1, len(cmds[ci])):
            if n >= budget:
                break
            a = cmds[ci][ai]
            for cand_a in (b"", a[:1], a[-2:]):
                if cand_a == a or n >= budget:
                    continue
                cand = [list(c) for c in cmds]
                cand[ci][ai] = cand_a
                n += 1
                if bad(cand):
                    cmds = cand
                    break
    return G.Program(prog.name, cmds)


# ----------------------------------------------------------------------------- slow reader

def slow_size():
    """a value larger than what the server's send buffer plus the client's (fixed, small) receive
    buffer can hold, so that the server is inside conn.Write for the whole pause"""
    try:
        wmax = int(open("/proc/sys/net/ipv4/tcp_wmem").read().split()[2])
    except Exception:
        wmax = 4 << 20
    return max(6 << 20, wmax + wmax // 4 + (1 << 20))


def slow_reader(d, pause_ms, tag, st, size=None):
    """SET big; then GET big + PING in one write; the client reads nothing for pause_ms; then reads to
    EOF.  The bytes are decoded by the extracted decode_stream: exactly [bulk = the stored value,
    +PONG].  Returns (mismatch text or None, info)."""
    size = size or slow_size()
    raw, val, out = d / (tag + ".raw"), d / (tag + ".val"), d / (tag + ".out")
    server = resplib.Server(d)
    info = dict(size=size, pause_ms=pause_ms)
    try:
        if not server.start():
            raise RuntimeError("could not start the server: " + server.stderr_tail())
        st["server_starts"] += 1
        rc, log = lib.sh([str(lib.BUILD / resplib.H), "slowread", server.addr(), str(size), str(pause_ms), str(raw), str(val), "131072"],
                         cwd=d, timeout=pause_ms / 1000 + 1500)
        line = (log.strip().splitlines() or [""])[-1].split()
        if rc != 0 or len(line) < 4:
            raise RuntimeError("harness_resp slowread rc=%s %s" % (rc, log[-500:]))
        info.update(status=line[0], received=int(line[1]), recvq_at_wakeup=int(line[2]), read_ms=int(line[3]), server_alive=server.alive())
        if line[0] != "EOF" or not server.alive():
            return "kind=status model=EOF impl=%s%s" % (line[0], "" if server.alive() else " (the server process died)"), info
        # the extracted decoder recurses once per payload byte: give it the stack, and a large minor
        # heap (every minor collection scans that deep stack: 20 s with the default, 1.5 s with 32M words)
        rc, log = lib.sh("ulimit -s unlimited 2>/dev/null || ulimit -s $(ulimit -Hs) 2>/dev/null; exec %s slowread %s %s %s"
                         % (lib.BUILD / "c03run", raw, val, out), cwd=d, timeout=1800, extra_env={"OCAMLRUNPARAM": "s=32M"})
        if rc != 0 or not out.exists():
            raise RuntimeError("c03run slowread rc=%s %s" % (rc, log[-500:]))
        txt = out.read_text().strip()
        info["verdict"] = txt[:300]
        return (None if txt.startswith("OK ") else txt.replace("MISMATCH ", "", 1)), info
    finally:
        server.stop()
        for f in (raw, val):
            try:
                f.unlink()
            except OSError:
                pass


def confirm_slow(d, pause_ms, st, first, size=None):
    """the reproduction rule for the slow-reader scenario: 2 failures of the same kind in at most 3 runs"""
    seen = collections.Counter([kind_of(first)] if first else [])
    last = first
    runs = 1
    while runs < 3 and last is not None and max(seen.values()) < 2:
        txt, info = slow_reader(d, pause_ms, "slowc%d" % runs, st, size)
        runs += 1
        if txt:
            seen[kind_of(txt)] += 1
            last = txt
        elif runs - sum(seen.values()) >= 2:
            return None
    return last if seen and max(seen.values()) >= 2 else None


def write_obligation(d):
    """`harness_resp writecheck`: the premise write_atomic_or_close re-read from server/db_manager.go"""
    out = d / "writecheck.json"
    rc, log = lib.sh("%s writecheck %s %s" % (lib.BUILD / resplib.H, lib.REPO, out), cwd=d, timeout=120)
    if rc != 0 or not out.exists():
        return None, "writecheck failed: " + log[-800:]
    facts = json.loads(out.read_text())
    wbroken = ebroken = None
    if not facts.get("writes_ok"):
        bad = [w for w in (facts.get("writes") or []) if not w["guarded"]] + (facts.get("unrecognised") or [])
        why = "; ".join("%s:%s %s: %s" % (w["file"], w["line"], w["what"], w.get("why", "")) for w in bad[:4]) or \
            "Handle/HandleCluster or their conn.Write calls not found: the code no longer has the shape the model describes"
        wbroken = ("the reply writes of Manager.Handle/HandleCluster are neither deadline-free nor followed by closing the connection on error "
                   "(premise write_atomic_or_close): " + why)
    if not facts.get("encoders_ok"):
        why = "; ".join("%s:%s %s: %s %s" % (w["file"], w["line"], w["func"], w["what"], w.get("why", "")) for w in (facts.get("encoder_issues") or [])[:4]) or \
            "no ToBytes method found in package resp"
        ebroken = "a reply encoder (resp ToBytes) may return memory that is retained or reused after it returns (premise: a reply's bytes are its own until written): " + why
    if not facts.get("commands_ok"):
        why = "; ".join("%s:%s %s: %s %s" % (w["file"], w["line"], w["func"], w["what"], w.get("why", "")) for w in (facts.get("command_issues") or [])[:4]) or \
            "no ToCommand method found in package resp"
        ebroken = (ebroken + " ALSO: " if ebroken else "") + \
            "the arguments handed to the executors (resp ToCommand) may share spare capacity (premise: every argument has its own allocation or a clipped capacity): " + why
        facts["commands_broken_only"] = bool(facts.get("encoders_ok"))
    return facts, wbroken, ebroken


# ----------------------------------------------------------------------------- concurrent readers

def shorten_mismatch(txt, keep=160):
    """a mismatch line of c03run may carry MiBs of hex: keep the place where model and impl part"""
    m = re.match(r"(.*?kind=\S+ step=\d+ )model=(.*) impl=(.*)$", txt, re.S)
    if not m or len(txt) < 1200:
        return txt[:1500]
    a, b = m.group(2), m.group(3)
    i = 0
    n = min(len(a), len(b))
    while i < n and a[i] == b[i]:
        i += 1
    lo = max(0, i - keep // 2)
    return "%smodel(%d chars)=...%s... impl(%d chars)=...%s... (canonical reply texts part at character %d)" % (
        m.group(1), len(a), a[lo:lo + keep], len(b), b[lo:lo + keep], i)


def light_programs(seed, n):
    """array-reply programs of every family for the connections that run next to the big readers
    (no KEYS: it scans the whole keyspace, which other connections are writing)"""
    fams = {k: v for k, v in G.FAMILIES.items() if k in ("lists", "sets", "hashes", "zsets", "streams", "strings")}
    progs = G.gen_programs(seed + 77, n, fams, maxlen=16)
    out = []
    for p in progs:
        cmds = [c for c in p.cmds if not (c and c[0].lower() in (b"keys", b"blpop", b"brpop"))]
        out.append(G.Program("l" + p.name, cmds, p.families))
    return out


def conc_scenario(d, st, seed, rounds, pause_ms, tag, victims=6, heavy=24):
    """several slow readers of one big array reply + many concurrent big array replies on another
    key + ordinary programs of every family, all on one server; every byte stream is decoded by the
    extracted decoder and compared with the command model.  Returns (mismatch text or None, info)."""
    od = d / tag
    od.mkdir(exist_ok=True)
    size_a = slow_size()
    size_b = size_a - (1 << 20)
    info = dict(victims=victims, heavy=heavy, rounds=rounds, pause_ms=pause_ms, size_a=size_a, size_b=size_b)
    server = resplib.Server(d)
    light = dict(mm={}, err=None, n=0)
    try:
        if not server.start():
            raise RuntimeError("could not start the server: " + server.stderr_tail())
        st["server_starts"] += 1
        progs = light_programs(seed, 120)

        def light_job():
            try:
                r2 = random.Random(seed + 5)
                cases = [to_tcp(r2, p) for p in progs]
                for c in cases:
                    c.pause = 0
                res, err = resplib.run_tcp(server, d, cases, tag=tag + "light", workers=4)
                light["res"], light["err"] = res, err
            except Exception as ex:      # reported below
                light["err"] = str(ex)
        lt = threading.Thread(target=light_job, daemon=True)
        lt.start()
        rc, log = lib.sh([str(lib.BUILD / resplib.H), "concurrent", server.addr(), str(od), str(victims), str(heavy), str(rounds), str(pause_ms),
                          str(size_a), str(size_b)], cwd=d, timeout=1500)
        lt.join()
        try:
            summ = json.loads((log.strip().splitlines() or ["{}"])[-1])
        except ValueError:
            summ = {}
        if rc != 0 or "connections" not in summ:
            if not server.alive():
                return "kind=status step=0 model=EOF impl=the server process died: " + server.stderr_tail(400), info
            raise RuntimeError("harness_resp concurrent rc=%s %s" % (rc, log[-500:]))
        info.update(summ)
        info["server_alive"] = server.alive()
        ver, tr = od / "verdict", od / "trace"
        rc, log = lib.sh(resplib.BIGSTACK + "exec %s tcp %s %s %s" % (lib.BUILD / "c03run", od / "conc.c03in", ver, tr), cwd=d, timeout=1800,
                         extra_env=resplib.OCAMLENV)
        if rc != 0 or not ver.exists():
            raise RuntimeError("c03run (concurrent scenario) rc=%s %s" % (rc, log[-500:]))
        bad = [l for l in ver.read_text().splitlines() if l.startswith("MISMATCH ")]
        info["decoded_cases"] = sum(1 for l in ver.read_text().splitlines() if l.startswith(("OK ", "MISMATCH ")))
        # the light programs: same comparison as the main batch
        if light["err"]:
            raise RuntimeError("light programs: " + str(light["err"]))
        lmm, _, lerr = judge_programs(d, progs, light["res"], tag + "lightj")
        if lerr:
            raise RuntimeError(lerr)
        info["light_programs"] = len(progs)
        info["light_mismatches"] = len(lmm)
        if not server.alive():
            return "kind=status step=0 model=EOF impl=the server process died: " + server.stderr_tail(400), info
        if bad:
            return shorten_mismatch(bad[0].split(" ", 1)[1]), info
        if lmm:
            name = sorted(lmm)[0]
            return "light program %s: %s" % (name, shorten_mismatch(lmm[name])), info
        return None, info
    finally:
        server.stop()
        for f in (od / "conc.c03in", od / "trace"):
            try:
                f.unlink()
            except OSError:
                pass


def confirm_conc(d, st, seed, rounds, pause_ms, first):
    """reproduction rule: the scenario must fail twice in at most three runs"""
    fails, runs, last = (1 if first else 0), 1, first
    while runs < 3 and fails < 2 and fails + (3 - runs) >= 2:
        txt, _ = conc_scenario(d, st, seed, rounds, pause_ms, "concc%d" % runs)
        runs += 1
        if txt:
            fails += 1
            last = txt
    return last if fails >= 2 else None


def stats(trace):
    shapes, kinds, cmds = set(), collections.Counter(), collections.Counter()
    crlf_bulks = err_lines = 0
    for l in trace:
        if not l.startswith("S "):
            continue
        left, _, _ = l.partition(" | ")
        f = left.split(" ", 5)
        name = bytes.fromhex(f[3]).lower() if f[3] != "-" else b""
        obs = f[5]
        k = obs[:2] if obs[:1] == "-" else ("$nil" if obs == "$nil" else "*nil" if obs == "*nil" else obs[:1])
        kinds[k] += 1
        cmds[name.decode("latin-1")] += 1
        shapes.add((name, f[4], k))
        if k.startswith("-"):
            err_lines += 1
        for tok in re.findall(r"\$([0-9a-f]+)", obs):
            if any(tok[i:i + 2] in ("0d", "0a") for i in range(0, len(tok), 2)):
                crlf_bulks += 1
    return shapes, kinds, cmds, crlf_bulks, err_lines


def readable_prog(cmds):
    return [" ".join(repr(a)[1:] for a in c) if c else "(empty command *0)" for c in cmds]


def replay(ctx, d):
    r = json.load(open(ctx.replay))
    if r.get("kind") == "concurrent-readers":
        st = dict(server_starts=0)
        txt, info = conc_scenario(d, st, int(r.get("seed", ctx.seed)), int(r["rounds"]), int(r["pause_ms"]), "replay")
        print(info)
        print(txt or "every connection's bytes decode to the replies of its own commands")
        return 1 if txt else 0
    if r.get("kind") == "slow-reader":
        st = dict(server_starts=0)
        txt, info = slow_reader(d, int(r["pause_ms"]), "replay", st, int(r["size"]))
        print(info)
        print(txt or "two well-formed replies: the stored value, then +PONG")
        return 1 if txt else 0
    if "commands_hex" not in r:
        print("replay file names no input (%s): re-running the proof gate only" % r.get("kind"))
        cov, broken = lib.proof_gate(ctx)
        print(broken or "proofs check")
        return 1 if broken else 0
    cmds = [[resplib.unhex(a) for a in c] for c in r["commands_hex"]]
    st = dict(server_starts=0)
    txt, trace, serr = fresh_run(d, G.Program("replay", cmds), random.Random(ctx.seed), st)
    for l in trace:
        print(l)
    print(txt or "implementation and model agree: one reply per command, in order")
    if serr:
        print(serr)
    return 1 if txt else 0


def run(ctx, families=None):
    cov, broken = lib.proof_gate(ctx, extra_tb=resplib.RESP_TB + [
        "ml/c03run.ml + ml/memrun.ml (canonical reply text, errors compared by class, map-ordered replies sorted): trusted glue",
        "modelled, not verified: net.Conn.Write (as appending to the byte stream the client reads), Go string/[]byte conversions in ToBytes, strconv.Itoa/FormatInt (Base/GoInt.v z_to_dec)",
    ])
    berr = resplib.build(want_c03=True)
    d = lib.scratch("c03-")
    if ctx.replay:
        if berr:
            print(berr)
            return 1
        return replay(ctx, d)
    r = random.Random(ctx.seed * 31337 + 11)
    st = dict(server_starts=0)
    failing, trace, progs = None, [], []
    slow = dict(txt=None, info={}, err=None, done=False)
    T = 6500 if ctx.tier == "quick" else 35000
    wfacts, wbroken, ebroken = None, None, None
    conc = dict(txt=None, info={}, err=None)
    CR, CP = (2, 600) if ctx.tier == "quick" else (6, 1500)
    if not berr:
        wfacts, wbroken, ebroken = write_obligation(d)
        if wfacts is None:
            berr, wbroken = wbroken, None

        def slow_job():
            try:
                slow["txt"], slow["info"] = slow_reader(d, T, "slow", st)
                slow["done"] = True
            except RuntimeError as ex:
                slow["err"] = str(ex)
        def conc_job():
            try:
                conc["txt"], conc["info"] = conc_scenario(d, st, ctx.seed, CR, CP, "conc")
            except RuntimeError as ex:
                conc["err"] = str(ex)
        th = threading.Thread(target=slow_job, daemon=True)
        th.start()      # runs next to the program batch: its 6.5 s of not reading cost no wall time
        th2 = threading.Thread(target=conc_job, daemon=True)
        th2.start()     # the concurrent big-reply scenario, likewise on a server of its own
        try:
            progs = build_cases(ctx, families)
            server = resplib.Server(d)
            try:
                if not server.start():
                    raise RuntimeError("could not start the server (harness_resp serve): " + server.stderr_tail())
                st["server_starts"] += 1
                mm, trace, err = run_programs(server, d, progs, r, "main")
                if err:
                    raise RuntimeError(err)
                died = not server.alive()
                serr = server.stderr_tail() if died else ""
            finally:
                server.stop()
            notes = []
            if mm or died:
                # A discrepancy seen in the batch counts only if the same program fails again, in the
                # same way, on a fresh server (2 failures in at most 3 runs): the batch shares the
                # machine with whatever else is running.
                suspects = [p for p in progs if p.name in mm][:10]
                for p in suspects:
                    txt, serr1 = confirm(d, p, r, st)
                    if txt:
                        small = shrink_prog(d, p, r, st)
                        txt2, tr2, serr2 = fresh_run(d, small, r, st)
                        if not txt2 or kind_of(txt2) != kind_of(txt):
                            small, txt2, tr2, serr2 = p, txt, [], serr1
                        failing = dict(kind="impl-vs-model", case=p.name, mismatch=txt2, commands_hex=[[hx(a) for a in c] for c in small.cmds],
                                       commands=readable_prog(small.cmds), trace=tr2[-30:], shrunk_from=len(p.cmds), server_stderr=serr2)
                        break
                    notes.append(dict(case=p.name, mismatch=mm[p.name][:200], reproduced=False))
                if failing is None and died:
                    # no single program kills the process: does the batch do it again?
                    server = resplib.Server(d)
                    try:
                        server.start()
                        st["server_starts"] += 1
                        run_programs(server, d, progs, r, "main2")
                        died2 = not server.alive()
                        serr2 = server.stderr_tail() if died2 else ""
                    finally:
                        server.stop()
                    if died2:
                        failing = dict(kind="impl-vs-model", case="(whole batch, twice)", mismatch="the server process died while serving the batch, twice; no single program reproduces it",
                                       commands_hex=[], commands=[], process_died=True, server_stderr=serr2 or serr)
                    else:
                        notes.append(dict(case="(batch)", mismatch="the server process died once during the batch; not reproduced", reproduced=False))
            st["unreproduced_discrepancies"] = notes[:10]
        except RuntimeError as ex:
            berr = str(ex)
        th.join()
        th2.join()
        try:
            if failing is None and not berr:
                if conc["err"]:
                    raise RuntimeError(conc["err"])
                ctxt, rounds = conc["txt"], CR
                ctxt = confirm_conc(d, st, ctx.seed, rounds, CP, ctxt) if ctxt else None
                if conc["txt"] and not ctxt:
                    st.setdefault("unreproduced_discrepancies", []).append(dict(case="concurrent-readers", mismatch=conc["txt"][:300], reproduced=False))
                if ctxt is None and ebroken and not (wfacts or {}).get("commands_broken_only"):
                    # the structural premise about the encoders is broken: look harder for the failing input
                    rounds = 8 if ctx.tier == "quick" else 20
                    t1, info1 = conc_scenario(d, st, ctx.seed, rounds, CP, "conclong")
                    ctxt = confirm_conc(d, st, ctx.seed, rounds, CP, t1) if t1 else None
                if ctxt:
                    ci = conc["info"]
                    failing = dict(kind="concurrent-readers", mismatch=ctxt, rounds=rounds, pause_ms=CP, seed=ctx.seed,
                                   scenario=["setup: RPUSH conc:bigA<CR><LF> (about %s bytes in 65521-byte elements), RPUSH conc:bigB (about %s bytes in 70001-byte elements)" % (ci.get("size_a"), ci.get("size_b")),
                                             "%d times: 6 connections send LRANGE conc:bigA<CR><LF> 0 -1 ; PING and read nothing for %d ms; 100 ms later 24 connections send LRANGE conc:bigB 0 -1 ; PING and read at once" % (rounds, CP),
                                             "120 ordinary programs (lists, sets, hashes, sorted sets, streams, strings) run on 4 more connections meanwhile"],
                                   expected="every connection's bytes decode (extracted decode_stream) to exactly the replies the model gives for its own commands",
                                   structural_premise=ebroken or "holds (harness_resp writecheck, encoders)")
            if failing is None and not berr:
                if slow["err"]:
                    raise RuntimeError(slow["err"])
                txt, pause = slow["txt"], T
                txt = confirm_slow(d, pause, st, txt) if txt else None
                if slow["txt"] and not txt:
                    st.setdefault("unreproduced_discrepancies", []).append(dict(case="slow-reader", mismatch=slow["txt"][:200], reproduced=False))
                if txt is None and wbroken:
                    # the structural premise is broken: look for the failing input with a longer pause
                    pause = 15000 if ctx.tier == "quick" else 75000
                    t1, info1 = slow_reader(d, pause, "slowlong", st)
                    txt = confirm_slow(d, pause, st, t1) if t1 else None
                    slow["info_long"] = info1
                if txt:
                    size = slow["info"].get("size") or slow_size()
                    failing = dict(kind="slow-reader", mismatch=txt, size=size, pause_ms=pause,
                                   scenario=["SET slow:reader<CR><LF>key <%d bytes>  -> +OK" % size, "GET slow:reader<CR><LF>key ; PING   (one write)",
                                             "the client reads nothing for %d ms, then reads to EOF" % pause],
                                   expected="two replies: the stored value as one bulk string, then +PONG",
                                   structural_premise=wbroken or "holds (harness_resp writecheck)")
        except RuntimeError as ex:
            berr = str(ex)
    rc = 0
    if failing and failing.get("kind") == "concurrent-readers":
        failing["note"] = ("bytes read by connections that ran concurrently were decoded by the extracted decode_stream and compared with the extracted srv_exec "
                           "(keys are per connection or read-only, so any interleaving gives the same replies); re-run with ./check C03 --replay <this file>")
        lib.violation(PID, failing)
        ctx.violations += 1
        rc = 1
    elif failing and failing.get("kind") == "slow-reader":
        failing["note"] = ("the bytes the server wrote for the pipeline GET big; PING were decoded by the extracted decode_stream; kind=shape: they are not "
                           "[one bulk string, +PONG] (a reply abandoned part-way with the next reply written behind it), kind=payload: the bulk differs from the "
                           "stored value; re-run with ./check C03 --replay <this file>")
        lib.violation(PID, failing)
        ctx.violations += 1
        rc = 1
    elif failing:
        failing["note"] = ("raw reply bytes read from the server were decoded by the extracted decode_stream and compared with the extracted "
                           "srv_exec; kind=reply: reply i differs (a line-framed reply split by CR/LF shows up here), kind=count: not one reply "
                           "per command, kind=leftover: undecodable bytes, kind=status: the connection/process did not survive")
        lib.violation(PID, failing)
        ctx.violations += 1
        rc = 1
    elif broken or berr or wbroken or ebroken:
        searched = None
        if not (broken or berr):
            searched = ("slow-reader scenario with pauses of %d ms and a longer one found no failing input" % T) if wbroken else \
                ("the aliasing family of the program batch (store several arguments, grow an earlier one in place, read all) found no failing input"
                 if (wfacts or {}).get("commands_broken_only") else "concurrent big-reply scenario with %d and with more rounds found no failing input" % CR)
        lib.violation(PID, dict(kind="tie-broken", what=broken or berr or wbroken or ebroken, searched=searched,
                                writecheck=wfacts if (wbroken or ebroken) else None), found_input=False)
        ctx.violations += 1
        rc = 1
    for kf in lib.known_findings(PID):
        if kf["kind"] == "open":
            print("KNOWN-FINDING: property=%s %s %s" % (PID, kf["id"], kf["text"]))
    shapes, kinds, cmds, crlf_bulks, err_lines = stats(trace)
    cov["obligations"] += 3          # the structural premises (harness_resp writecheck): reply writes, reply encoders, command arguments
    if wfacts and wfacts.get("commands_ok") and not broken:
        cov["discharged"] += 1
    if wfacts and wfacts.get("writes_ok") and not broken:
        cov["discharged"] += 1
    if wfacts and wfacts.get("encoders_ok") and not broken:
        cov["discharged"] += 1
    samples = []
    for p in progs[7:9]:
        samples.append(dict(program=readable_prog(p.cmds)[:8], trace=[l for l in trace if l.startswith("S %s " % p.name)][:8]))
    cov.update(dict(
        evaluations=sum(kinds.values()), programs=len(progs), distinct_nontrivial=len(shapes),
        rule=("seeded pipelined programs (1-24 commands; families: %s) over real TCP, written in random chunkings (whole, single bytes, random cuts, cuts inside "
              "CRLF and inside lengths); keys and payloads drawn from pools that always contain CR, LF, CRLF, + - $ : *, NUL, 0xff and the empty string; "
              "plus the aliasing family (every store kind x every in-place mutator of an earlier stored item, then reads of all keys) and %d hand-written programs (unknown commands, CR/LF in the command name, every wrong arity, the empty command); evaluations = replies "
              "compared; distinct_nontrivial = distinct (command, arity, reply kind) triples observed") % (", ".join(sorted((families or G.FAMILIES))), len(CORPUS)),
        commands={k: v for k, v in sorted(cmds.items())}, reply_kinds=dict(kinds),
        bulk_payloads_with_cr_or_lf_decoded=crlf_bulks, error_replies=err_lines, server_starts=st["server_starts"],
        unreproduced_discrepancies=st.get("unreproduced_discrepancies", []),
        slow_reader=dict(slow["info"], pause_ms=T, note="SET big; GET big + PING in one write; client silent for pause_ms; reply bytes decoded by the extracted decode_stream: [bulk = stored value, +PONG]"),
        concurrent_readers=dict(conc["info"], note="slow readers of a big array reply + concurrent big array replies + ordinary programs on one server; all byte streams decoded by the extracted decoder"),
        command_obligation=dict(ok=bool(wfacts and wfacts.get("commands_ok")), functions=(wfacts or {}).get("command_funcs") or [], issues=(wfacts or {}).get("command_issues") or []),
        aliasing_programs=sum(1 for p in progs if "aliasing" in p.families),
        encoder_obligation=dict(ok=bool(wfacts and wfacts.get("encoders_ok")), functions=(wfacts or {}).get("encoder_funcs") or [], issues=(wfacts or {}).get("encoder_issues") or []),
        write_obligation=dict(ok=bool(wfacts and wfacts.get("writes_ok")), shape=(wfacts or {}).get("shape"), writes=len((wfacts or {}).get("writes") or []),
                              deadlines_in_server=(wfacts or {}).get("deadlines_in_server") or [], deadlines_elsewhere=(wfacts or {}).get("deadlines_elsewhere") or []),
        samples=samples or ["(none)"],
        correspondence="bytes written by the real server (server.Start over TCP) decoded by extracted decode_stream: complete, one reply per command, equal to extracted srv_exec reply for reply",
    ))
    lib.write_evidence(PID, ctx.tier, ctx.seed, cov,
                       ["Go runtime, net", "extraction + OCaml compiler",
                        "families whose executors are not yet in Mem/Exec.v `families` (hashes, sets, sorted sets, streams, pub/sub) are not exercised by this check",
                        "error texts are compared by class; that an error is ONE line is checked by the decoder (reply count, no leftover)",
                        "inline (non-array) input gets no reply and is not a command (out of scope, DESIGN C03)"],
                       ctx.wall(), ctx.violations)
    return rc
