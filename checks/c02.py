"""C02 — RESP request decoding is exact, binary-safe and fragmentation-independent; malformed
bytes never crash the server, nothing from the malformed part is executed.

Proof half : coq/Properties/C02.v (theorems about `events`, `events_chunked`, `handle`, the model
             of resp/parser.go and of the loop of server.Manager.Handle).
Tie        : (1) resp.ParseStream, built from the working tree, fed through an io.Reader that
             returns prescribed chunks, against the extracted `events` / `events_chunked`;
             (2) the same kind of streams over TCP to the real server (server.Start): number of
             replies = |executed| of the model, the server closes the offending connection by
             itself, commands after the error leave no trace in the keyspace, the other
             connections and the process stay alive."""
import collections
import hashlib
import json
import random
import re

from . import gen_resp as G
from . import lib, resplib

PID = "C02"
SAFE = {b"ping", b"set", b"get", b"rpush", b"lrange", b"llen", b"strlen", b"exists", b"del", b"type", b"append", b"mset", b"mget", b"setrange"}


# ----------------------------------------------------------------------------- in-process part

def run_inproc(d, case_lines, tag, workers=8, per_case_timeout=120):
    """case_lines: '<id>\\t<hex>\\t<spec>\\t<seed>'.  Returns {id: impl fields}, {id: (events, executed, end)}."""
    cf, of = d / (tag + ".cases"), d / (tag + ".impl")
    cf.write_text("".join(l + "\n" for l in case_lines))
    if of.exists():
        of.unlink()
    rc, log = lib.sh("%s run %s %s %d %d" % (lib.BUILD / resplib.H, cf, of, workers, per_case_timeout), cwd=d, timeout=3000)
    if rc != 0 or not of.exists():
        raise RuntimeError("harness_resp run failed rc=%s: %s" % (rc, log[-1500:]))
    impl = {}
    for l in of.read_text().splitlines():
        f = l.split("\t")
        impl[f[0]] = f
    streams = [(l.split("\t")[0], resplib.unhex(l.split("\t")[1])) for l in case_lines]
    return impl, resplib.model_events(d, streams, tag=tag)


def model_chunked(d, items, tag):
    """items: (id, stream, sizes) -> {id: events text} computed by the extracted events_chunked"""
    inp, out = d / (tag + ".cin"), d / (tag + ".cmodel")
    inp.write_text("".join("%s\t%s\t%s\n" % (i, resplib.hexs(s), ",".join(map(str, z))) for i, s, z in items))
    rc, log = lib.sh(resplib.BIGSTACK + "exec %s chunked %s %s" % (lib.BUILD / resplib.RESPRUN, inp, out), cwd=d, timeout=1800, extra_env=resplib.OCAMLENV)
    if rc != 0:
        raise RuntimeError("resprun chunked failed: " + log[-800:])
    return {l.split("\t")[0]: l.split("\t")[1] for l in out.read_text().splitlines()}


def judge_inproc(f, mev):
    """f: impl fields of one case; mev: model events text. None when they agree."""
    if f is None:
        return dict(what="no result from the harness")
    if f[1] == "CRASH":
        return dict(what="resp.ParseStream panicked (the process died)", impl="CRASH", model=mev)
    if f[1] == "HANG":
        return dict(what="resp.ParseStream neither delivered EOF nor finished", impl="HANG", model=mev)
    if f[1] == "DIFF":
        return dict(what="the events depend on how the stream is split into reads", chunking_a=f[2], impl_a=f[3],
                    chunking_b=f[4], impl_b=f[5], model=mev)
    if f[1] != "OK" or f[3] != mev:
        return dict(what="events delivered by resp.ParseStream differ from the model", impl=f[3] if len(f) > 3 else f[1], model=mev)
    return None


def shrink_inproc(d, stream, seed):
    def bad(s):
        spec = "all" if len(s) <= 10 else "r8"
        try:
            impl, mod = run_inproc(d, ["z\t%s\t%s\t%d" % (resplib.hexs(s), spec, seed)], "shrink", workers=1, per_case_timeout=40)
        except RuntimeError:
            return True
        return judge_inproc(impl.get("z"), mod["z"][0]) is not None
    return resplib.ddmin(stream, bad, budget=150)


def event_shape(ev):
    out = []
    for e in ev.split(" "):
        out.append("A" if e.startswith("A") else "D" if e.startswith("D") else e)
    return " ".join(out[:12])


def inproc_part(ctx, d):
    """Returns (failing-or-None, stats)."""
    r = random.Random(ctx.seed * 1000003 + 17)
    gf = d / "gen.cases"
    rc, log = lib.sh("%s gen %s %s %d" % (lib.BUILD / resplib.H, gf, ctx.tier, ctx.seed), cwd=d, timeout=600)
    if rc != 0:
        raise RuntimeError("harness_resp gen failed: " + log[-800:])
    lines = gf.read_text().splitlines()
    # explicit chunkings, so that the extracted events_chunked sees the very same read sizes
    nx = 1000 if ctx.tier == "quick" else 8000
    explicit = []
    for i in range(nx):
        if i % 4 == 3:
            s = G.encode_pipeline(G.tcp_pipeline(r, b"x%d:" % i))
            for _ in range(r.randrange(1, 3)):
                s = G.mutate(r, s)
        else:
            s = G.encode_pipeline(G.tcp_pipeline(r, b"x%d:" % i))
        if G.big_alloc(s) or not s:
            continue
        z = G.random_chunking(r, s)
        explicit.append(("x%d" % i, s, z))
        lines.append("x%d\t%s\tc:%s\t%d" % (i, resplib.hexs(s), ",".join(map(str, z)), ctx.seed))
    # header numbers that are legal lengths only modulo 2^64 (and other out-of-range decimals), under
    # whole / 1-byte / random chunkings incl. cuts inside the number
    hn = G.header_number_streams()
    for i, s in enumerate(hn):
        lines.append("h%d\t%s\tr6\t%d" % (i, resplib.hexs(s), ctx.seed))
    # length boundaries: big arguments whose payload ends at / next to the places where a reader
    # that works in pieces (bufio's 4096 bytes, 2^15, 2^16, powers of two) hands over
    nb = 0
    for cid, s, spec, _, _ in G.boundary_cases(r, ctx.tier):
        lines.append("%s\t%s\t%s\t%d" % (cid, resplib.hexs(s), spec, ctx.seed))
        nb += 1
        if len(s) < 70000 and nb % 3 == 0:      # some of them also through the extracted events_chunked
            z = [int(x) for x in spec.split("|")[-1][1:].split(",")]
            explicit.append((cid + "c", s, z))
            lines.append("%sc\t%s\tc:%s\t%d" % (cid, resplib.hexs(s), ",".join(map(str, z)), ctx.seed))
    impl, mod = run_inproc(d, lines, "main")
    cmod = model_chunked(d, explicit, "main")
    st = dict(streams=len(lines), evaluations=0, nontrivial=set(), shapes=set(), kinds=collections.Counter(),
              exhaustive_small=sum(1 for l in lines if l.startswith("e")), explicit_chunkings=len(explicit), length_boundary_streams=nb, header_number_streams=len(hn),
              lines=lines, mod=mod)
    candidates = []
    for l in lines:
        cid, hx, spec, _ = l.split("\t")
        f, mev = impl.get(cid), mod[cid][0]
        if f and f[1] == "OK":
            st["evaluations"] += int(f[2])
        st["kinds"][cid[0]] += 1
        if " " in mev:      # more than the bare EOF
            st["nontrivial"].add(hx)
        st["shapes"].add(event_shape(mev))
        j = judge_inproc(f, mev)
        if j is None and cid in cmod and cmod[cid] != mev:
            j = dict(what="extracted events_chunked and events disagree (theorem C02_chunking says they cannot)", impl=cmod[cid], model=mev)
        if j and len(candidates) < 6:
            candidates.append((l, dict(kind="parser-vs-model", case=cid, stream=resplib.unhex(hx), chunk_spec=spec, **j)))
    # a discrepancy counts only if the same case fails again when run alone (CRASH / HANG are
    # decided by timeouts, which a loaded machine can miss): 2 failures in at most 3 runs
    failing, notes = None, []
    for l, cand in candidates:
        fails = 0
        for i in range(3):
            impl1, mod1 = run_inproc(d, [l], "confirm", workers=1, per_case_timeout=240)
            cid = l.split("\t")[0]
            j1 = judge_inproc(impl1.get(cid), mod1[cid][0])
            if j1 is None and "events_chunked" in cand["what"]:
                j1 = dict(what=cand["what"])      # model-internal and deterministic
            fails += 1 if j1 else 0
            if fails >= 2 or (i + 1 - fails) >= 2:
                break
        if fails >= 2:
            failing = cand
            break
        notes.append(dict(case=cand["case"], what=cand["what"], reproduced=False))
    st["unreproduced_discrepancies"] = notes
    if failing:
        small = shrink_inproc(d, failing["stream"], ctx.seed)
        spec = "all" if len(small) <= 10 else "r8"
        impl2, mod2 = run_inproc(d, ["z\t%s\t%s\t%d" % (resplib.hexs(small), spec, ctx.seed)], "final", workers=1, per_case_timeout=240)
        j2 = judge_inproc(impl2.get("z"), mod2["z"][0])
        if j2:
            failing.update(j2)
            failing.update(stream=small, chunk_spec=spec, shrunk_from=len(failing["stream"]))
    return failing, st


# ----------------------------------------------------------------------------- TCP part

def registered_commands(d):
    rc, out = lib.sh("%s cmdtable" % (lib.BUILD / resplib.H), cwd=d, timeout=60)
    if rc != 0:
        raise RuntimeError("harness_resp cmdtable failed: " + out[-500:])
    return set(x.strip().encode() for x in out.splitlines() if x.strip())


def plan_case(cid, stream, sizes, pause, mev, registered, marker_key=None):
    """Decide how to run one stream over TCP from what the model says about it; None = not usable
    (a command of the stream could block or its effect is outside this check)."""
    events, executed, end = mev
    for c in executed:
        name = c[0].lower() if c else b""
        if name in registered and name not in SAFE:
            return None
    evs = events.split(" ")
    mode = "F"
    if end == "CLOSED-ON-ERROR":
        after = evs[evs.index("ERR") + 1:]
        if any(e != "EOF" for e in after):
            mode = "E"    # input remained when the error was raised: the close cannot be due to our EOF
    probe, expect_list, expect_probe = b"", None, None
    if isinstance(marker_key, tuple):      # ("alias", probe command bytes, expected reply text): see alias_case
        probe, expect_probe = marker_key[1], marker_key[2]
    elif marker_key is not None:
        probe = G.encode_cmd([b"LRANGE", marker_key, b"0", b"-1"])
        expect_list = []
        # a nil bulk ($-1) as an element of a command array is not an argument byte string: Go keeps
        # it as a nil slice (stored and read back as nil), the model as the empty string; such a
        # stream is not a well-formed command, the keyspace prediction is not attempted for it
        if re.search(r"(\[|,)n(,|\])", events):
            expect_list = None
        for c in executed:
            if expect_list is None:
                break
            name = c[0].lower() if c else b""
            if name == b"rpush":
                if len(c) >= 3 and c[1] == marker_key:
                    expect_list += c[2:]
            elif name in registered:
                expect_list = None    # some other command reached the keyspace: no prediction
    meta = dict(n=len(executed), end=end, events=events, expect_list=expect_list, marker_key=marker_key, expect_probe=expect_probe)
    return resplib.TcpCase(cid, stream, sizes, mode, pause, probe, meta)


def judge_tcp(case, res, dec, pdec):
    """None when the observation is what the model predicts."""
    m = case.meta
    if res is None:
        return dict(what="no result from the TCP client")
    st = res["status"]
    if st == "SKIPPED":
        return None
    if st == "CONNFAIL":
        return dict(what="could not connect: the server process is gone", status=st)
    if st.endswith("-AFTER-SHUTDOWN"):
        return dict(what="the server kept the connection open after a protocol error", status=st)
    if st not in ("EOF", "RESET"):
        return dict(what="the connection did not end as the model says (%s)" % m["end"], status=st)
    replies, left = dec
    n = m["n"]
    if len(replies) > n:
        return dict(what="more replies than commands the model executes: something after the first protocol error was executed",
                    replies=replies[:30], n_replies=len(replies), n_executed=n, conn_end_model=m["end"])
    if m["end"] == "CLOSED-ON-ERROR" and len(replies) < n:
        # The server closed a connection on which client bytes were still unread: the kernel then
        # resets the connection and the tail of the replies already written may never reach the
        # client (TCP behaviour, not the server's).  A prefix of the expected replies is all that
        # can be demanded here; WHAT was executed is checked through the keyspace (marker cases).
        res["prefix_only"] = True
    else:
        if left:
            return dict(what="the reply stream does not decode completely", leftover=left.hex(), replies=replies[:20])
        if len(replies) != n:
            return dict(what="number of replies differs from the number of commands the model executes",
                        replies=replies[:30], n_replies=len(replies), n_executed=n, conn_end_model=m["end"])
    if res["witness"] != "WOK":
        return dict(what="another (long-lived) connection stopped working", witness=res["witness"])
    if m.get("expect_probe") is not None:
        got, pleft = pdec
        if pleft or got != [m["expect_probe"]]:
            return dict(what="keyspace after the stream differs: an argument stored by one command was changed when an earlier stored argument grew "
                             "(the arguments of a command must not share memory)", reply_observed=got, reply_expected=m["expect_probe"])
    if m["expect_list"] is not None:
        want = "A[" + ",".join("b:" + (x.decode() if x.startswith(b"#") and len(x) > 18 else resplib.digest(x)) for x in m["expect_list"]) + "]"
        got, pleft = pdec
        if pleft or got != [want]:
            return dict(what="keyspace after the stream differs: commands after the protocol error were executed (or earlier ones lost)",
                        list_observed=got, list_expected=want)
    return None


def run_and_judge(server, d, cases, tag, selfclose_ms=20000):
    res, err = resplib.run_tcp(server, d, cases, tag=tag, selfclose_ms=selfclose_ms)
    if err:
        raise RuntimeError(err)
    dec = resplib.model_decode(d, [(c.id, res[c.id]["rx"]) for c in cases if c.id in res], tag=tag + "d")
    pdec = resplib.model_decode(d, [(c.id, res[c.id]["probe_rx"]) for c in cases if c.id in res], tag=tag + "p")
    verdicts = {}
    for c in cases:
        verdicts[c.id] = judge_tcp(c, res.get(c.id), dec.get(c.id), pdec.get(c.id))
    return res, verdicts


def confirm_tcp(d, server, c, st, runs=3, need=2):
    """verdict if the case fails `need` times, in the same way, in at most `runs` runs alone"""
    seen = collections.Counter()
    last = {}
    for i in range(runs):
        if not server.alive():
            server.start()
            st["server_restarts"] += 1
        if isinstance(c.meta.get("marker_key"), bytes):
            resplib.run_tcp(server, d, [resplib.TcpCase("del", G.encode_cmd([b"DEL", c.meta["marker_key"]]))], tag="cdel")
        _, v = run_and_judge(server, d, [c], "iso")
        v1 = v[c.id]
        if not server.alive():
            v1 = dict(what="the server process died")
        if v1:
            seen[v1["what"]] += 1
            last[v1["what"]] = v1
            if seen[v1["what"]] >= need:
                return last[v1["what"]]
        elif i + 1 - sum(seen.values()) > runs - need:
            return None      # cannot reach `need` failures any more
    return None


def alias_case(r, seed, i):
    tag = b"ta" + hashlib.sha1(b"%d-%d" % (seed, i)).hexdigest()[:12].encode()
    n = r.choice([2, 3, 3, 4])
    keys = [tag + b":k%d" % j for j in range(n)]
    short = r.choice([1, 2, 3, 5])
    vals = [bytes(r.choice(b"abcdefghijklmnopqrstuvwxyz") for _ in range(short)) for _ in range(n)]
    grow = bytes(r.choice(b"ABCDEFGHIJKLMNOPQRSTUVWXYZ-") for _ in range(r.choice([1, 2, 4, 9, 17, 40])))
    db = dict(zip(keys, vals))
    cmds = [[b"MSET"] + [x for kv in zip(keys, vals) for x in kv]]
    j = r.randrange(n - 1)            # an argument that is not the last one stored
    m = r.randrange(4)
    if m == 0:
        cmds.append([b"APPEND", keys[j], grow])
        db[keys[j]] += grow
    elif m == 1:
        cmds += [[b"APPEND", keys[j], grow[:1]], [b"APPEND", keys[-1], b"-"], [b"APPEND", keys[j], grow]]
        db[keys[j]] += grow[:1] + grow
        db[keys[-1]] += b"-"
    elif m == 2:
        cmds.append([b"SETRANGE", keys[j], b"%d" % len(vals[j]), grow])
        db[keys[j]] += grow
    else:
        cmds.append([b"SETRANGE", keys[j], b"0", grow])
        db[keys[j]] = grow + db[keys[j]][len(grow):]
    want = "A[" + ",".join("b:" + db[k].hex() for k in keys) + "]"
    return ("ta%d" % i, G.encode_pipeline(cmds), ("alias", G.encode_cmd([b"MGET"] + keys), want))


def tcp_part(ctx, d, inproc_stats):
    r = random.Random(ctx.seed * 7777 + 5)
    registered = registered_commands(d)
    nv, nm, nx, ns = (500, 800, 700, 600) if ctx.tier == "quick" else (4000, 6000, 6000, 5000)
    raw = []     # (id, stream, marker_key)
    for i in range(nv):
        raw.append(("tv%d" % i, G.encode_pipeline(G.tcp_pipeline(r, b"tv%d:" % i)), None))
    for i in range(nm):
        # the marker key must not be reachable from another case's key by a one-byte mutation of a
        # command (a flipped digit in "tm5768:" once wrote into the list of case tm5769)
        tag = hashlib.sha1(b"%d-%d" % (ctx.seed, i)).hexdigest()[:16].encode()
        key, s = G.marker_stream(r, b"tm" + tag + b":")
        raw.append(("tm%d" % i, s, key))
    for i in range(nx):
        s = G.encode_pipeline(G.tcp_pipeline(r, b"tx%d:" % i))
        for _ in range(r.randrange(1, 4)):
            s = G.mutate(r, s)
        raw.append(("tx%d" % i, s, None))
    for i, n in enumerate([32766, 32767, 32768, 32769, 65535, 65536, 98304, 131072] + ([1048576] if ctx.tier == "quick" else [262144, 1048575, 1048576, 2097152])):
        for e in (b"\r\n", b"z"):
            tag = hashlib.sha1(b"tb%d-%d-%d" % (ctx.seed, n, e[0])).hexdigest()[:16].encode()
            key = b"tb" + tag + b":log"
            val = G.boundary_payload(r, n, e)
            raw.append(("tb%d_%d" % (n, e[0]), G.encode_pipeline([[b"RPUSH", key, b"m0"], [b"RPUSH", key, val], [b"RPUSH", key, b"m1"], [b"PING"]]), key))
    # ALIASING family: one command stores several of its arguments, a later one grows / rewrites an
    # EARLIER stored value in place, another connection reads all of them back (decoding alone cannot
    # see whether the decoded arguments of a command share memory)
    for i in range(60 if ctx.tier == "quick" else 600):
        raw.append(alias_case(r, ctx.seed, i))
    hn = G.header_number_streams()
    for i, s in enumerate(hn if ctx.tier != "quick" else r.sample(hn, 60)):
        raw.append(("th%d" % i, s, None))
    pool = [l for l in inproc_stats["lines"] if l[0] in "esgm"]
    for i, l in enumerate(r.sample(pool, min(ns, len(pool)))):
        raw.append(("ts%d" % i, resplib.unhex(l.split("\t")[1]), None))
    raw = [x for x in raw if x[1] and (x[0].startswith("tb") or (not G.big_alloc(x[1]) and len(x[1]) < 200000))]
    mod = resplib.model_events(d, [(i, s) for i, s, _ in raw], tag="tcpm")
    cases, skipped = [], 0
    for cid, s, key in raw:
        if cid.startswith("tb"):      # big argument: whole, or in pieces of the sizes readers work with
            k = r.choice([0, 4096, 32768, 32767, 65536, 1000])
            sizes = "one" if k == 0 else [k] * (len(s) // k + 1)
            pause = 0
        else:
            sizes = G.random_chunking(r, s)
            pause = r.choice([0, 0, 1, 2, 5]) if len(sizes) < 800 else 0
        c = plan_case(cid, s, sizes, pause, mod[cid], registered, key)
        if c is None:
            skipped += 1
        else:
            cases.append(c)
    st = dict(tcp_cases=len(cases), tcp_skipped=skipped, modes=collections.Counter(c.mode for c in cases),
              tcp_closed_on_error=sum(1 for c in cases if c.meta["end"] == "CLOSED-ON-ERROR"),
              tcp_marker_cases=sum(1 for c in cases if c.meta["expect_list"] is not None),
              tcp_aliasing_cases=sum(1 for c in cases if c.meta.get("expect_probe") is not None),
              tcp_commands_executed=sum(c.meta["n"] for c in cases), server_restarts=0)
    server = resplib.Server(d)
    try:
        if not server.start():
            raise RuntimeError("could not start the server (harness_resp serve): %s %s" % (getattr(server, "last_error", ""), server.stderr_tail()))
        res, verdicts = run_and_judge(server, d, cases, "tcp")
        died = not server.alive()
        bad = [c for c in cases if verdicts[c.id]]
        st["tcp_prefix_only"] = sum(1 for x in res.values() if x.get("prefix_only"))
        st["tcp_cut_short"] = sum(1 for x in res.values() if x["status"] == "SKIPPED")
        failing = None
        notes = []
        if died or bad:
            # A discrepancy seen in the batch counts only if the same stream fails again when run
            # alone (2 failures of the same kind in at most 3 runs): the batch shares the machine
            # with whatever else is running, and a deadline missed there is not the server's fault.
            suspects = bad[:10] if not died else [c for c in cases if verdicts[c.id] or res.get(c.id, {}).get("status") != "EOF"][:25]
            for c in suspects:
                v1 = confirm_tcp(d, server, c, st)
                if v1:
                    failing = dict(kind="tcp-vs-model", case=c.id, stream=c.stream, sizes=c.sizes, mode=c.mode,
                                   marker_key=c.meta["marker_key"], model_events=c.meta["events"][:2000],
                                   process_died=not server.alive(), **v1)
                    break
                notes.append(dict(case=c.id, what=(verdicts[c.id] or {}).get("what", "suspect after the process died"), reproduced=False))
            if failing is None and died:
                # no single stream kills the process: does the batch do it again?
                server.start()
                st["server_restarts"] += 1
                run_and_judge(server, d, cases, "tcp2")
                if not server.alive():
                    failing = dict(kind="tcp-vs-model", case="(whole batch, twice)", stream=b"", sizes="one", mode="F", marker_key=None,
                                   what="the server process died while serving the batch of TCP streams, twice; no single stream reproduces it",
                                   process_died=True, server_stderr=server.stderr_tail())
                else:
                    notes.append(dict(case="(batch)", what="the server process died once during the batch; not reproduced", reproduced=False))
            if failing is not None and failing.get("stream") and not isinstance(failing.get("marker_key"), tuple):
                failing = shrink_tcp(d, server, failing, registered, st)     # (an aliasing case is 2-4 commands already)
                failing["server_stderr"] = server.stderr_tail()
        st["unreproduced_discrepancies"] = notes[:10]
        st["witness_checks"] = len(res)
        return failing, st
    finally:
        server.stop()


def one_tcp(d, server, stream, sizes, registered, marker_key, st, selfclose_ms=20000):
    """run one stream on a live server; returns (verdict or None, usable)"""
    if not server.alive():
        server.start()
        st["server_restarts"] += 1
    mev = resplib.model_events(d, [("q", stream)], tag="q")["q"]
    c = plan_case("q", stream, sizes, 0, mev, registered, marker_key)
    if c is None:
        return None, False
    if isinstance(marker_key, bytes):     # start from an empty list whatever earlier runs left behind
        resplib.run_tcp(server, d, [resplib.TcpCase("del", G.encode_cmd([b"DEL", marker_key]))], tag="qdel")
    _, v = run_and_judge(server, d, [c], "q", selfclose_ms)
    if not server.alive():
        return dict(what="the server process died", events_model=mev[0][:500]), True
    return v["q"], True


def shrink_tcp(d, server, failing, registered, st):
    key = failing.get("marker_key")
    what = failing.get("what")

    def bad(s):     # still fails, and in the same way
        if not s:
            return False
        for sizes in ("one", "bytes"):
            v, _ = one_tcp(d, server, s, sizes, registered, key, st, selfclose_ms=1500)
            if v and v.get("what") == what:
                return True
        return False
    small = resplib.ddmin(failing["stream"], bad, budget=40)
    for sizes in ("one", "bytes"):
        v, _ = one_tcp(d, server, small, sizes, registered, key, st)
        if v:
            out = dict(failing)
            for k in ("replies", "leftover", "n_replies", "n_executed", "list_observed", "list_expected", "status", "witness"):
                out.pop(k, None)
            out.update(v)
            out.update(stream=small, sizes=sizes, shrunk_from=len(failing["stream"]),
                       model_events=resplib.model_events(d, [("q", small)], tag="q")["q"][0][:2000])
            return out
    return failing


# ----------------------------------------------------------------------------- replay

def replay(ctx, d):
    r = json.load(open(ctx.replay))
    if "stream_hex" not in r:
        print("replay file names no input (%s): re-running the proof gate only" % r.get("kind"))
        cov, broken = lib.proof_gate(ctx)
        print(broken or "proofs check")
        return 1 if broken else 0
    stream = resplib.unhex(r["stream_hex"])
    print("stream:", repr(stream))
    rc = 0
    spec = r.get("chunk_spec") or ("all" if len(stream) <= 10 else "r8")
    impl, mod = run_inproc(d, ["z\t%s\t%s\t%d" % (resplib.hexs(stream), spec, ctx.seed)], "replay", workers=1, per_case_timeout=60)
    print("model events   :", mod["z"][0])
    print("model executed :", mod["z"][1], mod["z"][2])
    print("resp.ParseStream:", "\t".join(impl["z"][1:]))
    if judge_inproc(impl.get("z"), mod["z"][0]):
        print("=> parser disagrees with the model")
        rc = 1
    if r.get("kind") == "tcp-vs-model" or rc == 0:
        st = dict(server_restarts=0)
        server = resplib.Server(d)
        try:
            if not server.start():
                print("could not start the server")
                return 1
            registered = registered_commands(d)
            sizes = r.get("sizes") or "one"
            key = resplib.unhex(r["marker_key_hex"]) if r.get("marker_key_hex") else None
            if r.get("probe_hex"):
                key = ("alias", resplib.unhex(r["probe_hex"]), r["expect_probe"])
            v, usable = one_tcp(d, server, stream, sizes, registered, key, st)
            print("tcp:", "not usable over TCP" if not usable else (v or "as the model predicts"))
            if v:
                rc = 1
        finally:
            server.stop()
    return rc


# ----------------------------------------------------------------------------- main

def readable(b):
    return repr(b)[2:-1] if len(b) <= 400 else repr(b[:400])[2:-1] + "...(%d bytes)" % len(b)


def run(ctx):
    cov, broken = lib.proof_gate(ctx, extra_tb=resplib.RESP_TB + [
        "modelled, not verified: bufio.Reader.ReadBytes / io.ReadFull (as functions of the list of chunks the connection delivers), strconv.Atoi/ParseInt (Base/GoInt.v), TCP segmentation; tie = differential run on every check",
    ])
    berr = resplib.build()
    d = lib.scratch("c02-")
    if ctx.replay:
        if berr:
            print(berr)
            return 1
        return replay(ctx, d)
    failing, ist, tst = None, None, {}
    if not berr:
        try:
            failing, ist = inproc_part(ctx, d)
            if not failing:
                failing, tst = tcp_part(ctx, d, ist)
        except RuntimeError as ex:
            berr = str(ex)
    rc = 0
    if failing:
        s = failing.pop("stream")
        failing["stream_hex"] = resplib.hexs(s)
        failing["stream_readable"] = readable(s)
        if isinstance(failing.get("marker_key"), tuple):
            failing["probe_hex"], failing["expect_probe"] = resplib.hexs(failing["marker_key"][1]), failing["marker_key"][2]
        elif failing.get("marker_key") is not None:
            failing["marker_key_hex"] = resplib.hexs(failing["marker_key"])
        failing.pop("marker_key", None)
        if not isinstance(failing.get("sizes", ""), str):
            failing["sizes"] = ",".join(map(str, failing["sizes"][:2000]))
        failing["note"] = ("model = extracted Coq functions events/handle (coq/Resp/RespModel.v), about which Properties/C02.v is proved; "
                           "the implementation built from the working tree disagrees with it on this byte stream")
        lib.violation(PID, failing)
        ctx.violations += 1
        rc = 1
    elif broken or berr:
        lib.violation(PID, dict(kind="tie-broken", what=broken or berr), found_input=False)
        ctx.violations += 1
        rc = 1
    for kf in lib.known_findings(PID):
        if kf["kind"] == "open":
            print("KNOWN-FINDING: property=%s %s %s" % (PID, kf["id"], kf["text"]))
    samples = []
    if ist:
        mod = ist["mod"]
        for l in ist["lines"]:
            cid = l.split("\t")[0]
            if cid in ("s15", "e5000", "v3", "m7", "g11", "x2"):
                samples.append(dict(id=cid, stream=readable(resplib.unhex(l.split("\t")[1]))[:160], chunk_spec=l.split("\t")[2][:40],
                                    events=mod[cid][0][:200], conn_end=mod[cid][2]))
    cov.update(dict(
        evaluations=(ist["evaluations"] if ist else 0) + tst.get("tcp_cases", 0),
        distinct_nontrivial=len(ist["nontrivial"]) if ist else 0,
        rule=("in-process: every byte string of length <= %d over {* $ + - : 0 1 9 CR LF a} and ~100 hand-written specials under ALL 2^(n-1) read chunkings "
              "(streams up to 12 bytes), seeded valid pipelines with arbitrary argument bytes (some crossing the 4096-byte bufio buffer), mutations of valid "
              "streams (flip/drop/duplicate/truncate/length+-1/odd, huge, negative lengths/nested array headers/junk lines) and random garbage under whole, "
              "1-byte and random chunkings incl. cuts inside CRLF and inside lengths; evaluations = (stream, chunking) pairs run through resp.ParseStream "
              "+ TCP streams; distinct_nontrivial = distinct streams whose event list is more than the bare EOF; TCP: valid pipelines, marker streams "
              "(RPUSH markers ++ junk ++ RPUSH markers, list read back on another connection), mutated pipelines and a sample of the in-process streams, "
              "written in random chunks with TCP_NODELAY") % (4 if ctx.tier == "quick" else 5),
        streams=ist["streams"] if ist else 0,
        exhaustive_small_streams=ist["exhaustive_small"] if ist else 0,
        explicit_chunkings_vs_events_chunked=ist["explicit_chunkings"] if ist else 0,
        distinct_event_shapes=len(ist["shapes"]) if ist else 0,
        stream_kinds=dict(ist["kinds"]) if ist else {},
        tcp={k: (dict(v) if isinstance(v, collections.Counter) else v) for k, v in tst.items()},
        inproc_unreproduced_discrepancies=ist.get("unreproduced_discrepancies", []) if ist else [],
        length_boundary_streams=ist.get("length_boundary_streams", 0) if ist else 0,
        header_number_streams=ist.get("header_number_streams", 0) if ist else 0,
        samples=samples or ["(none)"],
        exhaustive=False,
        correspondence="resp.ParseStream (chunked io.Reader) vs extracted events/events_chunked, event for event; real server over TCP vs extracted handle: reply count, self-close on error, keyspace effect, liveness",
    ))
    lib.write_evidence(PID, ctx.tier, ctx.seed, cov,
                       ["Go runtime, bufio, net", "extraction + OCaml compiler",
                        "cmd_ok side condition of the round-trip theorems: at least one argument, each at most 512 MB (the server's bulk limit)",
                        "harness_resp serve starts server.Start exactly as main.go does (flag parsing of main.go itself is not exercised)"],
                       ctx.wall(), ctx.violations)
    return rc
