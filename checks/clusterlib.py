"""Real RedisGO cluster nodes on localhost for the cluster properties (C14 thorough, C07, C08).

Every cluster lives in its own scratch directory (lower-case path: config.Parse lower-cases
`logdir`), every node is its own OS process started from the binary built from VERIF_REPO's
working tree, with its own working directory (the WAL/snapshot directories `raftexample-<id>`
are relative to it), on ports that were free a moment ago.  All processes are killed when the
Cluster object is closed and again at interpreter exit."""
import atexit
import json
import os
import shutil
import signal
import socket
import subprocess
import time
from pathlib import Path

from . import lib

_live = []


def _kill_all():
    for c in list(_live):
        try:
            c.close()
        except Exception:
            pass


atexit.register(_kill_all)


def free_ports(n):
    socks, ports = [], []
    for _ in range(n):
        s = socket.socket()
        s.setsockopt(socket.SOL_SOCKET, socket.SO_REUSEADDR, 1)
        s.bind(("127.0.0.1", 0))
        socks.append(s)
        ports.append(s.getsockname()[1])
    for s in socks:
        s.close()
    return ports


def build_server(name="redisgo_verif", tags="verif", race=False):
    """The real server binary (package main of the repository), with the verif hooks linked in."""
    with lib.BuildLock():
        out = lib.BUILD / name
        cmd = "go build %s -tags %s -o %s ." % ("-race" if race else "", tags, out)
        rc, log = lib.sh(cmd, cwd=lib.REPO, timeout=1800)
        return rc == 0, log, out


# ------------------------------------------------------------------ RESP client

class ConnClosed(Exception):
    pass


class Client:
    def __init__(self, port, timeout=10.0):
        self.port = port
        self.timeout = timeout
        self.s = socket.create_connection(("127.0.0.1", port), timeout=timeout)
        self.s.settimeout(timeout)
        self.buf = b""

    def close(self):
        try:
            self.s.close()
        except OSError:
            pass

    def send(self, args):
        out = b"*%d\r\n" % len(args)
        for a in args:
            out += b"$%d\r\n%s\r\n" % (len(a), a)
        self.s.sendall(out)

    def _fill(self):
        chunk = self.s.recv(65536)
        if not chunk:
            raise ConnClosed("connection closed by server")
        self.buf += chunk

    def _line(self):
        while b"\r\n" not in self.buf:
            self._fill()
        i = self.buf.index(b"\r\n")
        l, self.buf = self.buf[:i], self.buf[i + 2:]
        return l

    def _exact(self, n):
        while len(self.buf) < n + 2:
            self._fill()
        d, self.buf = self.buf[:n], self.buf[n + 2:]
        return d

    def read(self):
        """One reply in the canonical text form shared with harness/mem.go and ml/memrun.ml."""
        l = self._line()
        if not l:
            return "~-"
        t, rest = l[:1], l[1:]
        if t == b"+":
            return "+" + hx(rest)
        if t == b"-":
            return "-W" if rest.startswith(b"WRONGTYPE") else "-E"
        if t == b":":
            return ":" + rest.decode("latin-1")
        if t == b"$":
            n = int(rest)
            if n < 0:
                return "$nil"
            return "$" + hx(self._exact(n))
        if t == b"*":
            n = int(rest)
            if n < 0:
                return "*nil"
            return "*[" + " ".join(self.read() for _ in range(n)) + "]"
        return "~" + hx(l)

    def cmd(self, args, timeout=None):
        if timeout is not None:
            self.s.settimeout(timeout)
        try:
            self.send(args)
            return self.read()
        finally:
            if timeout is not None:
                self.s.settimeout(self.timeout)


def hx(b):
    return b.hex() if b else "-"


UNORDERED_FLAT = {"smembers", "sunion", "sinter", "sdiff", "hkeys", "hvals", "keys", "spop", "srandmember"}


def split_top(s):
    res, cur, depth = [], "", 0
    for ch in s:
        if ch == "[":
            depth += 1
        elif ch == "]":
            depth -= 1
        if ch == " " and depth == 0:
            res.append(cur)
            cur = ""
        else:
            cur += ch
    if cur:
        res.append(cur)
    return res


def canon_for_cmd(name, canon):
    if not canon.startswith("*["):
        return canon
    inner = canon[2:-1]
    if name in UNORDERED_FLAT:
        return "*[" + " ".join(sorted(split_top(inner))) + "]"
    if name == "hgetall":
        p = split_top(inner)
        if len(p) % 2:
            return canon
        return "*[" + " ".join(sorted(p[i] + " " + p[i + 1] for i in range(0, len(p), 2))) + "]"
    return canon


# ------------------------------------------------------------------ cluster of processes

class Cluster:
    def __init__(self, binary, n, tag="cl", env=None):
        self.binary = str(binary)
        self.n = n
        root = os.environ.get("VERIF_SCRATCH", "/tmp")
        self.dir = Path(root) / ("verif-%s-%d-%d" % (tag, os.getpid(), int(time.time() * 1000) % 10 ** 9)).lower()
        self.dir.mkdir(parents=True)
        ports = free_ports(2 * n)
        self.raft_ports = ports[:n]
        self.kv_ports = ports[n:]
        self.procs = [None] * n
        self.env = dict(os.environ)
        self.env.update(env or {})
        self.starts = [0] * n
        self.probes_sent = 0     # readiness PINGs that reached a node: each one becomes a log entry
        peers = ",".join("http://127.0.0.1:%d" % p for p in self.raft_ports)
        for i in range(n):
            nd = self.node_dir(i)
            nd.mkdir()
            (nd / "log").mkdir()
            (nd / "redis.conf").write_text(
                "host 127.0.0.1\nport %d\nlogdir %s\nloglevel error\nshardnum 16\ndatabases 16\n" % (self.kv_ports[i], nd / "log"))
            (nd / "cluster.json").write_text(json.dumps(dict(
                IsCluster=True, PeerAddrs=peers, RaftAddr="", PeerIDs=",".join(str(j + 1) for j in range(n)),
                NodeID=i + 1, KVPort=self.kv_ports[i], JoinCluster=False)))
        _live.append(self)

    def node_dir(self, i):
        return self.dir / ("n%d" % (i + 1))

    def start(self, i):
        assert self.procs[i] is None or self.procs[i].poll() is not None
        nd = self.node_dir(i)
        self.starts[i] += 1
        out = open(nd / ("out%d.txt" % self.starts[i]), "wb")
        self.procs[i] = subprocess.Popen(
            [self.binary, "--IsCluster=true", "--ClusterConfigPath=./cluster.json", "--config=./redis.conf"],
            cwd=nd, stdout=out, stderr=subprocess.STDOUT, stdin=subprocess.DEVNULL, env=self.env,
            start_new_session=True)
        out.close()

    def start_all(self):
        for i in range(self.n):
            self.start(i)

    def alive(self, i):
        return self.procs[i] is not None and self.procs[i].poll() is None

    def kill(self, i, sig=signal.SIGKILL):
        p = self.procs[i]
        if p is not None and p.poll() is None:
            try:
                os.killpg(p.pid, sig)
            except OSError:
                pass
            try:
                p.wait(timeout=10)
            except subprocess.TimeoutExpired:
                os.killpg(p.pid, signal.SIGKILL)
                p.wait(timeout=10)

    def output(self, i, tail=4000):
        res = b""
        for k in range(1, self.starts[i] + 1):
            f = self.node_dir(i) / ("out%d.txt" % k)
            if f.exists():
                with open(f, "rb") as fh:
                    fh.seek(0, 2)
                    size = fh.tell()
                    fh.seek(max(0, size - tail))
                    res += b"\n--- start %d ---\n" % k + fh.read()
        return res.decode("utf-8", "replace")

    def crash_reason(self, i):
        """A node that went down by itself: the Go runtime's / log.Fatal's last words."""
        txt = self.output(i, tail=200000)
        for marker in ("fatal error:", "panic:", "concurrent map"):
            k = txt.find(marker)
            if k >= 0:
                return txt[k:k + 400]
        return None

    def client(self, i, timeout=10.0):
        return Client(self.kv_ports[i], timeout=timeout)

    def wait_ready(self, nodes=None, timeout=40.0):
        """Ready = a PING proposed through each listed node is acknowledged (every command goes
        through the log, so a leader exists and the node applies).  Leaves the keyspace alone.
        Returns None or a description of what did not come up."""
        nodes = list(range(self.n)) if nodes is None else nodes
        deadline = time.time() + timeout
        pending = list(nodes)
        last = ""
        while pending and time.time() < deadline:
            i = pending[0]
            if not self.alive(i):
                return "node %d exited during start-up: %s" % (i + 1, self.output(i, 1500))
            try:
                c = self.client(i, timeout=5.0)
                try:
                    c.send([b"ping"])
                    self.probes_sent += 1
                    r = c.read()
                finally:
                    c.close()
                if r == "+" + hx(b"PONG"):
                    pending.pop(0)
                    continue
                last = "reply %s" % r
            except (OSError, ConnClosed, socket.timeout) as e:
                last = repr(e)
            time.sleep(0.25)
        if pending:
            return "nodes %s not ready after %.0fs (%s)" % ([p + 1 for p in pending], timeout, last)
        return None

    def close(self, keep=False):
        for i in range(self.n):
            self.kill(i)
        if self in _live:
            _live.remove(self)
        if not keep:
            shutil.rmtree(self.dir, ignore_errors=True)
