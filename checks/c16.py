"""C16 — Raft log (etcd WAL) and snapshot files recover to a consistent prefix after any crash.

Proof half: coq/Properties/C16.v (theorems about the executable model coq/Wal/*.v).
Tie (differential correspondence, DESIGN.md 2.3 D): the Go harness writes real WAL directories
and snapshot files with the etcd code of VERIF_REPO, derives crash images (subsets of unsynced
512-byte sectors left zero) and single-byte corruptions, and runs Verify / Open+ReadAll / Repair /
ReadAll again / Snapshotter.Load on copies; the extracted Coq model reads the same bytes.  What is
compared is what the property fixes: the data returned (metadata, hard state, entries), whether
an error is the repairable io.ErrUnexpectedEOF or a fatal one, whether Repair succeeds, and the
tail file after a successful read in write mode.  On top of that the model-side oracle checks
that anything returned without error is a prefix of what was written.

A result returned as valid although a stored byte was changed is a violation, except for the
mutation class of the open finding `record-type-byte` (the type varint of a walpb.Record is not
covered by any checksum; theorem C16_type_byte_refuted), which is reported as KNOWN-FINDING."""
import collections
import json
import os
import re
import subprocess

from . import lib

PID = "C16"
H = "harness_wal"
R = "walrun"
JOBS = 8
FINDING = "record-type-byte"
FINDING2 = "record-data-length-byte"
TIMES = collections.Counter()


def build():
    ok1, log1 = lib.ensure_runner(R, "Extract/ExtractWal.v", ("walutil.ml", "walrun.ml"), ("walmodel",))
    ok2, log2 = lib.ensure_harness(H, srcdir="harness_wal")
    if not ok1:
        return "walrun build failed: " + log1[-2500:]
    if not ok2:
        return "harness_wal build failed (does the etcd tree of VERIF_REPO still compile?): " + log2[-2500:]
    return None


# ----------------------------------------------------------------------------- comparison

def norm(line):
    """Keep what the property fixes: error replies by class (repairable / fatal / could not open /
    start snapshot not found), a panic in Repair counts as 'not repaired'."""
    def cls(m):
        c = m.group(1)
        if c == "unexpected_eof":
            return "err:torn"
        if c in ("open", "snap_not_found"):
            return "err:" + c
        return "err:fatal"
    line = re.sub(r"err:([^ ,]+)", cls, line)
    return line.replace("repair=panic", "repair=0")


def parse_out(text):
    res = {}
    for l in text.splitlines():
        fs = l.split(" ", 2)
        if len(fs) >= 2:
            res[fs[0] + " " + fs[1]] = fs[2] if len(fs) > 2 else ""
    return res


def parse_oracle(text):
    res = {}
    for l in text.splitlines():
        fs = l.split()
        if len(fs) >= 2 and fs[0] == "O":
            res[fs[1]] = dict(kv.split("=", 1) for kv in fs[2:] if "=" in kv)
    return res


def oracle_verdict(o):
    """None (fine), 'known' (the open finding's mutation class), 'coincidence' (outside the side
    condition of the torn-tail theorem) or a description of a violation."""
    if o is None:
        return None
    bad = o.get("oracle") == "BAD" or o.get("oracle2") == "BAD"
    if o.get("kind") == "READ" and o.get("specat") == "BAD":
        return ("a read that starts at a recorded snapshot does not return exactly the saved entries above its index "
                "(a segment that still holds them was not selected: segment names <seq>-<first index> are wrong, or entries were dropped)")
    if o.get("kind") == "READ" and o.get("spec") == "BAD":
        return "a fully synced directory does not read back as the script specifies (metadata, last hard state, entry log of spec_run)"
    if o.get("kind") == "K":
        if o.get("durable") == "BAD":
            return ("process-kill image taken when a Save/SaveSnapshot returned: reopening does not return every entry of the "
                    "completed saves and the Term/Vote of the last completed hard state (the call returned without making it durable)")
        if o.get("prefix") == "BAD":
            return "process-kill image does not contain the durable state of the writer model (a sync the model performs did not happen)"
        return None
    if o.get("kind") == "L":
        if o.get("second") == "BAD":
            return ("two lives: after reopening a crash image for append, appending completed saves and closing, the next "
                    "reopen does not return (recovered prefix ++ the new saves) — stale bytes behind the recovered prefix were not cleared")
        return None
    if o.get("kind") == "T":
        if bad:
            return "truncated tail: data returned without error is not (synced records ++ whole prefix of the unsynced records)"
        if o.get("shape") == "BAD":
            return "a tail file that ends inside the unsynced records is reported as a fatal error or is not repairable"
        return None
    if o.get("kind") == "Z":
        if o.get("nocoin") == "0":
            return "coincidence" if (bad or o.get("shape") == "BAD") else None
        if bad:
            return "crash image: data returned without error is not (synced records ++ whole prefix of the unsynced records)"
        if o.get("shape") == "BAD":
            return "crash image: a torn tail is reported as a fatal error or is not repairable"
        return None
    if bad:
        if o.get("kind") == "M" and o.get("part") == "type":
            return "known:" + FINDING
        if o.get("kind") == "M" and o.get("part") == "data_len":
            return "known:" + FINDING2
        if o.get("kind") == "M":
            return "corrupted byte (%s of record %s, type %s) returned as valid data" % (o.get("part"), o.get("rec"), o.get("rtype"))
        return "pristine log does not read back as written"
    return None


# ----------------------------------------------------------------------------- case files

CASE_TAGS = ("READ", "M", "Z", "K", "T", "L")


def split_blocks(text):
    """A case file is a sequence of blocks, one per WAL (header lines then case lines)."""
    blocks, hdr, cases = [], [], []
    for l in text.splitlines():
        t = l.split(" ", 1)[0]
        if t == "WAL":
            if hdr or cases:
                blocks.append((hdr, cases))
            hdr, cases = [l], []
        elif t in CASE_TAGS:
            cases.append(l)
        elif t:
            hdr.append(l)
    if hdr or cases:
        blocks.append((hdr, cases))
    return blocks


def mute_dirs(hdr, cases):
    """Header for a further chunk of a large block: only the directories its cases refer to,
    with nops=-1 on the DIR lines (the writer-model comparison, D lines, is done once)."""
    need = set(c.split()[2] for c in cases)
    out = []
    for l in hdr:
        fs = l.split(" ", 4)
        if fs[0] in ("DIR", "F", "ENDDIR"):
            if fs[1] not in need:
                continue
            if fs[0] == "DIR":
                fs = l.split()
                fs[3] = "-1"
                l = " ".join(fs)
        out.append(l)
    return out


def shard(blocks, jobs, chunk=250):
    units = []
    for hdr, cases in blocks:
        if len(cases) <= chunk:
            units.append((hdr, cases))
        else:
            for i in range(0, len(cases), chunk):
                units.append((hdr if i == 0 else mute_dirs(hdr, cases[i:i + chunk]), cases[i:i + chunk]))
    shards = [[] for _ in range(jobs)]
    load = [0] * jobs
    for u in sorted(units, key=lambda u: -len(u[1]) - len(u[0]) // 4):
        k = load.index(min(load))
        shards[k].append(u)
        load[k] += len(u[1]) + len(u[0]) // 4 + 1
    return [s for s in shards if s]


def run_parallel(cmds, cwd, timeout):
    """cmds: list of shell strings; at most JOBS at a time. Returns list of (rc, out)."""
    res = [None] * len(cmds)
    pending = list(enumerate(cmds))
    running = []
    e = lib.env()
    e["VERIF_SCRATCH_ROOT"] = str(cwd)
    while pending or running:
        while pending and len(running) < JOBS:
            i, c = pending.pop(0)
            p = subprocess.Popen("timeout %d %s" % (timeout, c), shell=True, cwd=cwd, env=e,
                                 stdout=subprocess.PIPE, stderr=subprocess.STDOUT)
            running.append((i, p))
        i, p = running.pop(0)
        out = p.communicate()[0].decode("utf-8", "replace")
        res[i] = (p.returncode, out)
    return res


def run_wal_cases(d, text, tag, timeout=3000, jobs=JOBS):
    """Both sides on one case file. Returns (impl, model, oracle dicts, error-or-None)."""
    blocks = split_blocks(text)
    shards = shard(blocks, jobs)
    names = []
    for k, units in enumerate(shards):
        p = d / ("%s.%d.cases" % (tag, k))
        with open(p, "w") as f:
            for hdr, cases in units:
                f.write("\n".join(hdr) + "\n")
                if cases:
                    f.write("\n".join(cases) + "\n")
        names.append(p.name)
    import time
    t0 = time.time()
    r1 = run_parallel(["%s observe wal %s %s.impl" % (lib.BUILD / H, n, n) for n in names], d, timeout)
    TIMES["observe"] += time.time() - t0
    t0 = time.time()
    # the real code's second-life directories (two-life cases) are appended to what the model reads
    for n in names:
        extra = d / (n + ".impl.extra")
        with open(d / (n + ".m"), "w") as f:
            f.write((d / n).read_text())
            if extra.exists():
                f.write(extra.read_text())
    r2 = run_parallel(["%s wal %s.m %s.model %s.oracle" % (lib.BUILD / R, n, n, n) for n in names], d, timeout)
    TIMES["model"] += time.time() - t0
    for (rc, out), n in list(zip(r1, names)) + list(zip(r2, names)):
        if rc != 0:
            return None, None, None, "run on %s failed rc=%s: %s" % (n, rc, out[-1500:])
    impl, model, oracle = {}, {}, {}
    for n in names:
        impl.update(parse_out((d / (n + ".impl")).read_text()))
        model.update(parse_out((d / (n + ".model")).read_text()))
        oracle.update(parse_oracle((d / (n + ".oracle")).read_text()))
    return impl, model, oracle, None


def failing(impl, model, oracle, known_open):
    """Ordered list of (key, category, why). category: mismatch | bad."""
    out = []
    for k in sorted(set(impl) | set(model), key=lambda s: (s[0], int(re.sub(r"\D", "", s) or 0))):
        a, b = impl.get(k), model.get(k)
        if a is None or b is None or norm(a) != norm(b):
            out.append((k, "mismatch", "implementation and model disagree"))
            continue
        if k.startswith("R "):
            v = oracle_verdict(oracle.get(k[2:]))
            if v and v.startswith("known:") and v[6:] not in known_open:
                v = "corrupted %s returned as valid data (finding %s not listed as open)" % (
                    "record type byte" if v[6:] == FINDING else "data-length byte", v[6:])
            if v and not v.startswith("known:") and v != "coincidence":
                out.append((k, "bad", v))
    return out


# ----------------------------------------------------------------------------- symbolic form + shrinking

def frame_offsets(data):
    offs, off = [], 0
    while off + 8 <= len(data):
        l = int.from_bytes(data[off:off + 8], "little")
        if l == 0:
            break
        rec = l & 0x00FFFFFFFFFFFFFF
        pad = (l >> 56) & 7 if l >> 63 else 0
        offs.append(off)
        off += 8 + rec + pad
    return offs, off


class Block:
    def __init__(self, hdr):
        self.wal = hdr[0]
        self.ops = []          # out-ops (with OPCUT) as token lists
        self.dirs = collections.OrderedDict()   # did -> dict(nops, files=[(seq, idx, bytes)])
        for l in hdr[1:]:
            fs = l.split()
            if fs[0] in ("OPSAVE", "OPSNAP", "OPCUT", "OPREOPEN"):
                self.ops.append(fs)
            elif fs[0] == "DIR":
                self.dirs[fs[1]] = dict(nops=int(fs[3]), files=[])
            elif fs[0] == "F":
                self.dirs[fs[1]]["files"].append((fs[2], fs[3], bytes.fromhex(fs[4])))

    def real_ops(self):
        return [o for o in self.ops if o[0] != "OPCUT"]

    def nrec(self):
        """records written per real operation; a cut is attributed to the operation before it"""
        res, nonempty = [], False
        for o in self.ops:
            if o[0] == "OPSAVE":
                st = any(int(x, 16) for x in o[2:5])
                nonempty = nonempty or st
                res.append(int(o[5]) + (1 if st else 0))
            elif o[0] == "OPSNAP":
                res.append(1)
            elif o[0] == "OPREOPEN":
                res.append(0)
                nonempty = False      # ReadAll does not restore w.state
            elif o[0] == "OPCUT" and res:
                res[-1] += 2 + (1 if nonempty else 0)
        return res

    def real_index_after(self, nops):
        """index of the last real operation among the first nops out-ops (-1 = only Create)"""
        return sum(1 for o in self.ops[:nops] if o[0] != "OPCUT") - 1


def symbolic(block, case):
    """MUT line for a case of this block, or None when it has no symbolic form."""
    fs = case.split()
    try:
        if fs[0] == "READ":
            d = block.dirs[fs[2]]
            if d["nops"] != len(block.ops):
                return None
            return "MUT READ %s %s" % (fs[3], fs[4])
        if fs[0] == "K":
            return "MUT K %d" % block.real_index_after(int(fs[5]))
        if fs[0] == "M":
            d = block.dirs[fs[2]]
            if d["nops"] != len(block.ops):
                return None
            fi, off, val = int(fs[5]), int(fs[6]), int(fs[7])
            g = 0
            for i, (_, _, data) in enumerate(d["files"]):
                offs, end = frame_offsets(data)
                if i == fi:
                    if off >= end:
                        if i == len(d["files"]) - 1:
                            return "MUT MFREE %d %d %s %s" % (off - end, val, fs[3], fs[4])
                        return None
                    k = max(j for j, o in enumerate(offs) if o <= off)
                    g += k
                    rel = off - offs[k]
                    break
                g += len(offs)
            if g < 3:
                return "MUT M -1 %d %d %d %s %s" % (g, rel, val, fs[3], fs[4])
            g -= 3
            for op, n in enumerate(block.nrec()):
                if g < n:
                    return "MUT M %d %d %d %d %s %s" % (op, g, rel, val, fs[3], fs[4])
                g -= n
            return None
        if fs[0] == "T":
            ids = list(block.dirs)
            bi = ids.index(fs[2])
            B = block.dirs[fs[2]]
            synced = int(fs[7])
            for j in range(bi - 1, -1, -1):
                A = block.dirs[ids[j]]
                if A["nops"] >= 0 and len(A["files"]) == len(B["files"]) and frame_offsets(A["files"][-1][2])[1] == synced:
                    return "MUT T %d %d %d %s %s" % (block.real_index_after(A["nops"]), block.real_index_after(B["nops"]),
                                                     int(fs[6]) - synced, fs[3], fs[4])
            return None
        if fs[0] in ("Z", "L"):
            ids = list(block.dirs)
            bi = ids.index(fs[2])
            B = block.dirs[fs[2]]
            synced = int(fs[5])
            ai = None
            for j in range(bi - 1, -1, -1):
                A = block.dirs[ids[j]]
                if len(A["files"]) == len(B["files"]) and frame_offsets(A["files"][-1][2])[1] == synced:
                    ai = j
                    break
            if ai is None:
                return None
            a = block.real_index_after(block.dirs[ids[ai]]["nops"])
            b = block.real_index_after(B["nops"])
            mask = 0
            if fs[6] != "-":
                for s in fs[6].split(","):
                    mask |= 1 << (int(s) - synced // 512)
            if fs[0] == "L":
                return "MUT L %d %d %d %s %s %s %s" % (a, b, mask, fs[3], fs[4], fs[7], fs[8])
            return "MUT Z %d %d %d %s %s" % (a, b, mask, fs[3], fs[4])
    except Exception:
        return None
    return None


def renumber(ops):
    """After removing operations/entries: close gaps in the entry indexes (overwrites keep their
    distance), clamp commit, shift snapshot indexes. Returns None when that is not possible."""
    out, delta, prev_old, last_new = [], 0, 0, 0
    for o in ops:
        o = list(o)
        if o[0] == "OPSAVE":
            n = int(o[5])
            for i in range(n):
                old = int(o[6 + 4 * i + 2], 16)
                if old > prev_old + 1:
                    delta += old - prev_old - 1
                new = old - delta
                if new < 1:
                    return None
                o[6 + 4 * i + 2] = "%x" % new
                prev_old, last_new = old, new
            c = int(o[4], 16)
            if c:
                o[4] = "%x" % max(0, min(c - delta, last_new))
        elif o[0] == "OPSNAP":
            idx = int(o[2], 16) - delta
            if idx < 1:
                return None
            o[2] = "%x" % idx
        out.append(o)
    return out


def retarget(mut, removed):
    """Adjust the operation indexes of a MUT line after removing real operation `removed`."""
    fs = mut.split()
    if fs[1] == "K":
        op = int(fs[2])
        if op == removed:
            return None
        if op > removed:
            fs[2] = str(op - 1)
    elif fs[1] == "M":
        op = int(fs[2])
        if op == removed:
            return None
        if op > removed:
            fs[2] = str(op - 1)
    elif fs[1] in ("Z", "T", "L"):
        a, b = int(fs[2]), int(fs[3])
        if removed in (a, b):
            return None
        fs[2] = str(a - 1 if a > removed else a)
        fs[3] = str(b - 1 if b > removed else b)
    return " ".join(fs)


def payload_variants(tok):
    if tok in ("nil", "x"):
        return []
    h = tok[1:]
    n = len(h) // 2
    v = ["nil", "x"]
    if n > 1:
        v += ["x" + h[:2 * (n // 2)], "x" + h[:2]]
    if any(c != "0" for c in h):
        v.append("x" + "00" * n)
    return v


class Shrinker:
    def __init__(self, d, known_open, budget=300):
        self.d, self.known_open, self.budget, self.evals = d, known_open, budget, 0

    def run_script(self, lines):
        """Performs a script on the real WAL; returns the case text or None."""
        sp = self.d / "shrink.script"
        sp.write_text("\n".join(lines) + "\n")
        cp = self.d / "shrink.cases"
        rc, out = lib.sh("%s script %s %s" % (lib.BUILD / H, sp, cp), cwd=self.d, timeout=120,
                         extra_env={"VERIF_SCRATCH_ROOT": str(self.d)})
        if rc != 0:
            return None
        text = cp.read_text()
        if "INVALID" in text:
            return None
        return text

    def eval_script(self, wal, ops, mut, category):
        """Returns the raw case text when (ops, mut) still fails in the same way, else None."""
        if self.evals >= self.budget:
            return None
        self.evals += 1
        text = self.run_script([wal] + [" ".join(o) for o in ops] + [mut])
        if text is None:
            return None
        impl, model, oracle, err = run_wal_cases(self.d, text, "shrinkrun", timeout=300, jobs=1)
        if err:
            return None
        f = failing(impl, model, oracle, self.known_open)
        if any(c == category for _, c, _ in f):
            return text
        return None

    def shrink(self, wal, ops, mut, category):
        best = self.eval_script(wal, ops, mut, category)
        if best is None:
            return None, ops, mut
        changed = True
        while changed and self.evals < self.budget:
            changed = False
            # drop whole operations, last first
            i = len(ops) - 1
            while i >= 0:
                m2 = retarget(mut, i)
                if m2 is not None:
                    cand = renumber(ops[:i] + ops[i + 1:])
                    if cand is not None:
                        t = self.eval_script(wal, cand, m2, category)
                        if t:
                            ops, mut, best, changed = cand, m2, t, True
                i -= 1
            # drop entries / shrink payloads
            for i in range(len(ops)):
                if ops[i][0] != "OPSAVE":
                    continue
                j = int(ops[i][5]) - 1
                while j >= 0:
                    o = ops[i]
                    n = int(o[5])
                    if n > 1 or any(int(x, 16) for x in o[2:5]):
                        cand_op = o[:5] + [str(n - 1)] + o[6:6 + 4 * j] + o[6 + 4 * j + 4:]
                        cand = renumber(ops[:i] + [cand_op] + ops[i + 1:])
                        if cand is not None:
                            t = self.eval_script(wal, cand, mut, category)
                            if t:
                                ops, best, changed = cand, t, True
                                j -= 1
                                continue
                    for v in payload_variants(o[6 + 4 * j + 3]):
                        cand_op = list(o)
                        cand_op[6 + 4 * j + 3] = v
                        cand = ops[:i] + [cand_op] + ops[i + 1:]
                        t = self.eval_script(wal, cand, mut, category)
                        if t:
                            ops, best, changed = cand, t, True
                            break
                    j -= 1
            # simplest metadata
            wf = wal.split()
            if wf[3] != "nil":
                w2 = " ".join(wf[:3] + ["nil"])
                t = self.eval_script(w2, ops, mut, category)
                if t:
                    wal, best, changed = w2, t, True
        return best, [wal] + [" ".join(o) for o in ops], mut


def minimal_text(block_hdr, case):
    """header restricted to the directory the case uses (and, for Z, nothing else is needed)"""
    did = case.split()[2]
    keep = []
    for l in block_hdr:
        fs = l.split()
        if fs[0] in ("DIR", "F", "ENDDIR") and fs[1] != did:
            continue
        keep.append(l)
    return "\n".join(keep + [case]) + "\n"


def report_wal_failure(ctx, d, blocks, key, category, why, impl, model, oracle, known_open):
    cid = key.split()[1]
    if key.startswith("D "):
        # the writer model does not reproduce the directory the real code wrote: re-run the
        # script itself (shortest prefix of the operations that still disagrees)
        for hdr, cases in blocks:
            if any(l.startswith("DIR %s " % cid) for l in hdr):
                blk = Block(hdr)
                ops = [" ".join(o) for o in blk.real_ops()]
                sh = Shrinker(d, known_open)
                for k in range(0, len(ops) + 1):
                    text = sh.run_script([hdr[0]] + ops[:k] + ["MUT READ 0 0"])
                    if text is None:
                        continue
                    i2, m2, o2, err = run_wal_cases(d, text, "wfinal", timeout=300, jobs=1)
                    f = [] if err else failing(i2, m2, o2, known_open)
                    if f:
                        k2 = f[0][0]
                        names = {}
                        for l in text.splitlines():
                            fs2 = l.split()
                            if fs2 and fs2[0] == "F":
                                names.setdefault(fs2[1], []).append("%016x-%016x.wal" % (int(fs2[2], 16), int(fs2[3], 16)))
                        return lib.violation(PID, dict(
                            kind="wal-writer", why="the directory written by the real Create/Save/SaveSnapshot/cut/Close+Open (or its read-back) differs from the writer model (s_run_d/w_files): segment file names <seq>-<index of the first entry it may hold> and contents are compared",
                            real_segment_names=names.get(k2.split()[1] if k2.startswith("D ") else "", names),
                            script=[hdr[0]] + ops[:k], mutation="MUT READ 0 0", key=k2, impl=i2.get(k2), model=m2.get(k2), cases=text))
                keep = [l for l in hdr if l.split()[0] in ("WAL", "OPSAVE", "OPSNAP", "OPCUT", "OPREOPEN") or l.split()[1] == cid]
                obj = dict(kind="wal-writer", why="the directory written by the real Create/Save/SaveSnapshot/cut differs from the writer model (w_run/w_files)",
                           dir=cid, impl=impl.get(key), model=model.get(key), script=[hdr[0]] + ops, mutation="MUT READ 0 0", cases="\n".join(keep) + "\n")
                return lib.violation(PID, obj)
        return lib.violation(PID, dict(kind="wal-writer", dir=cid, impl=impl.get(key), model=model.get(key)))
    for hdr, cases in blocks:
        for c in cases:
            if c.split()[1] == cid:
                text = minimal_text(hdr, c)
                obj = dict(kind="wal", category=category, why=why, case=c, impl=impl.get(key), model=model.get(key),
                           impl_normalised=norm(impl.get(key) or ""), model_normalised=norm(model.get(key) or ""),
                           oracle=oracle.get(cid), cases=text)
                blk = Block(hdr)
                mut = symbolic(blk, c)
                if mut:
                    sh = Shrinker(d, known_open)
                    best, script, mut2 = sh.shrink(hdr[0], blk.real_ops(), mut, category)
                    if best:
                        i2, m2, o2, err = run_wal_cases(d, best, "final", timeout=300, jobs=1)
                        f = [x for x in failing(i2, m2, o2, known_open) if x[1] == category] if not err else []
                        if f:
                            k2 = f[0][0]
                            obj.update(cases=best, script=script, mutation=mut2, impl=i2.get(k2), model=m2.get(k2),
                                       impl_normalised=norm(i2.get(k2) or ""), model_normalised=norm(m2.get(k2) or ""),
                                       oracle=o2.get(k2.split()[1]), why=f[0][2], shrink_evaluations=sh.evals,
                                       case=[l for l in best.splitlines() if l.split()[0] in CASE_TAGS][0])
                return lib.violation(PID, obj)
    return lib.violation(PID, dict(kind="wal", category=category, why=why, key=key))


# ----------------------------------------------------------------------------- phases

def phase_crc(ctx, d, n):
    rc, out = lib.sh("%s gencrc crc.cases %d %d" % (lib.BUILD / H, ctx.seed, n), cwd=d, timeout=300)
    if rc != 0:
        return None, "gencrc failed: " + out[-1000:]
    return crc_compare(d, "crc.cases")


def crc_compare(d, name):
    rc1, o1 = lib.sh("%s observe crc %s %s.impl" % (lib.BUILD / H, name, name), cwd=d, timeout=600,
                     extra_env={"VERIF_SCRATCH_ROOT": str(d)})
    rc2, o2 = lib.sh("%s crc %s %s.model" % (lib.BUILD / R, name, name), cwd=d, timeout=1200)
    if rc1 or rc2:
        return None, "crc run failed: " + (o1 + o2)[-1000:]
    cases = [l for l in (d / name).read_text().splitlines() if l.startswith("CRC ")]
    a = (d / (name + ".impl")).read_text().splitlines()
    b = (d / (name + ".model")).read_text().splitlines()
    diffs = [i for i in range(max(len(a), len(b))) if i >= len(a) or i >= len(b) or a[i] != b[i]]
    return dict(n=len(cases), cases=cases, impl=a, model=b, diffs=diffs), None


def shrink_crc(d, case):
    _, prev, data = case.split()
    data = "" if data == "-" else data
    def differs(p, h):
        (d / "crc1.cases").write_text("CRC %s %s\n" % (p, h or "-"))
        r, err = crc_compare(d, "crc1.cases")
        return (not err) and bool(r["diffs"]), r
    best = (prev, data)
    for p in ("0", prev):
        n = len(data) // 2
        lo = 0
        for k in range(0, n + 1):
            ok, _ = differs(p, data[:2 * k])
            if ok:
                best = (p, data[:2 * k])
                lo = 1
                break
        if lo:
            break
    ok, r = differs(*best)
    return dict(prev=best[0], data_hex=best[1], impl=r["impl"] if r else None, model=r["model"] if r else None)


def phase_snap(ctx, d):
    rc, out = lib.sh("%s gensnap snap.cases %d %s" % (lib.BUILD / H, ctx.seed, ctx.tier), cwd=d, timeout=300,
                     extra_env={"VERIF_SCRATCH_ROOT": str(d)})
    if rc != 0:
        return None, "gensnap failed: " + out[-1000:]
    return snap_compare(d, "snap.cases")


def snap_compare(d, name):
    rc1, o1 = lib.sh("%s observe snap %s %s.impl" % (lib.BUILD / H, name, name), cwd=d, timeout=1200,
                     extra_env={"VERIF_SCRATCH_ROOT": str(d)})
    rc2, o2 = lib.sh("%s snap %s %s.model" % (lib.BUILD / R, name, name), cwd=d, timeout=1200)
    if rc1 or rc2:
        return None, "snap run failed: " + (o1 + o2)[-1000:]
    cases = [l for l in (d / name).read_text().splitlines() if l.startswith(("SNAP ", "SNAPENC "))]
    a = (d / (name + ".impl")).read_text().splitlines()
    b = (d / (name + ".model")).read_text().splitlines()
    diffs = [i for i in range(max(len(a), len(b))) if i >= len(a) or i >= len(b) or a[i] != b[i]]
    # oracle: whatever Load returns is one of the snapshots that were saved (never damaged data)
    saved = set()
    import hashlib
    bad = []
    for i, c in enumerate(cases):
        fs = c.split()
        if fs[0] == "SNAPENC":
            saved.add(hashlib.md5(bytes.fromhex(fs[1])).hexdigest())
        elif i < len(b):
            m = re.search(r"load=ok:([0-9a-f]+)", b[i])
            if m and m.group(1) not in saved:
                bad.append(i)
    return dict(n=len(cases), cases=cases, impl=a, model=b, diffs=diffs, bad=bad), None


def shrink_snap(d, case, pred):
    fs = case.split()
    files = [(fs[i], fs[i + 1]) for i in range(3, len(fs) - 1, 2)]
    def mk(fl):
        return "SNAP %s %d %s" % (fs[1], len(fl), " ".join("%s %s" % f for f in fl))
    changed = True
    while changed and len(files) > 1:
        changed = False
        for i in range(len(files)):
            cand = files[:i] + files[i + 1:]
            (d / "snap1.cases").write_text(mk(cand) + "\n")
            r, err = snap_compare(d, "snap1.cases")
            if not err and pred(r):
                files, changed = cand, True
                break
    (d / "snap1.cases").write_text(mk(files) + "\n")
    r, err = snap_compare(d, "snap1.cases")
    return mk(files), r


# ----------------------------------------------------------------------------- witness of the open finding

# the log of theorem C16_type_byte_refuted (coq/Wal/WalRefuted.v): three entries then a hard
# state; the type byte of the last entry record is changed from 2 (entry) to 3 (state)
WITNESS_SCRIPT = """WAL w0 4096 x6d
OPSAVE w0 0 0 0 3 0 7 1 x61 0 7 2 x62 0 7 3 x63
MUT M 0 2 9 3 0 0
"""


# the log of theorem C16_data_length_byte_refuted: metadata "ab" + a CRC-neutral unknown field;
# the data-length byte of the metadata record (offset 17 of its frame) is changed from 7 to 2
WITNESS2_SCRIPT = """WAL w0 4096 x616225270c0be4
MUT M -1 1 17 2 0 0
"""


def replay_witness(d, script=None):
    """Replays the Coq witness on the real WAL. Returns (text, fabricated: bool)."""
    (d / "witness.script").write_text(script or WITNESS_SCRIPT)
    rc, out = lib.sh("%s script witness.script witness.cases" % (lib.BUILD / H), cwd=d, timeout=120,
                     extra_env={"VERIF_SCRATCH_ROOT": str(d)})
    if rc != 0:
        return "script failed: " + out[-500:], False, None
    text = (d / "witness.cases").read_text()
    impl, model, oracle, err = run_wal_cases(d, text, "witness", timeout=300, jobs=1)
    if err:
        return err, False, None
    k = [k for k in impl if k.startswith("R ")][0]
    o = oracle.get(k[2:], {})
    fab = o.get("oracle") == "BAD" and "readall=ok" in impl[k] and norm(impl[k]) == norm(model.get(k, ""))
    return impl[k], fab, dict(impl=impl[k], model=model.get(k), oracle=o)


# ----------------------------------------------------------------------------- replay

def do_replay(ctx, known_open):
    r = json.load(open(ctx.replay))
    d = lib.scratch("c16-replay-")
    kind = r.get("kind")
    if kind in ("wal", "wal-writer") and (r.get("cases") or r.get("script")):
        text = r.get("cases")
        if r.get("script") and r.get("mutation"):
            # perform the stored script on the current WAL code (the stored bytes are what the
            # code wrote when the replay was recorded)
            t2 = Shrinker(d, known_open).run_script(list(r["script"]) + [r["mutation"]])
            if t2 is not None:
                text = t2
            elif kind == "wal-writer" or not text:
                print("the stored script no longer applies to the layout the current code writes")
                return 1
        impl, model, oracle, err = run_wal_cases(d, text, "replay", timeout=600, jobs=1)
        if err:
            print("replay failed to run:", err)
            return 1
        f = failing(impl, model, oracle, known_open)
        for k in sorted(impl):
            print("impl  %s %s" % (k, impl[k]))
            print("model %s %s" % (k, model.get(k)))
            if k[2:] in oracle:
                print("oracle %s %s" % (k[2:], oracle[k[2:]]))
        for k, c, why in f:
            print("FAILS %s: %s (%s)" % (k, why, c))
        return 1 if f else 0
    if kind == "crc":
        (d / "crc1.cases").write_text("CRC %s %s\n" % (r["prev"], r["data_hex"] or "-"))
        res, err = crc_compare(d, "crc1.cases")
        print("impl :", res["impl"], "\nmodel:", res["model"])
        return 1 if err or res["diffs"] else 0
    if kind == "snap":
        (d / "snap1.cases").write_text("".join(l + "\n" for l in r["cases"]))
        res, err = snap_compare(d, "snap1.cases")
        print("impl :", res["impl"], "\nmodel:", res["model"])
        return 1 if err or res["diffs"] or res["bad"] else 0
    print("replay file names no runnable case (kind=%s): %s" % (kind, r.get("what", "")[:2000]))
    return 1


# ----------------------------------------------------------------------------- main

def run(ctx):
    known_open = frozenset(k["id"] for k in lib.known_findings(PID) if k["kind"] == "open")
    berr = build()
    if ctx.replay:
        if berr:
            print(berr)
            return 1
        return do_replay(ctx, known_open)
    cov, broken = lib.proof_gate(ctx, extra_tb=[
        "ml/walutil.ml + ml/walrun.ml (line parsing, hex, md5 of canonical result text, printing): trusted glue",
        "harness_wal/*.go (generators, crash-image and corruption enumeration, classification of Go errors into repairable/fatal): differential testing, as strong as its generators",
        "storage model (DESIGN A.6): preallocated zero-filled segments, sector-atomic writes, fsync makes a prefix durable; the file system below write/fsync is modelled, not verified",
        "modelled, not verified: gogo-protobuf generated Unmarshal/Marshal for walpb.Record, raftpb.Entry/HardState/ConfState, walpb.Snapshot, snappb.Snapshot (re-modelled in coq/Wal/Pb.v, compared on every run); hash/crc32 (bitwise re-implementation compared with Go on every run); bufio/io.ReadFull/PageWriter buffering",
    ])
    broken = broken or berr
    d = lib.scratch("c16-")
    stats = collections.Counter()
    hist = collections.Counter()
    samples = []
    rc = 0
    reported = False

    def fail(obj, found=True):
        nonlocal rc, reported
        if not reported:
            if obj is not None:
                lib.violation(PID, obj, found_input=found)
            ctx.violations += 1
            reported = True
        rc = 1

    if not berr:
        # ---- 1. CRC-32C: the bitwise model against hash/crc32
        res, err = phase_crc(ctx, d, 400 if ctx.tier == "quick" else 4000)
        if err:
            broken = broken or err
        else:
            stats["crc_cases"] = res["n"]
            if res["diffs"]:
                i = res["diffs"][0]
                s = shrink_crc(d, res["cases"][i])
                fail(dict(kind="crc", why="crc32.Update(prev, Castagnoli, data) differs from the Coq model crc_update", **s))
        # ---- 2. the WAL, small scripts first
        for fam in ("small", "big"):
            if reported:
                break
            t_fam = ctx.wall()
            name = "wal_%s.cases" % fam
            rcg, out = lib.sh("%s genwal %s %d %s %s" % (lib.BUILD / H, name, ctx.seed, ctx.tier, fam), cwd=d,
                              timeout=900, extra_env={"VERIF_SCRATCH_ROOT": str(d)})
            if rcg != 0:
                broken = broken or ("genwal %s failed: %s" % (fam, out[-1500:]))
                continue
            for kv in out.split():
                if "=" in kv:
                    k, v = kv.split("=", 1)
                    stats["%s_%s" % (fam, k)] += int(v)
            text = (d / name).read_text()
            impl, model, oracle, err = run_wal_cases(d, text, "wal_" + fam)
            if err:
                broken = broken or err
                continue
            stats["seconds_%s" % fam] = int(ctx.wall() - t_fam)
            blocks = split_blocks(text)
            stats["wal_cases"] += sum(1 for k in impl if k.startswith("R "))
            stats["wal_dirs_vs_writer_model"] += sum(1 for k in impl if k.startswith("D "))
            for k, v in impl.items():
                if not k.startswith("R "):
                    continue
                o = oracle.get(k[2:], {})
                kind = o.get("kind", "?")
                outcome = "ok" if "readall=ok" in v else ("torn" if "readall=err:unexpected_eof" in v else "fatal")
                if "repair=1" in v:
                    outcome += "+repaired"
                hist["%s/%s/%s" % (kind, o.get("part", "-"), outcome)] += 1
                if kind == "K":
                    stats["kill_images"] += 1
                if kind == "T":
                    stats["truncation_images"] += 1
                if kind == "L":
                    stats["two_life_scenarios"] += 1
                if kind == "READ" and o.get("spec") == "ok":
                    stats["reads_checked_against_spec_run"] += 1
                if kind == "READ" and o.get("specat") == "ok":
                    stats["snapshot_reads_checked_against_spec"] += 1
                if kind in ("READ", "K", "T", "L") or "err:" in v or (kind == "Z" and "repair" in v):
                    stats["nontrivial"] += 1
                ov = oracle_verdict(o)
                if ov == "known:" + FINDING:
                    stats["type_byte_returned_as_valid"] += 1
                elif ov == "known:" + FINDING2:
                    stats["data_length_byte_returned_as_valid"] += 1
                elif ov == "coincidence":
                    stats["crc_coincidence_outside_side_condition"] += 1
                if kind == "Z" and o.get("nocoin") == "1":
                    stats["crash_images_side_condition_holds"] += 1
            f = failing(impl, model, oracle, known_open)
            if f:
                key, category, why = f[0]
                stats["failing_cases"] += len(f)
                report_wal_failure(ctx, d, blocks, key, category, why, impl, model, oracle, known_open)
                ctx.violations += 1
                reported = True
                rc = 1
            if fam == "small":
                keys = [k for k in sorted(impl) if k.startswith("R ")]
                for k in keys[:1] + keys[len(keys) // 2:len(keys) // 2 + 2]:
                    case = next((c for _, cs in blocks for c in cs if c.split()[1] == k[2:]), "")
                    samples.append(dict(case=case[:160], result=impl[k][:200]))
        # ---- 3. snapshot files
        if not reported:
            res, err = phase_snap(ctx, d)
            if err:
                broken = broken or err
            else:
                stats["snap_cases"] = res["n"]
                stats["snap_fallbacks"] = sum(1 for l in res["impl"] if "broken=" in l and not l.endswith("broken=-"))
                if res["diffs"] or res["bad"]:
                    i = (res["diffs"] or res["bad"])[0]
                    pred = (lambda r: bool(r["diffs"])) if res["diffs"] else (lambda r: bool(r["bad"]))
                    case = res["cases"][i]
                    if case.startswith("SNAP "):
                        encs = [c for c in res["cases"][:i] if c.startswith("SNAPENC")]
                        case, r1 = shrink_snap(d, case, pred)
                        obj = dict(kind="snap", cases=[case], impl=r1["impl"] if r1 else None, model=r1["model"] if r1 else None)
                    else:
                        obj = dict(kind="snap", cases=[case], impl=res["impl"][i:i + 1], model=res["model"][i:i + 1])
                    obj["why"] = ("Snapshotter.Load/SaveSnap differs from the Coq model snap_load/snap_file_of" if res["diffs"]
                                  else "Load returned data that is none of the saved snapshots")
                    fail(obj)
                if res["cases"]:
                    samples.append(dict(case=res["cases"][-1][:160], result=res["impl"][-1][:120]))
        # ---- 4. the witness of the open finding, replayed on the real code
        for fid, script, key, what in (
                (FINDING, WITNESS_SCRIPT, "witness_fabricated_hardstate", "record type byte 2->3 returns a fabricated HardState as valid data"),
                (FINDING2, WITNESS2_SCRIPT, "witness_modified_metadata", "data-length byte 7->2 returns modified metadata as valid data")):
            wtext, fabricated, winfo = replay_witness(d, script)
            stats[key] = 1 if fabricated else 0
            if fid in known_open and fabricated:
                pass
            elif fid in known_open and not fabricated and not reported:
                # the finding is listed but the witness no longer reproduces: tell, do not alarm
                ctx.notes.append("witness of %s no longer reproduces: %s" % (fid, wtext))
            elif fabricated and fid not in known_open and not reported:
                fail(dict(kind="wal", category="bad", why=what,
                          cases=(d / "witness.cases").read_text(), **(winfo or {})))

    if broken and not reported:
        lib.violation(PID, dict(kind="tie-broken", what=broken), found_input=False)
        ctx.violations += 1
        rc = 1
    for kf in lib.known_findings(PID):
        if kf["kind"] == "open":
            extra = ""
            if kf["id"] == FINDING:
                extra = " [this run: %d type-byte corruptions returned as valid data; witness replayed on the real WAL: %s]" % (
                    stats["type_byte_returned_as_valid"], "fabricated HardState returned with err=nil" if stats["witness_fabricated_hardstate"] else "not reproduced")
            if kf["id"] == FINDING2:
                extra = " [this run: %d data-length-byte corruptions returned as valid data; witness replayed on the real WAL: %s]" % (
                    stats["data_length_byte_returned_as_valid"], "modified metadata returned with err=nil" if stats["witness_modified_metadata"] else "not reproduced")
            print("KNOWN-FINDING: property=%s %s %s%s" % (PID, kf["id"], kf["text"], extra))
    for n in ctx.notes:
        print("note:", n)
    evaluations = stats["crc_cases"] + stats["wal_cases"] + stats["wal_dirs_vs_writer_model"] + stats["snap_cases"]
    cov.update(dict(
        evaluations=evaluations,
        distinct_nontrivial=stats["nontrivial"] + stats["snap_fallbacks"],
        rule=("cases are distinct by construction (a directory written by the real WAL code x one crash image / one (offset,value) / one start snapshot); "
              "a WAL case counts as non-trivial when it is a pristine read-back or the mutilation is observable (error, repair); a snapshot case when Load had to fall back. "
              "quick: ~300 scripts of 1-7 Save/SaveSnapshot operations (segment sizes 512..4096, so cuts occur) + 2 long logs; crash images = every subset of the unsynced sectors up to 4 (thorough: 6) sectors, sampled above; "
              "a process-kill image (files copied while the WAL is open) after every operation of the short scripts, checked with completed_ok/kill_prefix_ok; corruptions = header sweep (length field, tags, type, crc, data length) + sampled data bytes per record (thorough: every offset x 255 values on the smallest logs); snapshot directories: every offset of the newest file x 3 values (thorough: 7)"),
        samples=samples or ["(none)"],
        stats=dict(stats), seconds={k: round(v, 1) for k, v in TIMES.items()}, outcome_histogram=dict(sorted(hist.items())),
        exhaustive=False,
        correspondence="wal.Create/Save/SaveSnapshot/cut, wal.Verify, wal.Open+ReadAll, wal.Repair, snap.Snapshotter.SaveSnap/Load, crc32.Update (built from VERIF_REPO) vs extracted w_run/w_files, verify, read_all_w, repair_files, snap_file_of/snap_load, crc_update on the same bytes",
    ))
    lib.write_evidence(PID, ctx.tier, ctx.seed, cov,
                       ["sector-atomic storage over zero-filled preallocated segments (the property's storage model)",
                        "no_crc_coincidence side condition of C16_torn_tail, evaluated on every generated crash image",
                        "extraction + OCaml compiler", "Go runtime, os file API"],
                       ctx.wall(), ctx.violations)
    return rc
