"""C01 — string and key commands behave as a sequential Redis keyspace."""
from . import gen, memlib

PID = "C01"


def make_cases(tier, seed):
    n = 400 if tier == "quick" else 6000
    return gen.gen_c01(seed, n)


def run(ctx):
    return memlib.run_family(ctx, PID, make_cases,
                             rule="seeded random programs (1-30 commands) of string/key commands over 2-6 keys (case variants, empty, binary), all SET option shapes, boundary indexes, numeric extremes, a malformed-arity stream, virtual-clock sleeps")
