"""C01 — string and key commands behave as a sequential Redis keyspace.

Proof half: coq/Properties/C01.v (refinement of the reference clauses of coq/Mem/StringsSpec.v by
the model's exec, for all programs / byte strings / well-formed databases).
Tie: the programs below run on the real server.Manager (virtual clock) and on the extracted
model; every reply and every keyspace dump is compared (checks/memlib.py)."""
import json
import re

from . import gen_str, lib, memlib

PID = "C01"
_counts = {}


def make_cases(tier, seed):
    quick = tier == "quick"
    small = [
        ("setrange_gap", gen_str.gap_cases()),
        ("aliasing", gen_str.aliasing_cases()),
        ("set_options", gen_str.set_option_cases()),
        ("indexes", gen_str.index_cases()),
        ("generic_keys_all_types", gen_str.generic_key_cases()),
        ("malformed", gen_str.malformed_cases(seed)),
        ("random", gen_str.random_programs(seed, 1500 if quick else 25000)),
    ]
    # the small streams run in both argument shapes: exact-capacity slices (hex-decoded) and the
    # shape resp.ParseStream gives the server (harness memrun "wire" cases); the exhaustive
    # streams alternate the shape from one program to the next
    streams = []
    for name, cs in small:
        streams.append((name, cs))
        streams.append((name + "_wire", gen_str.wired(cs)))
    streams += [
        # bounded-exhaustive: ALL programs of length 2 and 3 over 2 keys x the command instances
        ("exhaustive_len2", list(gen_str.exhaustive_cases(2))),
        ("exhaustive_len3", list(gen_str.exhaustive_cases(3, sample=None, seed=seed))),
    ]
    if not quick:
        streams.append(("exhaustive_len3_large_sample",
                        list(gen_str.exhaustive_cases(3, sample=400000, seed=seed, large=True))))
        streams.append(("exhaustive_len4_sample", list(gen_str.exhaustive_cases(4, sample=300000, seed=seed))))
    cases = []
    for name, cs in streams:
        _counts[name] = len(cs)
        cases += cs
    _counts["command_instances"] = len(gen_str.command_instances())
    return cases


def post(ctx, d):
    """Count the INCRBYFLOAT steps the model could only accept (outside the exact decimal domain)."""
    cov = {"streams": dict(_counts), "other_types_prepopulated": gen_str.available_other_types()}
    ver = d / "main.verdict"
    if ver.exists():
        m = re.search(r"SUMMARY .*ood=(\d+)", ver.read_text())
        if m:
            cov["incrbyfloat_out_of_domain_steps_skipped"] = int(m.group(1))
    return None, cov


def tcp_run(d, text, tag="tcp"):
    """One program file through server.Start over TCP (real clock build) and the model."""
    prog, out, ver = d / (tag + ".prog"), d / (tag + ".trace"), d / (tag + ".verdict")
    prog.write_text(text)
    for f in (out, ver):
        if f.exists():
            f.unlink()
    rc, log = lib.sh("%s tcprun %s %s %s" % (lib.BUILD / "harness", prog, out, d), cwd=d, timeout=300)
    if rc != 0 or not out.exists():
        return None, "", "tcp harness rc=%s log=%s" % (rc, log[-1500:])
    rc, log = lib.sh("%s mem %s %s" % (lib.BUILD / "modelrun", out, ver), cwd=d, timeout=300)
    if rc != 0 or not ver.exists():
        return None, out.read_text(), "modelrun rc=%s log=%s" % (rc, log[-1500:])
    return ver.read_text().splitlines(), out.read_text(), None


def tcp_sample(ctx, nfiles):
    """Random expiry-free programs through the real RESP parser, connection loop and reply
    encoder (server.Start on a free port); replies compared with the model."""
    ok, log = lib.ensure_harness()
    d = lib.scratch("c01tcp-")
    if not ok:
        lib.violation(PID, dict(kind="tie-broken", what="real-clock harness build failed: " + log[-2000:]), found_input=False)
        return 1, {}
    steps = progs = 0
    for i in range(nfiles):
        cases = gen_str.tcp_programs(ctx.seed * 1000 + i)
        text = "".join(c.text() for c in cases)
        v, trace, err = tcp_run(d, text)
        steps += sum(1 for l in trace.splitlines() if l.startswith("S "))
        progs += len(cases)
        mm = memlib.mismatching(v)
        if err or mm:
            allc = memlib.split_cases(text)
            name = sorted(mm)[0] if mm else None
            cl = [c for c in allc if name and memlib.case_name(c) == name]
            case = cl[0] if cl else (allc[0] if allc else [])
            lib.violation(PID, dict(kind="tcp-vs-model" if mm else "tcp-harness-failed", via="tcp", detail=mm.get(name) if mm else err,
                                    case_lines=case, readable=memlib.decode_case(case),
                                    note="replies read from a TCP connection to server.Start disagree with the model on this program"))
            return 1, dict(tcp_steps=steps, tcp_programs=progs)
    return 0, dict(tcp_steps=steps, tcp_programs=progs,
                   tcp_correspondence="server.Start on a free port (real RESP parser, connection loop, reply encoder) vs extracted srv_exec: every reply compared; expiry-free programs, one connection and one SELECTed database per program")


def run(ctx):
    if ctx.replay:
        r = json.load(open(ctx.replay))
        if r.get("via") == "tcp":
            ok, log = lib.ensure_harness()
            memlib.build(ctx)
            d = lib.scratch("c01tcp-")
            v, trace, err = tcp_run(d, "\n".join(r.get("case_lines", [])) + "\n")
            print(trace)
            print("\n".join(v or []), err or "")
            return 1 if (err or memlib.mismatching(v)) else 0
    rc = run_main(ctx)
    if ctx.replay:
        return rc
    rc2, cov = tcp_sample(ctx, 2 if ctx.tier == "quick" else 40)
    evf = lib.VERIF / "evidence" / (PID + ".json")
    if evf.exists():
        ev = json.load(open(evf))
        ev["coverage"].update(cov)
        ev["coverage"]["evaluations"] = ev["coverage"].get("evaluations", 0) + cov.get("tcp_steps", 0)
        ev["violations"] = int(ev.get("violations", 0)) + (1 if rc2 else 0)
        ev["wall_s"] = round(ctx.wall(), 2)
        evf.write_text(json.dumps(ev, indent=1))
    return 1 if (rc or rc2) else 0


def run_main(ctx):
    return memlib.run_family(
        ctx, PID, make_cases,
        rule=("every SET option subset x argument shape x letter case on a missing key / a string with a deadline / a key of "
              "another type; GETRANGE/SETRANGE over all index pairs from {min64, -len-1..len+1, max64} for len 0..3 and offsets "
              "around the 512 MB limit; TYPE/EXISTS/KEYS/MGET/RENAME/DEL/SET over keys of every value type (string, list, hash, set, "
              "zset, stream) with and without a deadline, RENAME onto a missing key / itself / a key of each type; every command name with 0..5 arguments and unknown names; seeded random programs "
              "(1-40 commands, pool of 12 keys incl. case variants / empty / CR LF / NUL 0xff, keys pre-populated with the other "
              "types the model knows, numerals at the int64 edges, INCRBYFLOAT inside and outside the exact decimal domain, "
              "virtual-clock sleeps); bounded-exhaustive: ALL programs of length 2 and 3 over keys k/K x the command instances built "
              "from a 6-value argument alphabet (thorough adds seeded samples of length 4 and of a larger instance set)"),
        extra_tb=["INCRBYFLOAT: exact only on dyadic decimals with <= 15 significant digits (argument in coq/Mem/Strings.v); "
                  "outside that domain the model accepts the observed reply (counted as incrbyfloat_out_of_domain_steps_skipped)",
                  "coq/Mem/StringsSpec.v: the reference clauses, transcribed from the Redis command reference from memory"],
        post=post)
