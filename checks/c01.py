"""C01 — string and key commands behave as a sequential Redis keyspace.

Proof half: coq/Properties/C01.v (refinement of the reference clauses of coq/Mem/StringsSpec.v by
the model's exec, for all programs / byte strings / well-formed databases).
Tie: the programs below run on the real server.Manager (virtual clock) and on the extracted
model; every reply and every keyspace dump is compared (checks/memlib.py)."""
import re

from . import gen_str, memlib

PID = "C01"
_counts = {}


def make_cases(tier, seed):
    quick = tier == "quick"
    streams = [
        ("set_options", gen_str.set_option_cases()),
        ("indexes", gen_str.index_cases()),
        ("malformed", gen_str.malformed_cases(seed)),
        ("random", gen_str.random_programs(seed, 1500 if quick else 25000)),
        # bounded-exhaustive: ALL programs of length 2 and 3 over 2 keys x the command instances
        ("exhaustive_len2", list(gen_str.exhaustive_cases(2))),
        ("exhaustive_len3", list(gen_str.exhaustive_cases(3, sample=None, seed=seed))),
    ]
    if not quick:
        streams.append(("exhaustive_len3_large_sample",
                        list(gen_str.exhaustive_cases(3, sample=400000, seed=seed, large=True))))
        streams.append(("exhaustive_len4_sample", list(gen_str.exhaustive_cases(4, sample=300000, seed=seed))))
    cases = []
    for name, cs in streams:
        _counts[name] = len(cs)
        cases += cs
    _counts["command_instances"] = len(gen_str.command_instances())
    return cases


def post(ctx, d):
    """Count the INCRBYFLOAT steps the model could only accept (outside the exact decimal domain)."""
    cov = {"streams": dict(_counts), "other_types_prepopulated": gen_str.available_other_types()}
    ver = d / "main.verdict"
    if ver.exists():
        m = re.search(r"SUMMARY .*ood=(\d+)", ver.read_text())
        if m:
            cov["incrbyfloat_out_of_domain_steps_skipped"] = int(m.group(1))
    return None, cov


def run(ctx):
    return memlib.run_family(
        ctx, PID, make_cases,
        rule=("every SET option subset x argument shape x letter case on a missing key / a string with a deadline / a key of "
              "another type; GETRANGE/SETRANGE over all index pairs from {min64, -len-1..len+1, max64} for len 0..3 and offsets "
              "around the 512 MB limit; every command name with 0..5 arguments and unknown names; seeded random programs "
              "(1-40 commands, pool of 12 keys incl. case variants / empty / CR LF / NUL 0xff, keys pre-populated with the other "
              "types the model knows, numerals at the int64 edges, INCRBYFLOAT inside and outside the exact decimal domain, "
              "virtual-clock sleeps); bounded-exhaustive: ALL programs of length 2 and 3 over keys k/K x the command instances built "
              "from a 6-value argument alphabet (thorough adds seeded samples of length 4 and of a larger instance set)"),
        extra_tb=["INCRBYFLOAT: exact only on dyadic decimals with <= 15 significant digits (argument in coq/Mem/Strings.v); "
                  "outside that domain the model accepts the observed reply (counted as incrbyfloat_out_of_domain_steps_skipped)",
                  "coq/Mem/StringsSpec.v: the reference clauses, transcribed from the Redis command reference from memory"],
        post=post)
