"""Shared machinery of the RESP checks (C02 request decoding, C03 replies).

* builds: the extracted RESP models (build/resprun), the extracted command model + reply decoder
  (build/c03run) and the Go harness (build/harness_resp, from the working tree of REPO);
* a real server (harness_resp serve = server.Start with every command family registered, as
  main.go does) on a free port, killed on every exit path;
* TCP case files for `harness_resp tcp` and parsing of its output;
* a byte-level delta-debugging shrinker."""
import atexit
import os
import signal
import socket
import subprocess
import time

from . import lib

H = "harness_resp"
RESPRUN = "resprun"

RESP_TB = [
    "ml/resputil.ml + ml/resprun.ml (hex parsing, chunk splitting, printing of events/replies): trusted glue",
    "harness_resp/*.go (chunked io.Reader, TCP client, rendering of resp.RedisData): trusted glue; differential testing is as strong as its generators",
]


# The extracted functions recurse once per byte of a bulk payload: MiB-sized arguments need the
# stack, and a large minor heap (every minor collection scans that deep stack).
BIGSTACK = "ulimit -s unlimited 2>/dev/null || ulimit -s $(ulimit -Hs) 2>/dev/null; "
OCAMLENV = {"OCAMLRUNPARAM": "s=32M"}


def build(want_c03=False):
    ok, log = lib.ensure_runner(RESPRUN, "Extract/ExtractResp.v", ("resputil.ml", "resprun.ml"), ("respmodel",))
    if not ok:
        return "resprun build failed: " + log[-2500:]
    if want_c03:
        ok, log = lib.ensure_runner("c03run", "Extract/ExtractC03.v", ("util.ml", "memrun.ml", "c03run.ml"), ("model",))
        if not ok:
            return "c03run build failed: " + log[-2500:]
    ok, log = lib.ensure_harness(name=H, srcdir="harness_resp")
    if not ok:
        return "harness_resp build failed (does the repository still compile?): " + log[-2500:]
    return None


def hexs(b):
    return b.hex() if b else "-"


def unhex(h):
    return b"" if h in ("-", "") else bytes.fromhex(h)


# ----------------------------------------------------------------------------- server

_servers = []


def free_port():
    s = socket.socket(socket.AF_INET, socket.SOCK_STREAM)
    s.bind(("127.0.0.1", 0))
    p = s.getsockname()[1]
    s.close()
    return p


class Server:
    """The real server as a child process. Nothing of it survives the check: stop() is called
    from run(), from atexit, and the child exits by itself when our end of its stdin closes."""

    def __init__(self, scratch):
        self.scratch = scratch
        self.p = None
        self.port = None
        self.errlog = None
        self.starts = 0
        _servers.append(self)

    def start(self):
        self.stop()
        last = ""
        for attempt in range(8):
            self.port = free_port()
            logdir = self.scratch / ("srvlog%d" % self.starts)
            logdir.mkdir(exist_ok=True)
            self.errlog = self.scratch / ("server%d.err" % self.starts)
            self.starts += 1
            ef = open(self.errlog, "wb")
            self.p = subprocess.Popen([str(lib.BUILD / H), "serve", str(self.port), str(logdir)],
                                      stdin=subprocess.PIPE, stdout=subprocess.DEVNULL, stderr=ef,
                                      env=lib.env(), start_new_session=True)
            ef.close()
            t0 = time.time()
            while time.time() - t0 < 20:
                if self.p.poll() is not None:
                    break      # could not bind (port taken meanwhile): try another port
                try:
                    c = socket.create_connection(("127.0.0.1", self.port), timeout=2)
                    c.sendall(b"*1\r\n$4\r\nPING\r\n")
                    c.settimeout(10)
                    got = c.recv(100)
                    c.close()
                    if got.startswith(b"+PONG"):
                        # if the port was taken in the meantime our child failed to bind and is
                        # exiting: the PONG then came from somebody else's server
                        time.sleep(0.15)
                        if self.p.poll() is None:
                            return True
                        last = "port %d was taken by another process" % self.port
                        break
                    last = "unexpected greeting %r" % got
                    break      # something else answers on that port
                except OSError as ex:
                    last = str(ex)
                    time.sleep(0.05)
            self.stop()
        self.last_error = last
        return False

    def addr(self):
        return "127.0.0.1:%d" % self.port

    def alive(self):
        return self.p is not None and self.p.poll() is None

    def stderr_tail(self, n=1500):
        try:
            return self.errlog.read_text(errors="replace")[-n:]
        except Exception:
            return ""

    def stop(self):
        p, self.p = self.p, None
        if p is None:
            return
        try:
            if p.stdin:
                p.stdin.close()
        except Exception:
            pass
        for sig in (signal.SIGTERM, signal.SIGKILL):
            if p.poll() is not None:
                break
            try:
                os.killpg(p.pid, sig)
            except Exception:
                try:
                    p.send_signal(sig)
                except Exception:
                    pass
            try:
                p.wait(timeout=3)
            except Exception:
                pass


def _stop_all():
    for s in _servers:
        s.stop()


atexit.register(_stop_all)


# ----------------------------------------------------------------------------- tcp cases

class TcpCase:
    def __init__(self, cid, stream, sizes="one", mode="F", pause=0, probe=b"", meta=None):
        self.id, self.stream, self.sizes, self.mode, self.pause, self.probe = cid, stream, sizes, mode, pause, probe
        self.meta = meta or {}

    def line(self):
        sz = self.sizes if isinstance(self.sizes, str) else ",".join(str(x) for x in self.sizes)
        return "%s\t%s\t%s\t%s\t%d\t%s\n" % (self.id, hexs(self.stream), sz or "one", self.mode, self.pause, hexs(self.probe))


def run_tcp(server, d, cases, tag="tcp", workers=6, timeout=3000, selfclose_ms=20000):
    """Returns {id: dict(status, rx, witness, probe_rx)}, error-text-or-None."""
    inp, out = d / (tag + ".cases"), d / (tag + ".out")
    inp.write_text("".join(c.line() for c in cases))
    if out.exists():
        out.unlink()
    rc, log = lib.sh([str(lib.BUILD / H), "tcp", server.addr(), str(inp), str(out), str(workers), str(selfclose_ms)],
                     cwd=d, timeout=timeout)
    if rc != 0 or not out.exists():
        return {}, "harness_resp tcp rc=%s %s" % (rc, log[-800:])
    res = {}
    for l in out.read_text().splitlines():
        f = l.split("\t")
        if len(f) >= 5:
            res[f[0]] = dict(status=f[1], rx=unhex(f[2]), witness=f[3], probe_rx=unhex(f[4]))
    return res, None


def model_events(d, streams, tag="ev"):
    """streams: list of (id, bytes) -> {id: (events_text, executed(list of list of bytes), end)}"""
    inp, out = d / (tag + ".in"), d / (tag + ".model")
    inp.write_text("".join("%s\t%s\n" % (i, hexs(s)) for i, s in streams))
    rc, log = lib.sh(BIGSTACK + "exec %s events %s %s" % (lib.BUILD / RESPRUN, inp, out), cwd=d, timeout=1800, extra_env=OCAMLENV)
    if rc != 0:
        raise RuntimeError("resprun events failed: " + log[-800:])
    res = {}
    for l in out.read_text().splitlines():
        f = l.split("\t")
        res[f[0]] = (f[1], parse_executed(f[2]), f[3])
    return res


def digest(b):
    """how resprun / harness_resp render a byte string: hex, or #<len>:<FNV-1a 64> above 256 bytes"""
    if len(b) <= 256:
        return b.hex()
    h = 0xcbf29ce484222325
    for c in b:
        h = ((h ^ c) * 0x100000001b3) & 0xFFFFFFFFFFFFFFFF
    return "#%d:%016x" % (len(b), h)


def unhex_or_digest(a):
    return a.encode() if a.startswith("#") else unhex(a)      # a long argument stays an opaque token


def parse_executed(t):
    if t == "-":
        return []
    return [[unhex_or_digest(a) for a in c.split(",")] if c != "" else [] for c in t.split(";")]


def model_decode(d, items, tag="dec"):
    """items: list of (id, bytes written by the server) -> {id: (list of reply texts, leftover bytes)}"""
    inp, out = d / (tag + ".in"), d / (tag + ".out")
    inp.write_text("".join("%s\t%s\n" % (i, hexs(s)) for i, s in items))
    rc, log = lib.sh(BIGSTACK + "exec %s decode %s %s" % (lib.BUILD / RESPRUN, inp, out), cwd=d, timeout=1800, extra_env=OCAMLENV)
    if rc != 0:
        raise RuntimeError("resprun decode failed: " + log[-800:])
    res = {}
    for l in out.read_text().splitlines():
        f = l.split("\t")
        res[f[0]] = ([x for x in f[1].split(" ") if x], unhex(f[2]))
    return res


# ----------------------------------------------------------------------------- shrinking

def ddmin(data, bad, budget=120):
    """Shrink a byte string while bad(data) stays true: remove blocks of halving size, then
    replace single bytes by 'a' (keeps structure bytes only where they matter)."""
    n = 0
    chunk = max(1, len(data) // 2)
    while chunk >= 1 and n < budget:
        i = 0
        changed = False
        while i < len(data) and n < budget:
            cand = data[:i] + data[i + chunk:]
            n += 1
            if cand != data and bad(cand):
                data = cand
                changed = True
            else:
                i += chunk
        if chunk == 1 and not changed:
            break
        if not changed or chunk > 1:
            chunk //= 2
    return data
