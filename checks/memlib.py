"""Shared driver for the keyspace-command properties (C01, C04, C06, C09-C12, C18, C20).

Pipeline (DESIGN.md 2.3 D): generated command programs -> the real implementation, built from
REPO's working tree with -tags verif,faketime (virtual clock), one server.Manager per case ->
trace of (clock, command, canonical reply) lines and canonical keyspace dumps -> the extracted
Coq model (build/modelrun mem) replays every line and compares reply and dump.

The Coq theorems of the property are about that model (srv_exec / exec / the family files under
coq/Mem), so a disagreement between implementation and model on a concrete program is a
failing input for the property; it is shrunk and reported as the replay."""
import collections
import json
import os
import re

from . import gen, lib

FT = "harness_ft"


def build(ctx):
    ok1, log1 = lib.ensure_modelrun()
    ok2, log2 = lib.ensure_harness_ft(FT)
    if not ok1:
        return "modelrun build failed: " + log1[-2500:]
    if not ok2:
        return "harness build failed (does /repo still compile with -tags verif?): " + log2[-2500:]
    return None


def run_prog(d, progtext, tag="p", timeout=600, subcmd="memrun", extra="", chunk=0):
    """Run one program file through implementation and model. Returns (verdict_lines, trace_text, err).
    subcmd/extra: harness subcommand and trailing arguments (`<harness_ft> <subcmd> <prog> <out> <dir> <extra>`),
    e.g. subcmd="memx", extra="handle"; chunk > 0 runs the cases in harness processes of at most
    `chunk` cases each (one huge virtual-clock process slows down: pending timers keep every case's
    Manager alive).  A check selects its runner with run_family(..., runner=functools.partial(run_prog, ...))."""
    prog = d / (tag + ".prog")
    out = d / (tag + ".trace")
    ver = d / (tag + ".verdict")
    prog.write_text(progtext)
    for f in (out, ver):
        if f.exists():
            f.unlink()
    if chunk and chunk > 0:
        cases = split_cases(progtext)
        parts = ["".join("\n".join(c) + "\n" for c in cases[i:i + chunk]) for i in range(0, max(len(cases), 1), chunk)]
    else:
        parts = [progtext]
    traces = []
    for part in parts:
        cprog, cout = prog, out
        if len(parts) > 1:
            cprog, cout = d / (tag + ".chunk.prog"), d / (tag + ".chunk.trace")
            cprog.write_text(part)
            if cout.exists():
                cout.unlink()
        rc, log = lib.sh("%s %s %s %s %s %s" % (lib.BUILD / FT, subcmd, cprog, cout, d, extra), cwd=d, timeout=timeout,
                         extra_env={"GOMAXPROCS": "1"})
        traces.append(cout.read_text() if cout.exists() else "")
        if rc != 0 or not cout.exists():
            # the harness died (a fatal runtime error cannot be recovered) or hung: find the case
            prog_case = ""
            pf = cout.parent / (cout.name + ".progress")
            if pf.exists():
                prog_case = (pf.read_text().split("\n") or [""])[0].strip()
            return None, "".join(traces), "harness rc=%s case=%s log=%s" % (rc, prog_case, log[-1500:])
    if len(parts) > 1:
        out.write_text("".join(traces))
    rc, log = lib.sh("%s mem %s %s" % (lib.BUILD / "modelrun", out, ver), cwd=d, timeout=timeout)
    if rc != 0 or not ver.exists():
        return None, out.read_text(), "modelrun rc=%s log=%s" % (rc, log[-1500:])
    return ver.read_text().splitlines(), out.read_text(), None


def split_cases(progtext):
    cases, cur = [], []
    for l in progtext.splitlines():
        cur.append(l)
        if l.startswith("END"):
            cases.append(cur)
            cur = []
    return cases


def case_name(lines):
    return lines[0].split()[1]


def mismatching(verdict):
    res = {}
    for l in verdict or []:
        if l.startswith("MISMATCH "):
            fs = l.split(" ", 2)
            res[fs[1]] = fs[2] if len(fs) > 2 else ""
    return res


def shrink(d, lines, budget=250, run=None):
    """Delta-debug one case (list of lines CASE.., C.., DUMP, END): drop lines while the
    implementation still disagrees with the model."""
    run = run or run_prog

    def bad(ls):
        v, _, err = run(d, "\n".join(ls) + "\n", tag="shrink", timeout=60)
        if err:
            return True   # harness died on it: still a failing input
        return bool(mismatching(v))
    head, body, tail = lines[0], lines[1:-1], lines[-1]
    n = 0
    chunk = max(1, len(body) // 2)
    while n < budget:
        i = 0
        while i < len(body) and n < budget:
            cand = body[:i] + body[i + chunk:]
            n += 1
            if bad([head] + cand + [tail]):
                body = cand
            else:
                i += chunk
        if chunk == 1:
            break
        chunk //= 2
    return [head] + body + [tail]


def decode_case(lines):
    """Human-readable rendering of a case for the replay file."""
    out = []
    for l in lines:
        fs = l.split()
        if fs and fs[0] == "C":
            args = [bytes.fromhex(h) if h != "-" else b"" for h in fs[3:]]
            out.append("conn=%s sleep_ms=%s %s" % (fs[1], fs[2], " ".join(repr(a)[1:] for a in args)))
        else:
            out.append(l)
    return out


def stats(trace_text):
    cmds = collections.Counter()
    kinds = collections.Counter()
    shapes = set()
    steps = 0
    for l in trace_text.splitlines():
        if not l.startswith("S "):
            continue
        steps += 1
        left, _, obs = l.partition("|")
        fs = left.split()
        name = ""
        if len(fs) > 4 and fs[4] != "-":
            try:
                name = bytes.fromhex(fs[4]).decode("latin-1").lower()
            except ValueError:
                name = "?"
        cmds[name] += 1
        obs = obs.strip()
        k = obs[:2] if obs[:1] == "-" else obs[:1]
        if obs in ("$nil", "*nil") or obs.startswith("!"):
            k = obs
        kinds[k] += 1
        shapes.add((name, len(fs) - 4, k))
    return steps, cmds, kinds, shapes


def run_family(ctx, pid, make_cases, rule, extra_tb=None, assumptions=None, corpus_glob=None,
               extra_cov=None, post=None, runner=None, wire_every=0):
    """make_cases(tier, seed) -> list of gen.Case.  wire_every=n > 0: every n-th generated case is run
    with wire-shaped arguments (gen.Case.wire; memrun only) -- both argument shapes are legitimate inputs.  post(ctx, d) -> optional (broken, cov) hook
    for property-specific extra correspondence (run after the main differential run).
    runner: callable with run_prog's signature (default run_prog = harness subcommand memrun), e.g.
    functools.partial(run_prog, subcmd="memx", extra="handle", chunk=2000)."""
    run = runner or run_prog
    cov, broken = lib.proof_gate(ctx, extra_tb=(extra_tb or []) + [
        "modelled, not verified: Go maps/slices (as association lists / lists), strconv (re-stated in Base/GoInt.v), the goroutine timers of SetTTL (the model purges by deadline; tie = virtual-clock differential run)",
        "ml/memrun.ml (trace parsing, canonical printing of replies and dumps): trusted glue; memdb/verif_dump.go (hook H1, build tag verif): trusted to print the keyspace faithfully",
    ])
    berr = build(ctx)
    d = lib.scratch(pid.lower() + "-")
    if ctx.replay:
        r = json.load(open(ctx.replay))
        text = "\n".join(r.get("case_lines", [])) + "\n"
        v, trace, err = run(d, text, tag="replay")
        print(trace)
        print("\n".join(v or []), err or "")
        return 1 if (err or mismatching(v)) else 0
    failing = None
    nwire = 0
    nsteps, cmds, kinds, shapes, ncases = 0, collections.Counter(), collections.Counter(), set(), 0
    samples = []
    if not berr:
        texts = []
        cdir = lib.VERIF / "corpus"
        for f in sorted(cdir.glob(corpus_glob or (pid.lower() + "_*.prog"))):
            texts.append(("corpus:" + f.name, f.read_text()))
        cases = make_cases(ctx.tier, ctx.seed)
        if wire_every:
            for i, c in enumerate(cases):
                if i % wire_every == wire_every - 1 and hasattr(c, "wire"):
                    c.wire = True
            nwire = sum(1 for c in cases if getattr(c, "wire", False))
        texts.append(("generated", "".join(c.text() for c in cases)))
        for tag, text in texts:
            v, trace, err = run(d, text, tag="main", timeout=(300 if ctx.tier == "quick" else 2400))
            st = stats(trace)
            nsteps += st[0]
            cmds.update(st[1])
            kinds.update(st[2])
            shapes |= st[3]
            allc = split_cases(text)
            ncases += len(allc)
            if err and not failing:
                m = re.search(r"case=(\S+)", err)
                cl = [c for c in allc if m and case_name(c) == m.group(1)]
                failing = dict(kind="harness-died", detail=err, case=cl[0] if cl else None, source=tag)
            mm = mismatching(v)
            if mm and not failing:
                name = sorted(mm)[0]
                cl = [c for c in allc if case_name(c) == name][0]
                failing = dict(kind="impl-vs-model", detail=mm[name], case=cl, source=tag, n_mismatching=len(mm))
            if tag == "generated" and allc:
                samples = decode_case(allc[0])[:12]
    pcov, pbroken = {}, None
    if post and not berr:
        pbroken, pcov = post(ctx, d)
    rc = 0
    if failing:
        case = failing.get("case")
        if case:
            small = shrink(d, case, run=run)
            v, trace, err = run(d, "\n".join(small) + "\n", tag="final", timeout=120)
            failing.update(case_lines=small, readable=decode_case(small), trace=trace.splitlines()[-40:],
                           verdict=(v or [err])[:5])
            failing.pop("case")
        failing["note"] = ("the Coq model (coq/Mem) is what the property theorems are about; the implementation built from the "
                           "working tree disagrees with it on this program (reply or keyspace dump), or panicked")
        lib.violation(pid, failing)
        ctx.violations += 1
        rc = 1
    elif broken or berr or pbroken:
        lib.violation(pid, dict(kind="tie-broken", what=broken or berr or pbroken), found_input=False)
        ctx.violations += 1
        rc = 1
    for kf in lib.known_findings(pid):
        if kf["kind"] == "open":
            print("KNOWN-FINDING: property=%s %s %s" % (pid, kf["id"], kf["text"]))
    cov.update(dict(
        evaluations=nsteps, programs=ncases, distinct_nontrivial=len(shapes),
        rule=rule + " — distinct_nontrivial counts distinct (command name, arity, reply kind) triples observed on the implementation",
        commands={k: v for k, v in sorted(cmds.items())}, reply_kinds=dict(kinds),
        samples=samples or ["(none)"],
        correspondence="server.Manager.ExecCommand (REPO working tree, -tags verif,faketime) vs extracted srv_exec: every reply and every keyspace dump compared",
    ))
    if wire_every:
        cov["programs_with_wire_shaped_arguments"] = nwire
    cov.update(extra_cov or {})
    cov.update(pcov or {})
    lib.write_evidence(pid, ctx.tier, ctx.seed, cov,
                       (assumptions or []) + ["Go runtime, maps, strconv", "extraction + OCaml compiler",
                                              "reference semantics transcribed from the Redis command reference"],
                       ctx.wall(), ctx.violations)
    return rc
