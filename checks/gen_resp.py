"""Generators of the RESP checks (C02, C03). One PRNG per call, seeded from VERIF_SEED.

C02: TCP-level byte streams (valid pipelines with arbitrary argument bytes, mutations, marker
     streams  prefix ++ junk ++ suffix) and read/write chunkings.
C03: pipelined command programs.  The command mix is a *parameterised list of command
     families* (FAMILIES): each family is a function (r, ctx) -> list of commands; widening the
     check to another family (hashes, sets, sorted sets, streams) = adding one entry whose
     commands the extracted model (Mem/Exec.v `families`) knows."""
import random

# ----------------------------------------------------------------------------- encoding


def encode_cmd(args):
    s = b"*%d\r\n" % len(args)
    for a in args:
        s += b"$%d\r\n%s\r\n" % (len(a), a)
    return s


def encode_pipeline(cmds):
    return b"".join(encode_cmd(c) for c in cmds)


# payload alphabet: every generated payload pool contains all of these
MUST = [b"\r", b"\n", b"\r\n", b"+", b"-", b"$", b":", b"*", b"\x00", b"\xff", b""]
PIECES = MUST + [b"+OK\r\n", b"-ERR x\r\n", b"$3\r\nfoo\r\n", b"*1\r\n", b":1\r\n", b"$-1\r\n", b"a", b"b", b"hello",
                 b"10", b"-1", b" ", b"\x80", b"a\rb", b"a\nb", b"\r\n\r\n", b"*2\r\n$1\r\nx\r\n$1\r\ny\r\n"]


def payload(r, big=False):
    k = r.randrange(100)
    if k < 35:
        return r.choice(MUST)
    if k < 70:
        return b"".join(r.choice(PIECES) for _ in range(r.randrange(1, 5)))
    if k < 92:
        return bytes(r.randrange(256) for _ in range(r.randrange(1, 24)))
    if big and k < 96:
        n = r.choice([4090, 4094, 4095, 4096, 4097, 4100, 8190, 8193, 12000])
        return bytes(r.choice(b"\r\nab$*") for _ in range(n))
    return bytes(r.choice(b"\r\n$*1+-:") for _ in range(r.randrange(2, 40)))


# ----------------------------------------------------------------------------- chunkings

def sizes_from_cuts(n, cut):
    sizes, last = [], 0
    for i in range(n - 1):
        if cut(i):
            sizes.append(i + 1 - last)
            last = i + 1
    if n - last > 0:
        sizes.append(n - last)
    return sizes


def random_chunking(r, s):
    """Write/read sizes: whole, single bytes, random cuts of several densities, cuts placed inside
    CRLF pairs and inside decimal lengths."""
    n = len(s)
    if n <= 1:
        return [max(n, 1)]
    k = r.randrange(7)
    if k == 0:
        return [n]
    if k == 1 and n <= 400:
        return [1] * n
    if k == 2:
        return sizes_from_cuts(n, lambda i: r.random() < 0.5)
    if k == 3:
        return sizes_from_cuts(n, lambda i: r.random() < 0.125)
    if k == 4:
        def cut(i):
            if s[i] == 13 and s[i + 1] == 10:
                return r.random() < 0.75
            if s[i + 1] == 13:
                return r.random() < 0.5
            return r.random() < 0.02
        return sizes_from_cuts(n, cut)
    if k == 5:
        def cut(i):
            c, d = s[i], s[i + 1]
            if (c in b"$*" or 48 <= c <= 57) and 48 <= d <= 57:
                return r.random() < 0.66
            return r.random() < 0.025
        return sizes_from_cuts(n, cut)
    cuts = set(r.randrange(n - 1) for _ in range(r.randrange(1, 5)))
    return sizes_from_cuts(n, lambda i: i in cuts)


def all_chunkings(n):
    for m in range(1 << max(n - 1, 0)):
        yield sizes_from_cuts(n, lambda i: (m >> i) & 1 == 1)


# ----------------------------------------------------------------------------- C02 streams

LENGTH_SUBST = [b"-1", b"-2", b"0", b"1", b"9223372036854775807", b"9223372036854775808", b"-9223372036854775808",
                b"9223372036854775806", b"536870913", b"99999999999", b"4294967296", b"2147483648", b"+3", b"03",
                b"-0", b"", b" 3", b"3 ", b"1_0", b"0x1"]
JUNK_LINES = [b"\n", b"\r\n", b"x\n", b"+OK\r\n", b"-ERR x\r\n", b":12\r\n", b":x\r\n", b":\r\n", b"$-1\r\n", b"*-1\r\n",
              b"*0\r\n", b"$0\r\n\r\n", b"$\r\n", b"*\r\n", b"PING\r\n", b"\r", b"*1\r\n", b"$3\r\n", b"*2\r\n$1\r\nx\r\n",
              b"+\r\n", b"a\r\r\n", b"\n\n", b"$1\r\nab\r\n", b"$2\r\na\r\n", b"$-2\r\n", b"*-2\r\n", b"*x\r\n", b"$x\r\n",
              b"*1\r\n$9223372036854775807\r\n", b"*1\r\n$536870913\r\n", b"$1\r\na\n\n", b"*1\r\n:1\r\n", b"*1\r\n+a\r\n"]
SMALL = b"*$+-:019\r\na"
NASTY = b"\r\n\x00\xff$*+-:019a \x80Z"


def header_runs(s):
    runs = []
    for i in range(len(s)):
        if s[i] in b"$*" and (i == 0 or s[i - 1] == 10):
            j = i + 1
            while j < len(s) and 48 <= s[j] <= 57:
                j += 1
            if j > i + 1:
                runs.append((i + 1, j))
    return runs


def line_starts(s, with_end=False):
    return [i for i in range(len(s) + (1 if with_end else 0)) if i == 0 or s[i - 1] == 10]


def mutate(r, s):
    if not s:
        return b"\n"
    k = r.randrange(11)
    if k == 0:
        i = r.randrange(len(s))
        return s[:i] + bytes([r.choice(NASTY)]) + s[i + 1:]
    if k == 1:
        i = r.randrange(len(s))
        return s[:i] + bytes([r.randrange(256)]) + s[i + 1:]
    if k == 2:
        i = r.randrange(len(s))
        return s[:i] + s[i + 1:]
    if k == 3:
        i = r.randrange(len(s))
        return s[:i] + s[i:i + 1] * 2 + s[i + 1:]
    if k == 4:
        return s[:r.randrange(len(s))]
    if k in (5, 6, 7):
        runs = header_runs(s)
        if not runs:
            return s[:r.randrange(len(s))]
        lo, hi = r.choice(runs)
        if k == 7:
            return s[:lo] + r.choice(LENGTH_SUBST) + s[hi:]
        v = int(s[lo:hi]) + r.choice([1, -1])
        return s[:lo] + str(v).encode() + s[hi:]
    if k == 8:   # nested array header in front of some line
        i = r.choice(line_starts(s))
        return s[:i] + b"*%d\r\n" % r.randrange(4) + s[i:]
    if k == 9:
        i = r.choice(line_starts(s, True))
        return s[:i] + r.choice(JUNK_LINES) + s[i:]
    i = r.randrange(len(s) + 1)
    return s[:i] + r.choice(JUNK_LINES) + s[i:]


def big_alloc(s):
    """a bulk header between 1 MB and the 512 MB limit makes the server allocate that much:
    correct, but it would only slow the TCP runs down."""
    for lo, hi in header_runs(s):
        if s[lo - 1:lo] == b"$" and hi - lo <= 12:
            v = int(s[lo:hi])
            if (1 << 20) < v <= (1 << 29):
                return True
    return False


def tcp_cmd(r, pfx):
    """a command that never blocks and whose reply count is one"""
    key = pfx + r.choice([b"k", b"K", b"", b"\r\n", b"\x00\xff", b"a b"])
    k = r.randrange(12)
    if k == 0:
        return [r.choice([b"PING", b"ping", b"PiNg"])]
    if k == 1:
        return [b"PING", payload(r)]
    if k == 2:
        return [b"SET", key, payload(r, True)]
    if k == 3:
        return [b"GET", key]
    if k == 4:
        return [b"RPUSH", key] + [payload(r) for _ in range(r.randrange(1, 4))]
    if k == 5:
        return [b"LRANGE", key, b"0", b"-1"]
    if k == 6:
        return [r.choice([b"LLEN", b"STRLEN", b"EXISTS", b"DEL", b"TYPE"]), key]
    if k == 7:
        return [b"APPEND", key, payload(r)]
    # unknown command names with arbitrary bytes, any arity
    name = b"zz" + payload(r)
    return [name] + [payload(r) for _ in range(r.randrange(0, 4))]


def tcp_pipeline(r, pfx):
    n = r.randrange(1, 7) if r.random() < 0.9 else r.randrange(10, 40)
    return [tcp_cmd(r, pfx) for _ in range(n)]


def marker_stream(r, pfx):
    """RPUSH markers, then junk, then more RPUSH markers on the same key: which markers ended up in
    the list is read back on another connection."""
    key = pfx + b"log"
    pre = [[b"RPUSH", key, b"m%d" % i] for i in range(r.randrange(0, 4))]
    post = [[b"RPUSH", key, b"n%d" % i] for i in range(r.randrange(1, 4))]
    k = r.randrange(10)
    if k < 5:
        junk = r.choice(JUNK_LINES)
    elif k < 8:
        junk = bytes(r.choice(SMALL) for _ in range(r.randrange(1, 5)))
    else:
        junk = mutate(r, encode_cmd([b"RPUSH", key, b"j"]))
    return key, encode_pipeline(pre) + junk + encode_pipeline(post)


# ----------------------------------------------------------------------------- C02 length boundaries

def boundary_lengths(tier):
    """argument lengths at which a reader that works in pieces can go wrong: around every power of
    two from 2^9 to 2^20 (thorough 2^21), around the multiples of bufio's 4096-byte buffer, around the
    multiples of 2^15 / 2^16"""
    L = set()
    top = 20 if tier == "quick" else 21
    for k in range(9, top + 1):
        for o in ((-2, -1, 0, 1, 2) if k <= 17 or tier != "quick" else (-1, 0, 1)):
            L.add(2 ** k + o)
    for m in range(1, 10):
        for o in (-2, -1, 0, 1, 2):
            L.add(4096 * m + o)
    for m in range(1, 9 if tier == "quick" else 17):
        for o in (-2, -1, 0, 1, 2):
            L.add(32768 * m + o)
    return sorted(L)


ENDINGS = [b"\r\n", b"\r", b"\n", b"z"]


def boundary_payload(r, n, ending):
    """n bytes, full of CRLF pairs and header-looking fragments, ending in `ending`"""
    unit = bytes(r.randrange(256) for _ in range(61)) + b"\r\n$3\r\nab\r\n*1\r\n"
    b = (unit * (n // len(unit) + 1))[:n]
    if len(ending) <= n:
        b = b[:n - len(ending)] + ending
    return b


def boundary_case(r, i, n, ending):
    """(stream, chunk spec): <small command> SET k <n bytes> PING x, read whole, in 4096 / 32768 /
    odd-sized pieces, and with cuts placed in the bulk header, at the first payload byte, one
    byte before the end of the payload, before CR, between CR and LF and after LF"""
    key = b"b%d:k" % i
    head = encode_cmd([b"PING", b"a"]) if i % 3 == 0 else b""
    val = boundary_payload(r, n, ending)
    pre = head + b"*3\r\n$3\r\nSET\r\n$%d\r\n%s\r\n" % (len(key), key)
    hdr = b"$%d\r\n" % n
    tail = encode_cmd([b"PING", b"x\r\n"])
    s = pre + hdr + val + b"\r\n" + tail
    p0 = len(pre) + len(hdr)          # first payload byte
    p1 = p0 + n                       # the CR of the terminator
    cuts = sorted(set(c for c in (len(pre) + 1, p0 - 1, p0, p0 + 1, p1 - 1, p1, p1 + 1, p1 + 2, p1 + 3) if 0 < c < len(s)))
    sizes, last = [], 0
    for c in cuts:
        sizes.append(c - last)
        last = c
    sizes.append(len(s) - last)
    odd = r.choice([1000, 4095, 4097, 8191, 32767, 32769, 50000, 65537])
    spec = "x:one|f4096|f32768|f%d|c%s" % (odd, ",".join(map(str, sizes)))
    return s, spec, key, val


def boundary_cases(r, tier):
    out = []
    for i, n in enumerate(boundary_lengths(tier)):
        special = (n % 32768 in (0, 32767)) or (n & (n - 1)) == 0 or ((n + 1) & n) == 0
        ends = [b"\r\n", b"z"] if special else [ENDINGS[i % 4]]
        for j, e in enumerate(ends):
            s, spec, key, val = boundary_case(r, 10 * i + j, n, e)
            out.append(("b%d_%d%s" % (n, j, ""), s, spec, key, val))
    return out


# ----------------------------------------------------------------------------- C02 header numbers

def header_number_streams():
    """'*' and '$' headers whose number is legal only modulo 2^64 (k*2^64 + s, followed by what
    would be well-formed for s, so that a decoder that wraps executes it), the edges of the
    unsigned / signed 64-bit ranges, powers of ten with leading zeros, 30-40 digit numbers."""
    W = 2 ** 64
    out = []
    ping = b"$4\r\nPING\r\n"
    tail = encode_cmd([b"PING", b"after"])
    bodies = {0: b"", 1: b"x", 2: b"ok", 4: b"PING", 16: b"0123456789abcdef"}
    for k in (1, 2, 3, 10):
        for sgn in (b"", b"+"):
            for n, body in bodies.items():
                num = sgn + str(k * W + n).encode()
                # bulk header: *1 $<num> <n bytes>
                out.append(b"*1\r\n$" + num + b"\r\n" + body + b"\r\n" + tail)
                # bulk header inside a longer command
                out.append(b"*2\r\n$4\r\nPING\r\n$" + num + b"\r\n" + body + b"\r\n" + tail)
                # array header: *<num> followed by n bulk strings
                out.append(b"*" + num + b"\r\n" + b"".join([ping] + [b"$1\r\na\r\n"] * (n - 1) if n else []) + tail)
            out.append(b"*1\r\n$" + sgn + str(k * W - 1).encode() + b"\r\n" + tail)       # wraps to -1: the nil bulk
            out.append(b"*" + sgn + str(k * W - 1).encode() + b"\r\n" + tail)
    edge = [W - 1, W, W + 1, 2 ** 63 - 1, 2 ** 63, 2 ** 63 + 1, 2 ** 63 + 4, W + 2 ** 63, W + 512 * 1024 * 1024, W + 512 * 1024 * 1024 + 1]
    edge += [10 ** e for e in range(19, 26)] + [10 ** e + 4 for e in (19, 20, 25)]
    edge += [int("1" + "0" * 29), int("9" * 30), int("1" + "0" * 39) + 4, int("184467440737095516160000000004"), 7 * 2 ** 128 + 4, 2 ** 128 + 1]
    for z in edge:
        for num in (str(z).encode(), b"000" + str(z).encode(), b"-" + str(z).encode()):
            out.append(b"*1\r\n$" + num + b"\r\nPING\r\n" + tail)
            out.append(b"*" + num + b"\r\n" + ping + tail)
    return out


# ----------------------------------------------------------------------------- C03 programs

class Ctx:
    """what a family generator may draw from: this case's keys and payload pool"""

    def __init__(self, r, pfx):
        self.pfx = pfx
        self.keys = [pfx + k for k in r.sample([b"k", b"K", b"", b"x\r\ny", b"\x00\xff", b"a b", b"+OK", b"$5", b"-e", b":1", b"*2"],
                                                 r.randrange(2, 6))]
        pool = list(MUST) + [payload(r) for _ in range(6)] + [b"10", b"-3", b"9223372036854775807", b"abc"]
        r.shuffle(pool)
        self.vals = pool

    def key(self, r):
        return r.choice(self.keys)

    def val(self, r):
        return r.choice(self.vals)


IDX = [b"0", b"1", b"2", b"3", b"5", b"-1", b"-2", b"-3", b"-100", b"100", b"9223372036854775807", b"-9223372036854775808", b"x", b""]
INTS = [b"0", b"1", b"-1", b"5", b"-5", b"100", b"9223372036854775807", b"-9223372036854775808", b"abc", b"", b"1.5", b"\r\n"]


def randcase(r, b):
    return bytes(c ^ 0x20 if chr(c).isalpha() and r.random() < 0.4 else c for c in b)


def fam_strings(r, c):
    """string and key commands; nothing that sets a deadline (the TCP runs use the real clock)"""
    k, v = (lambda: c.key(r)), (lambda: c.val(r))
    x = r.randrange(100)
    if x < 16:
        opts = [randcase(r, o) for o in r.sample([b"NX", b"XX", b"GET", b"KEEPTTL", b"bogus\r\n"], r.choice([0, 0, 0, 1, 1, 2]))]
        return [[randcase(r, b"set"), k(), v()] + opts]
    if x < 28:
        return [[b"get", k()]]
    if x < 33:
        a = [b"mset"]
        for _ in range(r.randrange(1, 4)):
            a += [k(), v()]
        return [a + ([k()] if r.random() < 0.1 else [])]
    if x < 39:
        return [[b"mget"] + [k() for _ in range(r.randrange(1, 4))]]
    if x < 42:
        return [[b"setnx", k(), v()]]
    if x < 48:
        return [[b"append", k(), v()]]
    if x < 51:
        return [[b"strlen", k()]]
    if x < 58:
        return [[b"getrange", k(), r.choice(IDX), r.choice(IDX)]]
    if x < 63:
        return [[b"setrange", k(), r.choice([b"0", b"1", b"2", b"5", b"20", b"-1", b"x", b"300", b"536870913"]), v()]]
    if x < 67:
        return [[r.choice([b"incr", b"decr", b"INCR"]), k()]]
    if x < 71:
        return [[r.choice([b"incrby", b"decrby"]), k(), r.choice(INTS)]]
    if x < 75:
        return [[b"del"] + [k() for _ in range(r.randrange(1, 4))]]
    if x < 79:
        return [[b"exists"] + [k() for _ in range(r.randrange(1, 4))]]
    if x < 82:
        return [[b"type", k()]]
    if x < 86:
        return [[b"rename", k(), k()]]
    if x < 91:
        return [[b"keys", c.pfx + r.choice([b"*", b"?", b"[kK]", b"x\r\n*", b"*\xff", b"[", b"\\k", b"**"])]]
    if x < 95:
        return [[randcase(r, b"ping")] + ([v()] if r.random() < 0.6 else [])]
    if x < 98:
        return [[r.choice([b"ttl", b"persist"]), k()]]
    return [[b"select", r.choice([b"0", b"0", b"x\r\n", b"99", b""])]]


def fam_lists(r, c):
    k, e = (lambda: c.key(r)), (lambda: c.val(r))
    x = r.randrange(100)
    if x < 18:
        return [[randcase(r, r.choice([b"lpush", b"rpush"])), k()] + [e() for _ in range(r.randrange(1, 5))]]
    if x < 22:
        return [[r.choice([b"lpushx", b"rpushx"]), k(), e()]]
    if x < 32:
        return [[r.choice([b"lpop", b"rpop"]), k()] + ([r.choice([b"0", b"1", b"2", b"5", b"-1", b"x"])] if r.random() < 0.5 else [])]
    if x < 36:
        return [[b"llen", k()]]
    if x < 44:
        return [[b"lindex", k(), r.choice(IDX)]]
    if x < 58:
        return [[b"lrange", k(), r.choice(IDX), r.choice(IDX)]]
    if x < 63:
        return [[b"lset", k(), r.choice(IDX), e()]]
    if x < 69:
        return [[b"lrem", k(), r.choice([b"0", b"1", b"-1", b"2", b"x"]), e()]]
    if x < 74:
        return [[b"ltrim", k(), r.choice(IDX), r.choice(IDX)]]
    if x < 82:
        a = [b"lpos", k(), e()]
        for _ in range(r.choice([0, 1, 1, 2])):
            a.append(randcase(r, r.choice([b"rank", b"count", b"maxlen", b"bogus"])))
            if r.random() < 0.95:
                a.append(r.choice([b"0", b"1", b"2", b"-1", b"-2", b"10", b"x"]))
        return [a]
    if x < 97:
        return [[b"lmove", k(), k(), randcase(r, r.choice([b"left", b"right", b"up\r\n"])), randcase(r, r.choice([b"left", b"right"]))]]
    # BLPOP/BRPOP only right after a push on its first key: the reply carries the key name, and
    # the command returns at its first poll (100 ms of real time, hence rare); a wrong-typed key
    # answers WRONGTYPE at the first poll as well.  The timeout is long on purpose: on a loaded
    # machine a 1 s timer could be ready together with the first tick and Go's select may take it.
    key = k()
    return [[b"rpush", key, e(), e()], [r.choice([b"blpop", b"brpop"]), key] + ([k()] if r.random() < 0.3 else []) + [b"20"]]


KNOWN = [b"set", b"get", b"del", b"keys", b"mset", b"mget", b"getrange", b"setrange", b"incrby", b"rename", b"append", b"type",
         b"exists", b"strlen", b"setnx", b"ping", b"incr", b"decr", b"decrby", b"ttl", b"persist", b"select",
         b"lpush", b"rpush", b"lpop", b"rpop", b"llen", b"lindex", b"lrange", b"lset", b"lrem", b"ltrim", b"lpos", b"lmove",
         b"lpushx", b"rpushx"]


def fam_protocol(r, c):
    """unknown commands, CR/LF inside the command name, every wrong arity, the empty command"""
    x = r.randrange(10)
    if x < 3:
        name = r.choice([b"nosuch", b"x\r\n+OK", b"\r\n", b"GET\r\n", b"zz\n:1\r", b"\xff\x00", b"", b"-ERR", b"$3", b"*1\r\n$4\r\nPING"])
        return [[name] + [c.val(r) for _ in range(r.randrange(0, 4))]]
    if x < 4:
        return [[]]
    # every argument stays inside this program's key namespace: any position may be a key
    name = randcase(r, r.choice(KNOWN))
    return [[name] + [r.choice([c.key(r), c.pfx + c.val(r)]) for _ in range(r.randrange(0, 6))]]


# ----------------------------------------------------------------------------- the other families
# The hash / set / sorted-set / stream generators of their own checks (gen_hash, gen_set, gen_zset,
# gen_stream) are reused.  What the TCP setting adds:
#  * the real clock: nothing that sets a deadline, no stream id taken from the clock (`*`);
#  * one long-lived server shared by all programs: every key position is forced into the
#    program's namespace (the wrong-arity branches of those generators draw keys from anywhere),
#    KEYS only with a namespaced pattern.
from . import gen_hash, gen_set, gen_stream, gen_zset  # noqa: E402

TTL_NAMES = {b"expire", b"setex", b"pexpire", b"expireat"}
MULTI_KEY = {b"sunion", b"sinter", b"sdiff", b"sunionstore", b"sinterstore", b"sdiffstore", b"smove", b"rename", b"del",
             b"exists", b"mget", b"mset", b"lmove", b"blpop", b"brpop"}


def namespaced(cmd, pfx):
    """None when the command cannot be used over TCP; otherwise the command with its key
    positions inside the namespace."""
    if not cmd:
        return cmd
    name = cmd[0].lower()
    if name in TTL_NAMES or name in (b"blpop", b"brpop"):
        return None
    if name == b"set" and any(a.lower() in (b"ex", b"px", b"exat", b"pxat") for a in cmd[3:]):
        return None
    if name == b"xadd" and any(a == b"*" for a in cmd[2:]):
        return None            # the id would come from the server's clock
    if name == b"keys":
        return [cmd[0], pfx + b"*"] + cmd[2:]
    out = list(cmd)
    rng = range(1, len(out)) if name in MULTI_KEY else range(1, min(2, len(out)))
    for i in rng:
        if not out[i].startswith(pfx):
            out[i] = pfx + out[i]
    return out


def _draw(c, r, gen):
    for _ in range(50):
        cmd = namespaced(gen(), c.pfx)
        if cmd is not None:
            return [cmd]
    return [[b"ping"]]


def fam_hashes(r, c):
    st = c.__dict__.setdefault("hash_nfields", {})
    return _draw(c, r, lambda: gen_hash.hash_cmd(r, c.keys, st))


def fam_sets(r, c):
    if "set_st" not in c.__dict__:
        c.set_st = gen_set.St(c.keys, r.sample(gen_set.MEMBERS, r.randrange(3, 9)))
    return _draw(c, r, lambda: gen_set.set_cmd(r, c.set_st))


def fam_zsets(r, c):
    if "zmode" not in c.__dict__:
        c.zmode, c.zbig = r.choice(["dyadic", "dyadic", "decimal"]), r.random() < 0.4
    return _draw(c, r, lambda: gen_zset.zset_cmd(r, c.keys, c.zmode, c.zbig))


def fam_streams(r, c):
    if "xtr" not in c.__dict__:
        c.xtr = gen_stream.Tracker(gen_stream.T0)
        c.xtr.good = r.choice([0.2, 0.5, 0.8])
    tr = c.xtr

    def g():
        q = r.randrange(100)
        if q < 50:
            return gen_stream.xadd(r, tr, c.keys)
        if q < 80:
            return gen_stream.xrange_(r, tr, c.keys)
        if q < 92:
            return gen_stream.other_cmd(r, tr, c.keys)
        return gen_stream.malformed(r, tr, c.keys)
    return _draw(c, r, g)


# name -> (weight, generator): the command families of Mem/Exec.v `families` (+ protocol errors).
FAMILIES = {
    "strings": (4, fam_strings),
    "lists": (4, fam_lists),
    "hashes": (3, fam_hashes),
    "sets": (3, fam_sets),
    "zsets": (3, fam_zsets),
    "streams": (3, fam_streams),
    "protocol": (2, fam_protocol),
}


def alias_programs(seed, tier):
    """ALIASING family (generator of the cluster check, checks/gen_cluster.py alias_seq): a command
    that stores several of its arguments (MSET, RPUSH, SADD, HSET, ZADD, XADD, SET...), then a command
    that grows or rewrites an EARLIER stored item in place (APPEND, SETRANGE, INCR*, LSET, HSET...),
    then reads of every key.  If the arguments handed to the executors shared a backing buffer, the
    grown item would run over its neighbours.  Each program has its own key tag."""
    from . import gen_cluster
    r = random.Random(seed * 982451653 + 29)
    progs, i = [], 0
    for st in gen_cluster.STORES:
        for mu in gen_cluster.MUTS:
            shapes = ((3, 6), (1, 24)) if tier != "quick" else (((3, 6), (1, 24))[(i // 2) % 2],)
            for short, grow in shapes:
                progs.append(Program("alias%d" % i, gen_cluster.alias_seq(r, b"al%d" % i, st, mu, short, grow), ["aliasing"]))
                i += 1
    w = b"al%dw" % i
    progs.append(Program("alias_witness", [[b"MSET", w + b":1", b"ann", w + b":2", b"bob", w + b":3", b"joe"], [b"APPEND", w + b":1", b"-jones"],
                                           [b"GET", w + b":2"], [b"GET", w + b":3"], [b"MGET", w + b":1", w + b":2", w + b":3"]], ["aliasing"]))
    for j in range(30 if tier == "quick" else 300):
        cmds = []
        for t in range(r.randrange(1, 4)):
            cmds += gen_cluster.alias_seq(r, b"ar%d_%d" % (j, t))
        progs.append(Program("aliasr%d" % j, cmds, ["aliasing"]))
    return progs


class Program:
    def __init__(self, name, cmds, families=()):
        self.name, self.cmds, self.families = name, cmds, list(families)

    def stream(self):
        return encode_pipeline(self.cmds)


def gen_programs(seed, n, families=None, maxlen=24):
    fams = families or FAMILIES
    names = sorted(fams)
    weights = [fams[f][0] for f in names]
    r = random.Random(seed * 7919 + 3)
    progs = []
    for i in range(n):
        c = Ctx(r, b"c%d:" % i)
        cmds = []
        ln = r.randrange(1, maxlen + 1)
        if r.random() < 0.5:      # one of the keys already holds a string / a list
            cmds.append([b"set", c.keys[0], c.val(r)])
        if r.random() < 0.5:
            cmds.append([b"rpush", c.keys[-1]] + [c.val(r) for _ in range(r.randrange(1, 5))])
        # a program concentrates on two or three families so that keys of one type build up state
        mine = r.sample(names, min(len(names), r.randrange(2, 4)))
        w = [fams[f][0] for f in mine]
        while len(cmds) < ln:
            f = r.choices(mine, w)[0]
            cmds.extend(fams[f][1](r, c))
        progs.append(Program("p%d" % i, cmds, mine))
    return progs
