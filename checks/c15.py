"""C15 — Raft core: election safety, log matching, commitment (DESIGN.md section 3, C15).

Three parts:
  proofs   coq/Properties/C15.v (quorum layer + protocol-level safety of the model in coq/Raft)
  (D)      quorum.MajorityConfig/JointConfig.CommittedIndex/VoteResult of VERIF_REPO against the
           extracted Gallina functions: exhaustive small scope + seeded random
  (V)      trace validation: real raft.RawNode clusters under an adversarial seeded scheduler;
           every observed step is checked by the extracted Coq checker (see c15_sim below)
"""
import json

from . import lib

PID = "C15"
HARNESS = "harness_raft"
RUNNER = "raftrun"


def build():
    ok1, log1 = lib.ensure_runner(RUNNER, "Extract/ExtractRaft.v", ("raftrun.ml",), ("raftmodel",))
    ok2, log2 = lib.ensure_harness(HARNESS, srcdir="harness_raft")
    if not ok1:
        return "raftrun build failed: " + log1[-2000:]
    if not ok2:
        return "harness_raft build failed (etcd/raft of VERIF_REPO does not compile?): " + log2[-2000:]
    return None


# ------------------------------------------------------------------------------ (D) quorum

def q_parse(line):
    t = [int(x) for x in line.split()[1:]]
    p = 0
    n0 = t[p]; p += 1
    c0 = t[p:p + n0]; p += n0
    n1 = t[p]; p += 1
    c1 = t[p:p + n1]; p += n1
    na = t[p]; p += 1
    acks = [(t[p + 2 * i], t[p + 2 * i + 1]) for i in range(na)]; p += 2 * na
    nv = t[p]; p += 1
    votes = [(t[p + 2 * i], t[p + 2 * i + 1]) for i in range(nv)]
    return dict(c0=c0, c1=c1, acks=acks, votes=votes)


def q_line(c):
    out = ["K", str(len(c["c0"]))] + [str(x) for x in c["c0"]] + [str(len(c["c1"]))] + [str(x) for x in c["c1"]]
    out.append(str(len(c["acks"])))
    for i, v in c["acks"]:
        out += [str(i), str(v)]
    out.append(str(len(c["votes"])))
    for i, v in c["votes"]:
        out += [str(i), str(v)]
    return " ".join(out)


def q_eval(d, cases):
    """Run implementation and model on a list of case dicts; returns list of (impl, model)."""
    (d / "s_cases.txt").write_text("".join(q_line(c) + "\n" for c in cases))
    rc1, o1 = lib.sh("%s quorumfile s_cases.txt s_impl.txt" % (lib.BUILD / HARNESS), cwd=d, timeout=120)
    rc2, o2 = lib.sh("%s quorum s_cases.txt s_model.txt" % (lib.BUILD / RUNNER), cwd=d, timeout=120)
    if rc1 != 0 or rc2 != 0:
        return None
    a = (d / "s_impl.txt").read_text().splitlines()
    b = (d / "s_model.txt").read_text().splitlines()
    if len(a) != len(cases) or len(b) != len(cases):
        return None
    return list(zip(a, b))


def q_shrink(d, case):
    """Greedy: drop one element of c0/c1/acks/votes, lower an acked index, while impl != model."""
    def differs(c):
        r = q_eval(d, [c])
        return r is not None and r[0][0] != r[0][1]
    cur = case
    for _ in range(200):
        cands = []
        for k in ("c0", "c1", "acks", "votes"):
            for i in range(len(cur[k])):
                c = dict(cur)
                c[k] = cur[k][:i] + cur[k][i + 1:]
                cands.append(c)
        for i, (idn, v) in enumerate(cur["acks"]):
            for nv in sorted(set([0, v // 2, v - 1])):
                if 0 <= nv < v:
                    c = dict(cur)
                    c["acks"] = cur["acks"][:i] + [(idn, nv)] + cur["acks"][i + 1:]
                    cands.append(c)
        res = q_eval(d, cands) if cands else None
        if not res:
            break
        nxt = None
        for c, (a, b) in zip(cands, res):
            if a != b:
                nxt = c
                break
        if nxt is None:
            break
        cur = nxt
    return cur if differs(cur) else case


def q_explain(case, impl, model):
    f = ["MajorityConfig(c0).CommittedIndex", "MajorityConfig(c0).VoteResult",
         "JointConfig{c0,c1}.CommittedIndex", "JointConfig{c0,c1}.VoteResult"]
    a, b = impl.split(), model.split()
    which = [dict(function=f[i], impl=a[i], model=b[i]) for i in range(min(len(a), len(b), 4)) if a[i] != b[i]]
    return dict(kind="impl-vs-model quorum", theorem="C15_committed_index_spec / C15_vote_result_spec (the model value is the specified one)",
                case=dict(c0=case["c0"], c1=case["c1"], acked={str(i): v for i, v in case["acks"]},
                          votes={str(i): bool(v) for i, v in case["votes"]}),
                case_line=q_line(case), differing=which,
                note="impl = go.etcd.io/etcd/raft/v3/quorum built from VERIF_REPO; model = extracted Gallina (Raft/Quorum.v); 'inf' = math.MaxUint64; P/L/W = VotePending/Lost/Won")


def quorum_part(ctx, d):
    """Returns (stats, violation-dict-or-None, broken-or-None)."""
    if ctx.tier == "quick":
        maxm, maxj, maxack, nrand = 5, 3, 3, 20000
    else:
        maxm, maxj, maxack, nrand = 6, 4, 3, 400000
    q = d / "quorum"
    q.mkdir()
    rc, out = lib.sh("%s quorum . %d %d %d %d %d" % (lib.BUILD / HARNESS, ctx.seed, maxm, maxj, maxack, nrand), cwd=q, timeout=1500)
    if rc != 0:
        return {}, None, "harness_raft quorum failed: " + out[-2000:]
    rc, out = lib.sh("%s quorum qcases.txt qmodel.txt" % (lib.BUILD / RUNNER), cwd=q, timeout=3000)
    if rc != 0:
        return {}, None, "raftrun quorum failed: " + out[-2000:]
    cases = (q / "qcases.txt").read_text().splitlines()
    impl = (q / "qimpl.txt").read_text().splitlines()
    model = (q / "qmodel.txt").read_text().splitlines()
    if not (len(cases) == len(impl) == len(model)):
        return {}, None, "quorum: line counts differ cases=%d impl=%d model=%d" % (len(cases), len(impl), len(model))
    viol = None
    distinct = set()
    for c, a, b in zip(cases, impl, model):
        if a != b and viol is None:
            case = q_shrink(q, q_parse(c))
            r = q_eval(q, [case])
            viol = q_explain(case, r[0][0], r[0][1])
        # non-trivial: a non-empty first config and an answer that is neither the empty-config
        # constant nor the nothing-reported constant
        if not c.startswith("K 0 ") and a not in ("0 P 0 P", "inf W inf W"):
            distinct.add(c)
    stats = dict(quorum_cases=len(cases), quorum_distinct_nontrivial=len(distinct),
                 quorum_scope="majority: all subsets of %d ids x acks in {absent,0..3}^%d and votes in {absent,no,yes}^%d; joint: all pairs of subsets of %d ids x acks in {absent,0..%d} / votes; %d seeded random cases with up to 9 voters per half out of 12 ids, indexes up to 2000"
                 % (maxm, maxm, maxm, maxj, maxack, nrand),
                 quorum_samples=[cases[len(cases) // 3] + " => " + impl[len(cases) // 3], cases[-1] + " => " + impl[-1]])
    return stats, viol, None


def replay_quorum(ctx, r, d):
    case = q_parse(r["case_line"])
    res = q_eval(d, [case])
    if res is None:
        print("replay: could not run")
        return 1
    print("case :", r["case_line"])
    print("impl :", res[0][0])
    print("model:", res[0][1], "(= specified value by C15_committed_index_spec / C15_vote_result_spec)")
    return 0 if res[0][0] == res[0][1] else 1


# ------------------------------------------------------------------------------ (V) trace validation

def sim_eval(d, sched_lines, tag="shr", mode="trace"):
    """Execute an explicit schedule (N line + EV lines) on the real RawNodes and validate the
    resulting trace (mode trace: against the model; mode monitor: safety predicates on the
    observed states only).  Returns (verdict line or None, trace text)."""
    (d / (tag + "_sched.txt")).write_text("\n".join(sched_lines) + "\n")
    rc1, o1 = lib.sh("%s simfile %s_sched.txt %s_trace.txt" % (lib.BUILD / HARNESS, tag, tag), cwd=d, timeout=120)
    if rc1 != 0:
        return None, "simfile failed: " + o1[-1500:]
    rc2, o2 = lib.sh("%s %s %s_trace.txt %s_verdict.txt" % (lib.BUILD / RUNNER, mode, tag, tag), cwd=d, timeout=300)
    if rc2 != 0:
        return None, "raftrun trace failed: " + o2[-1500:]
    v = (d / (tag + "_verdict.txt")).read_text().splitlines()
    return (v[0] if v else None), (d / (tag + "_trace.txt")).read_text()


def fail_event(verdict):
    for tok in verdict.split():
        if tok.startswith("event="):
            return int(tok[6:])
    return None


def fail_reason(verdict):
    for tok in verdict.split():
        if tok.startswith("reason="):
            return tok[7:]
    return "?"


def sim_shrink(d, header, evs, budget=2500, mode="trace"):
    """ddmin over the EV lines: keep any sub-schedule on which validation still fails."""
    bad = " UNSAFE " if mode == "monitor" else " FAIL "

    def failing(cand):
        v, _ = sim_eval(d, [header] + cand, mode=mode)
        return v is not None and bad in v, v
    ok, v = failing(evs)
    if not ok:
        return evs, v
    # cut everything after the failing event
    fe = fail_event(v)
    cur = evs
    used = 1
    chunk = max(1, len(cur) // 2)
    while chunk >= 1 and used < budget:
        i = 0
        progressed = False
        while i < len(cur) and used < budget:
            cand = cur[:i] + cur[i + chunk:]
            used += 1
            okc, vc = failing(cand)
            if okc:
                cur, v, progressed = cand, vc, True
            else:
                i += chunk
        if chunk == 1 and not progressed:
            break
        chunk = chunk // 2 if chunk > 1 else (1 if progressed else 0)
    return cur, v


def schedule_of(trace_path, k):
    """header and EV lines of schedule k in a traces file."""
    header, evs, on = None, [], False
    with open(trace_path) as f:
        for line in f:
            if line.startswith("SCHEDULE "):
                on = line.split()[1] == str(k)
                continue
            if not on:
                continue
            if line.startswith("END"):
                break
            if line.startswith("N "):
                header = line.strip()
            elif line.startswith("EV "):
                evs.append(line.strip())
    return header, evs


NOTE = ("events: C campaign, P propose, T tick, R restart, K compact, SR snapshot-failure report, D/DD deliver (dup), "
        "FP forwarded proposal, X* = crash before persisting; messages/states are in the model's numbering "
        "(index = real index - 1); replay with ./check C15 --replay <this file>")


def deviation(ctx, d, b, k, line):
    """Trace validation failed on schedule k of chunk b: the implementation took a step the model
    does not allow.  Look for an actual violation of the property (safety predicates on the
    observed states: this chunk first, then fresh schedules); report it if found, else report the
    deviation as a broken tie."""
    def unsafe_in(dirpath):
        rc, out = lib.sh("%s monitor traces.txt monitor.txt" % (lib.BUILD / RUNNER), cwd=dirpath, timeout=6000)
        if rc != 0:
            return None
        for l in (dirpath / "monitor.txt").read_text().splitlines():
            t = l.split()
            if len(t) >= 3 and t[2] == "UNSAFE":
                return t[1], l
        return None
    found = unsafe_in(b)
    where = b
    extra = 3 if ctx.tier == "quick" else 20
    j = 0
    while found is None and j < extra:
        e = d / ("search%d" % j)
        e.mkdir(exist_ok=True)
        rc, out = lib.sh("%s sim . %d %d %d %d" % (lib.BUILD / HARNESS, ctx.seed, 5000000 + 2000 * j, 2000, 400), cwd=e, timeout=3000)
        if rc != 0:
            break
        found = unsafe_in(e)
        where = e
        if found is None:
            try:
                (e / "traces.txt").unlink()
            except OSError:
                pass
        j += 1
    if found is not None:
        k2, l2 = found
        header, evs = schedule_of(where / "traces.txt", k2)
        fe = fail_event(l2)
        if fe:
            evs = evs[:fe]
        shr, v = sim_shrink(where, header, evs, mode="monitor")
        v2, trace = sim_eval(where, [header] + shr, tag="final", mode="monitor")
        if not v2 or " UNSAFE " not in v2:
            v2 = l2 + "   [NOT reproduced by the explicit replay of its schedule: original verdict shown]"
        return dict(kind="safety-violation", found_input=True, schedule=int(k2), seed=ctx.seed,
                    reason=fail_reason(v2 or l2), verdict=(v2 or l2), header=header, events=shr,
                    trace_tail=trace.splitlines()[-14:],
                    first_deviation_from_model=line,
                    theorem="C15_election_safety / C15_log_matching / C15_state_machine_safety / C15_leader_completeness / C15_hardstate_monotone / C15_committed_never_removed evaluated on the observed states of the real RawNodes",
                    note=NOTE)
    header, evs = schedule_of(b / "traces.txt", k)
    fe = fail_event(line)
    if fe:
        evs = evs[:fe]
    shr, v = sim_shrink(b, header, evs)
    v2, trace = sim_eval(b, [header] + shr, tag="final")
    if not v2 or " FAIL " not in v2:
        v2 = line + "   [NOT reproduced by the explicit replay of its schedule: original verdict shown]"
    return dict(kind="trace-validation", found_input=False, schedule=int(k), seed=ctx.seed,
                reason=fail_reason(v2 or line), verdict=(v2 or line),
                original_verdict=line, header=header, events=shr,
                trace_tail=trace.splitlines()[-12:],
                theorem="C15_check_step_sound: an accepted step is a step of the model's transition relation; on this schedule the implementation takes a step that is NOT one.  No violation of the safety predicates themselves was found on the observed states (this chunk + %d fresh schedules)" % (2000 * extra),
                note=NOTE)


def sim_part(ctx, d):
    """Returns (stats, violation-dict-or-None, broken-or-None)."""
    if ctx.tier == "quick":
        batches = [(0, 800, 400), (3000000, 200, 400), (1000000, 8, 2000)]
    else:
        batches = [(0, 36000, 400), (3000000, 4000, 400), (1000000, 600, 3000), (2000000, 10, 10000)]
    tot_sched = tot_events = nontriv = 0
    hashes = set()
    agg = dict(elections=0, commits=0, truncs=0, restarts=0, compactions=0, snapshots=0, unstabledeliveries=0)
    maxterm = maxcommit = 0
    samples = []
    viol = None
    # run in chunks so that the trace files stay small; a chunk's traces are deleted once validated
    chunks = []
    for first, count, nev in batches:
        step = max(1, 800000 // nev)
        k = first
        while k < first + count:
            c = min(step, first + count - k)
            chunks.append((k, c, nev))
            k += c
    for bi, (first, count, nev) in enumerate(chunks):
        if viol is not None:
            break
        b = d / ("sim%d" % bi)
        b.mkdir()
        rc, out = lib.sh("%s sim . %d %d %d %d" % (lib.BUILD / HARNESS, ctx.seed, first, count, nev), cwd=b, timeout=3000)
        if rc != 0:
            return {}, None, "harness_raft sim failed: " + out[-2000:]
        rc, out = lib.sh("%s trace traces.txt verdicts.txt" % (lib.BUILD / RUNNER), cwd=b, timeout=6000)
        if rc != 0:
            return {}, None, "raftrun trace failed: " + out[-2000:]
        for line in (b / "verdicts.txt").read_text().splitlines():
            tok = line.split()
            if len(tok) < 3:
                continue
            tot_sched += 1
            if tok[2] == "OK":
                kv = dict(t.split("=", 1) for t in tok[3:] if "=" in t)
                tot_events += int(kv["events"])
                for key in agg:
                    agg[key] += int(kv[key])
                maxterm = max(maxterm, int(kv["maxterm"]))
                maxcommit = max(maxcommit, int(kv["maxcommit"]))
                if kv["hash"] not in hashes and int(kv["elections"]) >= 1 and int(kv["maxcommit"]) >= 2:
                    nontriv += 1
                hashes.add(kv["hash"])
                if len(samples) < 3 and int(kv["elections"]) >= 2 and int(kv["truncs"]) >= 1:
                    samples.append("schedule %s: %s" % (tok[1], " ".join(tok[3:-1])))
            elif viol is None:
                viol = deviation(ctx, d, b, tok[1], line)
        if bi == 0 and not any(x.startswith("trace excerpt") for x in samples):
            # a few events of the first schedule, as written by the simulator
            try:
                with open(b / "traces.txt") as f:
                    ex = [next(f).rstrip() for _ in range(400)]
                st = next((i for i, l in enumerate(ex) if l.startswith("EV C")), 1)
                samples.append("trace excerpt: " + " / ".join(ex[:2] + ex[st:st + 14]))
            except (StopIteration, OSError):
                pass
        if viol is None:
            try:
                (b / "traces.txt").unlink()
            except OSError:
                pass
    stats = dict(sim_schedules=tot_sched, sim_events=tot_events, sim_distinct_nontrivial=nontriv,
                 sim_distinct=len(hashes), sim_elections=agg["elections"], sim_commit_advances=agg["commits"],
                 sim_log_truncations=agg["truncs"], sim_restarts=agg["restarts"], sim_compactions=agg["compactions"], sim_snapshots_delivered=agg["snapshots"], sim_deliveries_with_unstable_proposal=agg["unstabledeliveries"], sim_max_term=maxterm,
                 sim_max_commit=maxcommit, sim_samples=samples,
                 sim_scope="; ".join("%d schedules x %d events" % (c, n) for _, c, n in batches))
    return stats, viol, None


def cc_part(ctx, d):
    """Membership-change schedules (ProposeConfChange add/remove/joint, applied at commit): outside
    the proved model, so only the safety predicates on the observed states are evaluated."""
    batches = [(7000000, 300, 400)] if ctx.tier == "quick" else [(7000000, 15000, 400), (8000000, 200, 3000)]
    tot = ev = conf = leaders = 0
    vev = vsw = vok = venv = vcfgmax = vlearn = vbat = vbatc = vbatl = 0
    viol = None
    bi = 0
    for first, count, nev in batches:
        step = max(1, 800000 // nev)
        k = first
        while k < first + count and viol is None:
            c = min(step, first + count - k)
            b = d / ("cc%d" % bi)
            b.mkdir()
            bi += 1
            rc, out = lib.sh("%s simcc . %d %d %d %d" % (lib.BUILD / HARNESS, ctx.seed, k, c, nev), cwd=b, timeout=3000)
            if rc != 0:
                return {}, None, "harness_raft simcc failed: " + out[-2000:]
            rc, out = lib.sh("%s monitor traces.txt monitor.txt" % (lib.BUILD / RUNNER), cwd=b, timeout=6000)
            if rc != 0:
                return {}, None, "raftrun monitor failed: " + out[-2000:]
            rc, out = lib.sh("%s tracecc traces.txt verdicts.txt" % (lib.BUILD / RUNNER), cwd=b, timeout=6000)
            if rc != 0:
                return {}, None, "raftrun tracecc failed: " + out[-2000:]
            dev = None
            for line in (b / "verdicts.txt").read_text().splitlines():
                t = line.split()
                if len(t) < 3:
                    continue
                if t[2] == "OK":
                    kv = dict(x.split("=", 1) for x in t[3:] if "=" in x)
                    vev += int(kv["events"])
                    vsw += int(kv["confswitches"])
                    vok += 1
                    venv += int(kv["envelope"])
                    vlearn += int(kv.get("learners", 0))
                    vbat += int(kv.get("batches", 0))
                    vbatc += int(kv.get("batchconfs", 0))
                    vbatl += int(kv.get("batchconfslate", 0))
                    vcfgmax = max(vcfgmax, int(kv["configs"]))
                elif t[2] == "FAIL" and dev is None:
                    dev = (t[1], line)
            for line in (b / "monitor.txt").read_text().splitlines():
                t = line.split()
                if len(t) < 3:
                    continue
                tot += 1
                if t[2] == "SAFE":
                    kv = dict(x.split("=", 1) for x in t[3:] if "=" in x)
                    ev += int(kv["events"])
                    conf += int(kv["confcommitted"])
                    leaders += int(kv["leaders"])
                elif viol is None:
                    header, evs = schedule_of(b / "traces.txt", t[1])
                    fe = fail_event(line)
                    if fe:
                        evs = evs[:fe]
                    shr, v = sim_shrink(b, header, evs, mode="monitor")
                    v2, trace = sim_eval(b, [header] + shr, tag="final", mode="monitor")
                    if not v2 or " UNSAFE " not in v2:
                        v2 = line + "   [NOT reproduced by the explicit replay of its schedule: original verdict shown]"
                    viol = dict(kind="safety-violation", found_input=True, schedule=int(t[1]), seed=ctx.seed,
                                with_membership_changes=True, reason=fail_reason(v2), verdict=v2, header=header,
                                events=shr, trace_tail=trace.splitlines()[-14:],
                                theorem="(no theorem covers membership change) safety predicates of C15 evaluated on the observed states of the real RawNodes",
                                note=NOTE + "; CC i code = ProposeConfChange at node i: 100+x add voter x, 110+x remove voter x, 130+10a+b add a / remove b via joint config, 300+x add learner x (a voter is demoted); PB i codes... = ONE MsgProp with these entries stepped at node i (no-op unless it leads)")
            if viol is None and dev is not None:
                # the implementation deviates from the membership-change model, no safety predicate failed
                kk, line = dev
                header, evs = schedule_of(b / "traces.txt", kk)
                fe = fail_event(line)
                if fe:
                    evs = evs[:fe]
                shr, v = sim_shrink(b, header, evs, mode="tracecc")
                v2, trace = sim_eval(b, [header] + shr, tag="final", mode="tracecc")
                if not v2 or " FAIL " not in v2:
                    v2 = line + "   [NOT reproduced by the explicit replay of its schedule: original verdict shown]"
                viol = dict(kind="trace-validation-cc", found_input=False, schedule=int(kk), seed=ctx.seed,
                            with_membership_changes=True, reason=fail_reason(v2), verdict=v2, header=header,
                            events=shr, trace_tail=trace.splitlines()[-12:],
                            theorem="C15_check_step_cc_sound: an accepted step is a step of RaftCC.cxstep (the model of raft WITH membership changes); on this schedule the implementation takes a step that is NOT one.  No safety predicate failed on the observed states of this chunk",
                            note=NOTE + "; CC i code = ProposeConfChange at node i: 100+x add voter x, 110+x remove voter x, 130+10a+b add a / remove b via joint config, 300+x add learner x (a voter is demoted); PB i codes... = ONE MsgProp with these entries stepped at node i (no-op unless it leads)")
            if viol is None:
                try:
                    (b / "traces.txt").unlink()
                except OSError:
                    pass
            k += c
    stats = dict(cc_validated_schedules=vok, cc_validated_events=vev, cc_config_switches_validated=vsw,
                 cc_schedules_inside_proved_envelope=venv, cc_max_distinct_configurations_in_a_schedule=vcfgmax,
                 cc_learner_schedules_validated=vlearn,
                 cc_batched_proposals_validated=vbat, cc_conf_changes_inside_batches=vbatc, cc_conf_changes_at_batch_position_gt0=vbatl,
                 cc_schedules=tot, cc_events=ev, cc_conf_changes_committed=conf, cc_terms_with_a_leader=leaders,
                 cc_scope="; ".join("%d schedules x %d events" % (c, n) for _, c, n in batches))
    return stats, viol, None


def pv_part(ctx, d):
    """Schedules with Config.PreVote (CheckQuorum in half of them): validated against RaftPV
    (CheckQuorum and leadership transfer angelically) and monitored."""
    batches = [(9000000, 250, 400)] if ctx.tier == "quick" else [(9000000, 10000, 400), (9500000, 200, 3000)]
    tot = ev = leaders = 0
    vok = vev = vpre = vresp = vcq = vsd = vleased = vtl = vtn = vdrop = 0
    viol = None
    bi = 0
    for first, count, nev in batches:
        step = max(1, 800000 // nev)
        k = first
        while k < first + count and viol is None:
            c = min(step, first + count - k)
            b = d / ("pv%d" % bi)
            b.mkdir()
            bi += 1
            rc, out = lib.sh("%s simpv . %d %d %d %d" % (lib.BUILD / HARNESS, ctx.seed, k, c, nev), cwd=b, timeout=3000)
            if rc != 0:
                return {}, None, "harness_raft simpv failed: " + out[-2000:]
            rc, out = lib.sh("%s monitor traces.txt monitor.txt" % (lib.BUILD / RUNNER), cwd=b, timeout=6000)
            if rc != 0:
                return {}, None, "raftrun monitor failed: " + out[-2000:]
            rc, out = lib.sh("%s tracepv traces.txt verdicts.txt" % (lib.BUILD / RUNNER), cwd=b, timeout=6000)
            if rc != 0:
                return {}, None, "raftrun tracepv failed: " + out[-2000:]
            dev = None
            for line in (b / "verdicts.txt").read_text().splitlines():
                t = line.split()
                if len(t) < 3:
                    continue
                if t[2] == "OK":
                    kv = dict(x.split("=", 1) for x in t[3:] if "=" in x)
                    vok += 1
                    vev += int(kv["events"])
                    vpre += int(kv["precandidacies"])
                    vresp += int(kv["prevoteresp"])
                    vcq += int(kv.get("checkquorum", 0))
                    vsd += int(kv.get("stepdowns", 0))
                    vleased += int(kv.get("leased", 0))
                    vtl += int(kv.get("transfer", 0))
                    vtn += int(kv.get("timeoutnow", 0))
                    vdrop += int(kv.get("dropped", 0))
                elif t[2] == "FAIL" and dev is None:
                    dev = (t[1], line)
            for line in (b / "monitor.txt").read_text().splitlines():
                t = line.split()
                if len(t) < 3:
                    continue
                tot += 1
                if t[2] == "SAFE":
                    kv = dict(x.split("=", 1) for x in t[3:] if "=" in x)
                    ev += int(kv["events"])
                    leaders += int(kv["leaders"])
                elif viol is None:
                    header, evs = schedule_of(b / "traces.txt", t[1])
                    fe = fail_event(line)
                    if fe:
                        evs = evs[:fe]
                    shr, v = sim_shrink(b, header, evs, mode="monitor")
                    v2, trace = sim_eval(b, [header] + shr, tag="final", mode="monitor")
                    if not v2 or " UNSAFE " not in v2:
                        v2 = line + "   [NOT reproduced by the explicit replay of its schedule: original verdict shown]"
                    viol = dict(kind="safety-violation", found_input=True, schedule=int(t[1]), seed=ctx.seed,
                                with_prevote=True, first_deviation_from_model=(dev[1] if dev else None), reason=fail_reason(v2), verdict=v2, header=header,
                                events=shr, trace_tail=trace.splitlines()[-14:],
                                theorem="safety predicates of C15 (C15_pv_election_safety, C15_pv_log_matching, C15_pv_state_machine_safety, C15_pv_leader_completeness, C15_hardstate_monotone) evaluated on the observed states of the real RawNodes (schedule with Config.PreVote, possibly CheckQuorum / TransferLeader)",
                                note=NOTE + "; header flags: 1 = Config.PreVote, 2 = Config.CheckQuorum; XPV/XPW = MsgPreVote/MsgPreVoteResp; role Q = pre-candidate")
            if viol is None and dev is not None:
                kk, line = dev
                header, evs = schedule_of(b / "traces.txt", kk)
                fe = fail_event(line)
                if fe:
                    evs = evs[:fe]
                shr, v = sim_shrink(b, header, evs, mode="tracepv")
                v2, trace = sim_eval(b, [header] + shr, tag="final", mode="tracepv")
                if not v2 or " FAIL " not in v2:
                    v2 = line + "   [NOT reproduced by the explicit replay of its schedule: original verdict shown]"
                viol = dict(kind="trace-validation-pv", found_input=False, schedule=int(kk), seed=ctx.seed,
                            with_prevote=True, reason=fail_reason(v2), verdict=v2, header=header,
                            events=shr, trace_tail=trace.splitlines()[-12:],
                            theorem="C15_check_step_pv_sound: an accepted step is a step of RaftPV.pxstep (raft with PreVote); on this schedule the implementation takes a step that is NOT one.  No safety predicate failed on the observed states of this chunk",
                            note=NOTE + "; header flags: 1 = Config.PreVote, 2 = Config.CheckQuorum; XPV/XPW = MsgPreVote/MsgPreVoteResp; role Q = pre-candidate")
            if viol is None:
                try:
                    (b / "traces.txt").unlink()
                except OSError:
                    pass
            k += c
    stats = dict(pv_validated_schedules=vok, pv_validated_events=vev, pv_precandidacies_validated=vpre,
                 pv_prevote_responses_delivered=vresp,
                 pv_checkquorum_schedules_validated=vcq, pv_checkquorum_stepdowns=vsd, pv_checkquorum_vote_requests_ignored_in_lease=vleased,
                 pv_transfer_schedules_validated=vtl, pv_timeoutnow_delivered=vtn, pv_proposals_dropped_during_transfer=vdrop,
                 pv_schedules=tot, pv_events=ev, pv_terms_with_a_leader=leaders,
                 pv_scope="; ".join("%d schedules x %d events" % (c, n) for _, c, n in batches))
    return stats, viol, None


def replay_sim(ctx, r, d):
    mode = {"safety-violation": "monitor", "trace-validation-cc": "tracecc", "trace-validation-pv": "tracepv"}.get(r.get("kind"), "trace")
    v, trace = sim_eval(d, [r["header"]] + r["events"], tag="replay", mode=mode)
    if v is None:
        print("replay: could not run:", trace)
        return 1
    print("\n".join(trace.splitlines()[-14:]))
    print("verdict (%s):" % ("safety predicates on observed states" if mode == "monitor" else "trace validation against the model"), v)
    return 1 if (" FAIL " in v or " UNSAFE " in v) else 0


# ------------------------------------------------------------------------------ driver

def run(ctx):
    cov, broken = lib.proof_gate(ctx, extra_tb=[
        "ml/raftrun.ml (line parsing, int<->nat, printing): trusted glue",
        "harness_raft/*.go (case generators, simulator, state projection): differential/trace testing, as strong as its generators",
        "modelled, not verified: Go map iteration, uint64 arithmetic (indexes/terms are far below 2^64 in every run), insertion sort on a stack/heap slice in quorum/majority.go",
    ])
    b2 = build()
    broken = broken or b2
    d = lib.scratch("c15-")
    if ctx.replay:
        r = json.load(open(ctx.replay))
        if b2:
            print(b2)
            return 1
        if r.get("kind", "").startswith("impl-vs-model quorum"):
            return replay_quorum(ctx, r, d)
        if r.get("kind") in ("trace-validation", "safety-violation", "trace-validation-cc", "trace-validation-pv"):
            return replay_sim(ctx, r, d)
        print("replay: nothing to re-run for kind=%r: %s" % (r.get("kind"), r.get("what", "")[:500]))
        return 1
    viol = None
    stats = {}
    if not b2:
        # the four parts are independent (own scratch directories): run them side by side and
        # report, in this fixed order, the first violation / broken tie
        import concurrent.futures
        parts = [("pq", quorum_part), ("ps", sim_part), ("pc", cc_part), ("pp", pv_part)]
        for name, _ in parts:
            (d / name).mkdir()
        with concurrent.futures.ThreadPoolExecutor(max_workers=4) as ex:
            futs = [ex.submit(fn, ctx, d / name) for name, fn in parts]
            results = [f.result() for f in futs]
        for st_, v_, b_ in results:
            stats.update(st_)
            if viol is None and not broken:
                viol = v_
                broken = broken or b_
    rc = 0
    if viol:
        lib.violation(PID, viol, found_input=viol.get("found_input", True))
        ctx.violations += 1
        rc = 1
    elif broken:
        lib.violation(PID, dict(kind="tie-broken", what=broken), found_input=False)
        ctx.violations += 1
        rc = 1
    for kf in lib.known_findings(PID):
        if kf["kind"] == "open":
            print("KNOWN-FINDING: property=%s %s %s" % (PID, kf["id"], kf["text"]))
    cov.update(dict(
        evaluations=stats.get("quorum_cases", 0) + stats.get("sim_events", 0) + stats.get("cc_validated_events", 0) + stats.get("pv_validated_events", 0),
        distinct_nontrivial=stats.get("quorum_distinct_nontrivial", 0) + stats.get("sim_distinct_nontrivial", 0),
        rule="(D) " + stats.get("quorum_scope", "-") + "; a quorum case is non-trivial when its first config is non-empty and the four answers are not the all-default tuple; distinct = distinct case lines. "
             "(V) " + stats.get("sim_scope", "-") + " on 1-5 real RawNodes (seeded adversarial scheduler: deliver/duplicate/drop/reorder, partitions, tick, propose, campaign, crash-restart, crash before persisting); every event is one evaluation, checked by the extracted check_step (exact equality of term/vote/commit/role/lead/log with the model, replies present, other messages allowed by emit_okb: in particular every MsgApp must carry the CONTIGUOUS slice prevIndex+1.. of the sender's log - C15_msgapp_is_contiguous_log_slice; an entry at a wrong index is rendered as an impossible payload); a third of the schedules have MIXED ENTRY SIZES (a third of the entries padded to 40-110 bytes) with MaxSizePerMsg = MaxCommittedSizePerReady = 24-93 bytes and 1-3 messages in flight, and in those a third of the deliveries to a leader are PD events: a proposal is handed in and the message stepped BEFORE the Ready loop runs (unstable tail while resends are built; validated as two model steps, one observation); the harness itself enforces the Ready contract (Entries and CommittedEntries carry consecutive indexes, the applied cursor never jumps) plus the extracted safety predicates; a schedule is non-trivial when a leader was elected and an entry beyond the leader's empty entry was committed; distinct = distinct md5 of the event sequence",
        samples=stats.get("quorum_samples", ["(none)"]) + stats.get("sim_samples", []),
        exhaustive=False,
        traces_validated_against_impl=stats.get("sim_schedules", 0),
        transitions=stats.get("sim_events", 0),
        quorum_cases=stats.get("quorum_cases", 0),
        sim=dict((k, v) for k, v in stats.items() if k.startswith("sim_") and k != "sim_samples"),
        membership_change_exploration=dict(
            (k, v) for k, v in stats.items() if k.startswith("cc_")) or None,
        prevote_checkquorum_monitoring=dict((k, v) for k, v in stats.items() if k.startswith("pv_")) or None,
        prevote_checkquorum_note="schedules with Config.PreVote = true (pre-vote responses are often kept in flight and re-delivered late; small election timeouts in half), half of them with Config.CheckQuorum too: validated event by event against the PreVote model RaftPV.exec_pv by the extracted check_step_pv (sound w.r.t. pxstep; the safety theorems C15_pv_* cover pxreachable) and counted in evaluations.  CheckQuorum is covered ANGELICALLY: a tick may be the leader's step-down (event PvStepDown) and a delivered MsgVote/MsgPreVote may be ignored altogether (leader lease) - the model does not say when (no election clock), so CheckQuorum's liveness is not checked, its safety is (every choice is a step of pxstep).  A third of the CheckQuorum schedules also call RawNode.TransferLeader: covered angelically too (a leader may send MsgTimeoutNow at any time and may drop a proposal, any node may forward MsgTransferLeader; the receiver of MsgTimeoutNow, if a follower, campaigns for real at once without pre-vote) and validated; the safety predicates are evaluated on the observed states of all schedules (raftrun monitor)",
        membership_change_note="schedules with ProposeConfChange (add/remove a voter, joint add+remove with automatic leave; applied when committed) are (a) validated event by event against the membership-change model RaftCC.exec_cc by the extracted check_step_cc (exact equality of term/vote/commit/role/lead/log AND of the node's configuration; sound w.r.t. RaftCC.cxstep) — these events are counted in evaluations — and (b) monitored: the safety predicates are evaluated on the observed states.  The SAFETY theorems cover such runs only when the COMMITTED configurations of the run (prefixes of the logs up to the commit index) form a family with pairwise-intersecting quorums (C15_cc_*_partial; evidence key cc_schedules_inside_proved_envelope); the general chain argument of joint consensus is not proved.  A third of the conf changes travel inside BATCHED proposals (event PB: one MsgProp with 2-4 entries stepped at a leader, the conf change at any position among normal entries, sometimes a second conf change in the same batch, which must become an empty entry; further conf changes are proposed at that leader while the leading entries commit and apply one by one - MaxSizePerMsg = one entry and one committed entry per Ready in a third of the schedules); the model's pendingConfIndex for a batch is lastIndex + i + 1 (RaftCC.batch_cc).  A quarter of the schedules also add learners (ConfChangeAddLearnerNode: fresh learners, later promoted by add-voter, and voters demoted): part of the model (tracked, replicated to, never counted in a quorum) and validated like the others",
        correspondence="(D) quorum.{MajorityConfig,JointConfig}.{CommittedIndex,VoteResult} (built from VERIF_REPO working tree) vs extracted Gallina majority_/joint_ functions, compared on every case; (V) raft.RawNode + MemoryStorage (built from VERIF_REPO) vs extracted check_step on every event",
    ))
    lib.write_evidence(PID, ctx.tier, ctx.seed, cov,
                       ["Go runtime semantics (maps, slices, uint64)", "extraction + OCaml compiler"],
                       ctx.wall(), ctx.violations)
    return rc
