"""Bounded-exhaustive adversarial sweep for C04: every registered command x every argument
vector up to a given arity over an adversarial alphabet, against a keyspace that holds one key
of every type (re-populated at the start of every case)."""
import itertools
import random

from .gen import Case

# keys of each type + a missing key
K = dict(S=b"kS", L=b"kL", H=b"kH", T=b"kT", Z=b"kZ", X=b"kX", N=b"nokey")

PREPOP = [
    [b"set", K["S"], b"10"],
    [b"rpush", K["L"], b"a", b"b", b"a"],
    [b"hset", K["H"], b"f", b"1", b"g", b""],
    [b"sadd", K["T"], b"a", b"b", b""],
    [b"zadd", K["Z"], b"1", b"a", b"2", b"b", b"2", b"c"],
    [b"xadd", K["X"], b"5-1", b"f", b"v"],
]

# adversarial argument alphabet (DESIGN 3/C04)
BASE = [b"", b"0", b"-1", b"1", b"2", b"9223372036854775807", b"-9223372036854775808", b"9223372036854775808",
        b"1e400", b"nan", b"inf", b"-inf", b"*", b"~", b"=", b"(1", b"-", b"+", b"5-1", b"5-*", b"0-0", b"a", b"f", b"x\r\ny", b"1.5"]
QUICK_BASE = [b"", b"0", b"-1", b"1", b"9223372036854775807", b"-9223372036854775808", b"nan", b"*", b"-", b"+", b"a", b"5-1"]

OPTIONS = {
    "set": [b"NX", b"XX", b"GET", b"EX", b"PX", b"EXAT", b"KEEPTTL"],
    "expire": [b"NX", b"XX", b"GT", b"LT"],
    "lpos": [b"RANK", b"COUNT", b"MAXLEN"],
    "lmove": [b"LEFT", b"RIGHT"],
    "zadd": [b"NX", b"XX", b"GT", b"LT", b"CH", b"INCR"],
    "zrange": [b"REV", b"WITHSCORES", b"LIMIT", b"BYSCORE"],
    "xadd": [b"NOMKSTREAM", b"MAXLEN", b"MINID", b"LIMIT"],
    "xrange": [b"COUNT"],
    "hrandfield": [b"WITHVALUES"],
    # glob patterns, well-formed and broken, whose literal prefix matches the populated keys kS..kX
    "keys": [b"k?", b"k[A-Z]", b"k[", b"k[A-", b"k[A-\\", b"k[^A-\\", b"*[A-\\", b"k\\", b"[", b"k[]", b"k[\\",
             b"k[^", b"k[]-", b"*\\", b"k[A-\\]", b"k*[", b"?[", b"k[-", b"k[\\]-\\"],
}

# commands that need a live connection / a running Raft node: executed only over TCP by C19 / C07
NOT_IN_PROCESS = {"subscribe", "publish", "rconf", "unsubscribe",
                  "verifdump"}  # verifdump: hook command, registered only under the verif build tag


# Arguments on which the model's exact-decimal score arithmetic differs from float64 rounding
# (more than 15 significant digits, exponent syntax): for ZADD these vectors are run on the
# implementation for crash/hang detection only (cases named c04x_*), not compared with the model.
OUT_OF_DOMAIN = {"zadd": {b"9223372036854775807", b"-9223372036854775808", b"9223372036854775808", b"1e400"}}


def alphabet(name, quick):
    a = list(QUICK_BASE if quick else BASE)
    a += list(K.values())
    a += OPTIONS.get(name, [])
    return a


def vectors(name, maxarity, quick, rnd, sample_last=0):
    """All argument vectors of length 0..maxarity over the alphabet; plus sample_last random
    vectors of length maxarity+1 and maxarity+2."""
    a = alphabet(name, quick)
    for n in range(0, maxarity + 1):
        for v in itertools.product(a, repeat=n):
            yield list(v)
    # one more argument when the first one is a key (of each type / missing): almost every command
    # takes its key first, so this is where the deeper argument interactions live
    keys = list(K.values())
    for k in keys:
        for v in itertools.product(a, repeat=maxarity):
            yield [k] + list(v)
    # option keyword followed by every token, after a key and one or two plausible arguments
    few = [b"a", b"1", b"0", b"5-1", b"*"]
    for o in OPTIONS.get(name, []):
        for k in keys:
            for x in few:
                for t in a:
                    yield [k, x, o, t]
            for x in few[:3]:
                for y in few[:3]:
                    for t in a:
                        yield [k, x, y, o, t]
    for _ in range(sample_last):
        n = maxarity + rnd.choice([1, 2, 3])
        yield [rnd.choice(a) for _ in range(n)]


def gen_sweep(names, tier, seed, steps_per_case=150):
    rnd = random.Random(seed)
    quick = tier == "quick"
    maxarity = 2 if quick else 3
    cases = []
    xcases = []
    for name in names:
        if name in NOT_IN_PROCESS:
            continue
        cur = None
        xcur = None
        i = 0
        ood = OUT_OF_DOMAIN.get(name, set())
        for v in vectors(name, maxarity, quick, rnd, sample_last=600 if quick else 6000):
            if ood and any(t in ood for t in v):
                if xcur is None or xcur.nsteps >= steps_per_case:
                    xcur = Case("c04x_%s_%d" % (name, len(xcases)))
                    for p in PREPOP:
                        xcur.cmd(p)
                    xcases.append(xcur)
                xcur.cmd([name.encode()] + v)
                continue
            if cur is None or cur.nsteps >= steps_per_case:
                cur = Case("c04_%s_%d" % (name, i))
                i += 1
                for p in PREPOP:
                    cur.cmd(p)
                cases.append(cur)
            nm = name.encode()
            if rnd.random() < 0.1:
                nm = nm.upper()
            cur.cmd([nm] + v)
            # liveness probes on the same key, another key: any reply (compared with the model) will do
            if rnd.random() < 0.03:
                cur.cmd([b"get", K["S"]])
                cur.cmd([b"llen", K["L"]])
                cur.dump()
        if cur is not None:
            cur.dump()
    return cases, xcases
