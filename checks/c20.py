"""C20 — numbered databases are isolated keyspaces; SELECT validates; selection is per connection.

Proof half: coq/Properties/C20.v (theorems about srv_exec/srv_run of coq/Mem/Server.v, proofs in
Mem/ServerProofs.v).  Tie: interleaved multi-connection programs for 1, 2 and 16 databases run
through the real connection handler -- harness memx, mode handle: one net.Pipe per connection id
served by server.Manager.Handle, commands written as RESP, replies read from the wire -- against
the extracted srv_exec: every reply and keyspace dumps of all databases.  Thorough tier adds real
TCP connections against server.Start."""
from . import gen_sel, lib, memlib, ttllib

PID = "C20"


def make_cases(tier, seed):
    cases = gen_sel.gen_isolation(seed) + gen_sel.gen_invalid(seed)
    cases += gen_sel.gen_reconnect(seed, 60 if tier == "quick" else 1500)
    cases += gen_sel.gen_pipeline(seed, 150 if tier == "quick" else 4000)
    cases += gen_sel.gen_random(seed, 8000 if tier == "quick" else 60000)
    return cases


def post(ctx, d):
    """concurrent first-SELECT scenario (quick: through Manager.Handle; thorough: also over TCP), then
    the sequential TCP sample (thorough)"""
    cov = {}
    n = 40 if ctx.tier == "quick" else 400
    failing, c1 = ttllib.race_sample(ctx, d, PID, gen_sel.gen_race(ctx.seed, n), "handle")
    cov.update(c1)
    # connection lifecycle on the real scheduler: one OS thread and all of them, then over TCP
    for gmp in (1, None):
        if not failing:
            failing, cx = ttllib.realclock_sample(ctx, d, PID, gen_sel.gen_reconnect(ctx.seed + 11, 25 if ctx.tier == "quick" else 300, "c20rcr"),
                                                  "handle", gmp, tag="rc%s" % (gmp or "all"))
            cov.update(cx)
    # pipelining on the real scheduler (few blocking pops: their timeout is a real second) and over TCP
    for gmp in (1, None):
        if not failing:
            failing, cx = ttllib.realclock_sample(ctx, d, PID, gen_sel.gen_pipeline(ctx.seed + 17, 40 if ctx.tier == "quick" else 400, "c20plr", blocking=0.02),
                                                  "handle", gmp, tag="pl%s" % (gmp or "all"))
            cov.update({k.replace("realclock_", "pipeline_realclock_"): v for k, v in cx.items()})
    if not failing:
        failing, cx = ttllib.tcp_sample(ctx, d, PID, gen_sel.gen_pipeline(ctx.seed + 19, 6 if ctx.tier == "quick" else 60, "c20pltcp", blocking=0.0))
        cov.update({"pipeline_" + k: v for k, v in cx.items()})
    if not failing:
        failing, cx = ttllib.tcp_sample(ctx, d, PID, gen_sel.gen_reconnect(ctx.seed + 13, 6 if ctx.tier == "quick" else 60, "c20rctcp"))
        cov.update({"reconnect_" + k: v for k, v in cx.items()})
    # cluster mode: the configuration path must leave exactly one database
    if not failing:
        failing, cx = ttllib.clustercfg_sample(ctx, d, PID, gen_sel.gen_clustercfg(ctx.seed, 120 if ctx.tier == "quick" else 1500))
        cov.update(cx)
    if not failing and ctx.tier == "thorough":
        failing, c2 = ttllib.race_sample(ctx, d, PID, gen_sel.gen_race(ctx.seed + 7, 60), "tcp")
        cov.update(c2)
    if not failing and ctx.tier == "thorough":
        failing, c3 = ttllib.tcp_sample(ctx, d, PID, gen_sel.gen_tcp(ctx.seed, 60))
        cov.update(c3)
    elif ctx.tier != "thorough":
        cov["tcp_sample"] = "thorough tier only"
    if failing:
        lib.violation(PID, failing)
        ctx.violations += 1
        return None, cov      # the violation line is already printed; run() turns it into exit 1
    return None, cov


def run(ctx):
    if ctx.replay:
        import json
        r = json.load(open(ctx.replay))
        if r.get("race_line"):
            return ttllib.race_replay(ctx, lib.scratch("c20-"), r)
        if r.get("cfg_case"):
            return ttllib.clustercfg_replay(ctx, lib.scratch("c20-"), r)
    rc = memlib.run_family(
        ctx, PID, make_cases, runner=ttllib.memx_runner("handle"),
        rule="database counts 1, 2, 16; every database holds a marker key with its own index so GET reveals the real selection; "
             "(a) isolation: string/list key with deadline written in database i by one connection, probed (GET/EXISTS/TYPE/TTL/KEYS/"
             "LLEN/DEL) from every database by a second connection and from a never-selecting third; (b) validation: every invalid "
             "argument (-1, n, n+1, 1.0, empty, huge, 2^32, 2^63, 2^64, non-numeric, spaces, hex, exponent, underscore, NUL, CRLF, "
             "full-width digit, bare sign), the borderline forms Go accepts (00, 01, +1, +0, -0), arities 0/2/3, each followed by "
             "GET whoami on the issuing and on another connection; (c) seeded random interleavings of 1-5 connections mixing SELECT "
             "(valid/invalid/borderline) with string/list/key commands and sleeps, dumps of all databases; thorough: (d) the same over "
             "real TCP connections against server.Start; (e) concurrency: N = 8-16 connections through Manager.Handle, released by a barrier, "
             "first-SELECT the same never-used index at the same instant on a fresh server (default ShardNum 1024), write one key each, then "
             "every connection and a late one read every key (quick: 40 servers, 2/3/16 databases, every index > 0; thorough: 400 + 60 over TCP); "
             "(f) connection lifecycle: 12-30 rounds per case of a connection that SELECTs n != 0, writes a marker and ends (CLOSE, Handle has "
             "returned), followed by new connections (fresh ids and ids of closed connections, sequential and 2-5 concurrent) that never SELECT "
             "and read whoami / write at once -- through Manager.Handle under faketime, on the real scheduler with GOMAXPROCS 1 and all, and over TCP; "
             "(h) pipelining: PIPE..FLUSH blocks in which every connection sends SELECT i + 1-3 data commands (repeated, 35% queued behind BLPOP/BRPOP "
             "nolist 1) in ONE write and reads the replies afterwards, 1-4 connections with different selections, whoami/k reads and dumps after "
             "each block -- through Manager.Handle under faketime (150 cases), on the real scheduler with GOMAXPROCS 1 and all, and over TCP; "
             "(g) cluster configuration path: generated cluster JSON files (no / databases / Databases / DATABASES / dataBases key x values 0,1,2,16,..., "
             "duplicates, wrong types, other fields varied) through config.ParseConfigJson: accepted => Databases == 1; the node built from it is "
             "driven through HandleCluster/handleClusterCommits (hook H4 loop-back) by 2-3 connections (B never SELECTs, A SELECTs) and compared with "
             "the one-database model",
        extra_tb=["connections: mode handle drives server.Manager.Handle over net.Pipe (per-connection state is whatever Handle "
                  "keeps); the accept loop of server.Start is exercised only by the TCP sample (thorough)"],
        extra_cov=dict(db_counts=gen_sel.DBCOUNTS, invalid_args=len(gen_sel.INVALID_ARGS), borderline_args=len(gen_sel.BORDERLINE_ARGS),
                       correspondence="server.Manager.Handle over net.Pipe, one per connection id (REPO working tree, -tags verif,faketime) "
                                      "vs extracted srv_exec: every reply and every keyspace dump of every database compared"),
        post=post)
    return 1 if ctx.violations else rc
