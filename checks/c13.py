"""C13 -- multi-key commands are deadlock-free and atomic (DESIGN.md 3/C13, A.3, A.4)."""
from . import concdrive

PID = "C13"
PHASES = ["multi", "setalg", "conserve", "list", "pairs"]


def run(ctx):
    return concdrive.run(
        ctx, PID, PHASES,
        title="concurrent mixes of MSET / RENAME / LMOVE / SMOVE / set algebra and STORE forms / multi-key DEL, EXISTS, MGET, BLPOP with single-key commands on repeated and stripe-colliding keys: completion within the watchdog, per-goroutine ascending acquisition (H2), sections = static skeleton, per-key-set linearizability against the extracted model, conservation of list elements / set members at quiescence",
        extra_tb=["C13_deadlock_free is proved for the modelled writer-preferring RW lock and the `ordered` discipline; that the executors follow the discipline is the translator obligation ordered_acquisition + the dynamic H2 order check; PARTIAL with respect to the real sync.RWMutex and scheduler"],
        rule="evaluations = commands executed concurrently; distinct_nontrivial = distinct (command, reply) pairs that overlapped in time with a command of another goroutine on the same key-set component, inside components decided linearizable (multi-key atomic commands are single steps over their key set); every acquisition is checked to be above all stripes held; a run that does not finish within the watchdog is a violation")
