"""C05 -- concurrent clients observe linearizable single-key operations (DESIGN.md 3/C05, A.3)."""
from . import concdrive

PID = "C05"
PHASES = ["counter", "list", "setnx", "book", "misc", "expiry", "pairs", "bigval", "keyscan"]


def run(ctx):
    return concdrive.run(
        ctx, PID, PHASES,
        title="recorded concurrent histories of server.Manager.ExecCommand (goroutines on stripe-/shard-colliding keys) vs the extracted sequential model, per key component; H2 lock log vs static skeletons; quiescent KEYS/EXISTS/key-counter vs the stored data",
        extra_tb=["theorems C05_* are about the lock model (transactions of Acq/Rel/Rd/Wr under reader-writer exclusion): PARTIAL with respect to the Go scheduler and memory model, which are not modelled; the translator obligations + H2 log tie the executors to the model, the race detector (thorough tier) checks the runs"],
        rule="evaluations = commands executed concurrently (all phases, all runs); distinct_nontrivial = distinct (command, reply) pairs that overlapped in time with a command of another goroutine on the same key component, inside components whose whole history was decided linearizable against the extracted model (components using commands the model does not cover yet are counted in ops_unchecked); every lock event of every command is checked against the order discipline and the static skeleton")
