"""Program generator for C18 (stream commands).  One PRNG seeded by VERIF_SEED.

The generator keeps a small tracker of what each stream should contain under the reference
semantics (ids, length, the virtual clock = 1257894000000 ms + all sleeps of the program file so
far), only to *aim*: explicit ids at last / last+-1 in both components, MAXLEN at len-1/len/len+1,
MINID and XRANGE bounds at and next to stored ids.  The tracker is never used as an oracle; the
oracle is the extracted Coq model."""
import random

from .gen import Case, pick, randcase, KEYS

T0 = 1257894000000
U = 2 ** 64 - 1

FVALS = [b"a", b"b", b"f1", b"v1", b"", b"x\r\ny", b"\x00\xff", b"\r", b"\n", b"maxlen", b"*", b"0-0", b"~",
         b"field with space", b"\xe2\x82\xac", b"10", b"nomkstream"]
BAD_IDS = [b"", b"-", b"5-", b"-5", b"5-5-5", b"5-*-", b"*-*", b"*-1", b"abc", b"5-x", b"x-5",
           b"18446744073709551616-0", b"0-18446744073709551616", b"18446744073709551616", b"+5-1", b"5-+1",
           b" 5-1", b"5-1 ", b"~", b"=", b"(5-1", b"5-1-*", b"-*", b"**", b"5_0-1", b"0x5-1", b"5-\r\n1", b"1e3-0",
           b"99999999999999999999999999-1", b"--", b"5--1", b"\xff-1"]
SLEEPS = [1, 1, 2, 10, 999, 1000, 1001, 1500, 2500]


def idb(i):
    return b"%d-%d" % i


class Tracker:
    def __init__(self, clock):
        self.clock = clock
        self.streams = {}     # key -> list of (ms, seq)
        self.other = set()    # keys holding another type
        self.ttl = {}         # key -> deadline (s)
        self.good = 0.0       # share of XADDs generated as plain accepted appends

    def purge(self):
        now = self.clock // 1000
        for k in [k for k, t in self.ttl.items() if t <= now]:
            self.ttl.pop(k)
            self.streams.pop(k, None)
            self.other.discard(k)

    def drop(self, k):
        self.streams.pop(k, None)
        self.other.discard(k)
        self.ttl.pop(k, None)


def near(i):
    """ids at and around i, components kept inside the unsigned 64-bit range"""
    m, s = i
    c = [(m, s), (m, s + 1), (m, s - 1), (m + 1, 0), (m + 1, s), (m - 1, s), (m - 1, U), (m, 0), (m + 1, s - 1),
         (m, s + 2), (m + 2, 0), (m, U), (m - 1, 0), (m, s + 1), (m + 1, 0), (m, s + 1), (m + 1, 1), (m, s + 3)]
    return [(a, b) for a, b in c if 0 <= a <= U and 0 <= b <= U]


SPECIAL = [(0, 0), (0, 1), (1, 0), (U, U), (U, U - 1), (U - 1, U), (U, 0), (0, U), (2 ** 63, 0), (2 ** 63 - 1, 2 ** 63 - 1),
           (2 ** 63 - 1, 2 ** 63), (5, 1), (5, 0), (6, 0), (T0, 0), (T0 + 5000, 0)]


def next_id(spec, clock, top):
    """reference id assignment; None = refused"""
    if spec[0] == "auto":
        if top[0] < clock:
            return (clock, 0)
        if top[1] < U:
            return (top[0], top[1] + 1)
        if top[0] < U:
            return (top[0] + 1, 0)
        return None
    if spec[0] == "autoseq":
        ms = spec[1]
        if top[0] < ms:
            return (ms, 0)
        if ms == top[0] and top[1] < U:
            return (ms, top[1] + 1)
        return None
    i = (spec[1], spec[2])
    return i if i > top else None


def gen_id(r, tr, x):
    """-> (text, spec or None when the text is not a valid id)"""
    top = x[-1] if x else (0, 0)
    c = r.randrange(100)
    if c < 28:
        return b"*", ("auto",)
    if c < 40:
        ms = pick(r, [top[0], top[0] + 1, top[0] - 1, 0, U, tr.clock, tr.clock + 1, 5])
        if not 0 <= ms <= U:
            ms = 0
        return b"%d-*" % ms, ("autoseq", ms)
    if c < 72:
        base = top if (x or r.random() < 0.5) else (tr.clock, 0)
        if x and r.random() < 0.15:
            base = pick(r, x)
        i = pick(r, near(base))
        return idb(i), ("full",) + i
    if c < 84:
        i = pick(r, SPECIAL)
        return idb(i), ("full",) + i
    if c < 91:   # incomplete id: ms only = ms-0
        ms = pick(r, [top[0], top[0] + 1, max(top[0] - 1, 0), 0, U, 5, 7])
        if not 0 <= ms <= U:
            ms = 7
        t = b"%d" % ms
        if r.random() < 0.2:
            t = b"00" + t
        return t, ("full", ms, 0)
    if c < 93:   # leading zeros are accepted by ParseUint
        i = pick(r, near(top))
        return b"0%d-00%d" % i, ("full",) + i
    return pick(r, BAD_IDS), None


def kw(r, s):
    return randcase(r, s) if r.random() < 0.6 else s


def gen_opts(r, tr, x):
    """-> (args, opts dict or None when the option block must be refused)"""
    n = len(x) + 1        # length right after the append
    args, o, bad = [], dict(nomk=False, maxlen=None, minid=None, approx=False, limit=None), False
    for _ in range(r.choice([0, 0, 0, 0, 0, 1, 1, 1, 2, 2, 3, 4])):
        c = r.randrange(100)
        if c < 25:
            args.append(kw(r, b"nomkstream"))
            o["nomk"] = True
            if r.random() < 0.1:
                args.append(kw(r, b"NOMKSTREAM"))
        elif c < 62:
            args.append(kw(r, b"maxlen"))
            m = r.choice([None, None, b"=", b"~", b"~"])
            if m:
                args.append(m)
            o["approx"] = (m == b"~")
            if r.random() < 0.04:
                bad = True       # value missing: the next token is eaten as the threshold
                break
            v = pick(r, [0, 1, n - 2, n - 1, n, n + 1, 2, 3, 1000, n - 1, n, n + 1, 5, 2 ** 63 - 1] * 3
                     + [-1, "x", "", "1.5", 2 ** 63])
            args.append(str(v).encode())
            if isinstance(v, int) and 0 <= v < 2 ** 63:
                o["maxlen"] = v
            else:
                bad = True
                break
        elif c < 85:
            args.append(kw(r, b"minid"))
            m = r.choice([None, None, b"=", b"~"])
            if m:
                args.append(m)
            o["approx"] = (m == b"~")
            base = pick(r, x) if x else (tr.clock, 0)
            if r.random() < 0.3:
                ms = pick(r, [base[0], base[0] + 1, max(base[0] - 1, 0), 0])
                if ms > U:
                    ms = U
                args.append(b"%d" % ms)
                o["minid"] = (ms, 0)
            elif r.random() < 0.96:
                i = pick(r, near(base) + [(0, 0), (U, U)])
                args.append(idb(i))
                o["minid"] = i
            else:
                args.append(pick(r, BAD_IDS + [b"*", b"5-*", b"-", b"+"]))
                bad = True
                break
        else:
            args.append(kw(r, b"limit"))
            v = pick(r, [0, 1, 1, 2, 3, 100, 1, 2, 0, 5, -1, "x"])
            args.append(str(v).encode())
            if isinstance(v, int) and v >= 0:
                o["limit"] = v
            else:
                bad = True
                break
    if o["maxlen"] is not None and o["minid"] is not None:
        bad = True
    if o["limit"] is not None and not o["approx"]:
        bad = True
    return args, (None if bad else o)


def gen_fields(r):
    c = r.randrange(100)
    n = 2 * r.choice([1, 1, 1, 2, 2, 3, 5])
    if c < 4:
        n -= 1
    elif c < 6:
        n = 0
    elif c < 7:
        n += 1
    return [pick(r, FVALS) for _ in range(n)]


def apply_trim(o, x):
    def cap(n):
        l = o["limit"]
        return l if (l is not None and 0 < l < n) else n
    if o["maxlen"] is not None and len(x) > o["maxlen"]:
        x = x[cap(len(x) - o["maxlen"]):]
    if o["minid"] is not None:
        cnt = 0
        for i in x:
            if i < o["minid"]:
                cnt += 1
            else:
                break
        x = x[cap(cnt):]
    return x


def xadd(r, tr, keys):
    k = pick(r, keys)
    x = tr.streams.get(k, [])
    if r.random() < tr.good:
        # a plain append that the reference accepts, so streams also grow
        oargs, o = [], dict(nomk=False, maxlen=None, minid=None, approx=False, limit=None)
        top = x[-1] if x else (0, 0)
        c = r.randrange(4)
        if c == 0 or top[1] >= U - 3 or top[0] >= U - 3:
            idt, spec = b"*", ("auto",)
        elif c == 1:
            idt, spec = b"%d-*" % top[0], ("autoseq", top[0])
        else:
            i = pick(r, [(top[0], top[1] + 1), (top[0], top[1] + 2), (top[0] + 1, 0), (top[0] + 1, top[1]), (top[0] + 2, 1)])
            idt, spec = idb(i), ("full",) + i
        fields = [pick(r, FVALS) for _ in range(2 * r.choice([1, 1, 2, 3]))]
    else:
        oargs, o = gen_opts(r, tr, x)
        idt, spec = gen_id(r, tr, x)
        fields = gen_fields(r)
    cmd = [pick(r, [b"xadd", b"xadd", b"XADD", b"XAdd"]), k] + oargs + [idt] + fields
    ok = (o is not None and spec is not None and len(cmd) >= 5 and len(fields) >= 2 and len(fields) % 2 == 0
          and spec != ("full", 0, 0) and k not in tr.other)
    if ok and not (o["nomk"] and k not in tr.streams):
        i = next_id(spec, tr.clock, x[-1] if x else (0, 0))
        if i is not None:
            tr.streams[k] = apply_trim(o, x + [i])
    return cmd


def gen_bound(r, tr, x, end):
    c = r.randrange(100)
    if c < 22:
        return b"+" if end else b"-"
    if c < 27:
        return b"-" if end else b"+"
    base = pick(r, x) if x else pick(r, [(5, 1), (tr.clock, 0), (0, 0)])
    if c < 55:
        return idb(pick(r, near(base)))
    if c < 75:
        ms = pick(r, [base[0], base[0] + 1, max(base[0] - 1, 0)])
        return b"%d" % min(ms, U)
    if c < 94:
        return pick(r, [b"0", b"0-0", b"0-1", idb((U, U)), b"%d" % U, idb((U, 0)), idb((0, U)), b"5", b"5-0", b"6",
                        idb((2 ** 63, 0)), b"007", b"5-01"])
    return pick(r, BAD_IDS + [b"*", b"5-*", b"(5", b"(5-1", b"(-", b"++"])


def xrange_(r, tr, keys):
    k = pick(r, keys)
    x = tr.streams.get(k, [])
    cmd = [pick(r, [b"xrange", b"xrange", b"XRANGE", b"XRange"]), k, gen_bound(r, tr, x, False), gen_bound(r, tr, x, True)]
    n = len(x)
    c = r.randrange(100)
    if c < 45:
        return cmd
    cnt = lambda: str(pick(r, [0, 1, 1, 2, n, n + 1, max(n - 1, 0), -1, -5, 2 ** 63 - 1] * 3 + ["x", "", 2 ** 63, "1.0"])).encode()
    if c < 85:
        return cmd + [kw(r, b"count"), cnt()]
    if c < 90:
        return cmd + [kw(r, b"count"), cnt(), kw(r, b"COUNT"), cnt()]
    if c < 94:
        return cmd + [kw(r, b"count")]
    if c < 97:
        return cmd + [pick(r, [b"bogus", b"limit", b"rev", b""]), cnt()]
    return cmd + [kw(r, b"count"), cnt(), pick(r, [b"extra", b"count"])]


def other_cmd(r, tr, keys):
    k = pick(r, keys)
    c = r.randrange(100)
    if c < 6:
        tr.drop(k)
        tr.other.add(k)
        return [b"set", k, pick(r, FVALS)]
    if c < 10:
        if k not in tr.streams:
            tr.other.add(k)
            return [b"lpush", k, b"e"]
        return [b"lpush", k, b"e"]
    if c < 18:
        tr.drop(k)
        return [b"del", k]
    if c < 30:
        return [b"exists", k]
    if c < 42:
        return [b"type", k]
    if c < 62:
        n = pick(r, [1, 1, 2, 3, 100])
        if k in tr.streams or k in tr.other:
            tr.ttl[k] = tr.clock // 1000 + n
        return [b"expire", k, b"%d" % n]
    if c < 70:
        return [b"ttl", k]
    if c < 76:
        tr.ttl.pop(k, None)
        return [b"persist", k]
    if c < 92:
        k2 = pick(r, keys)
        if k in tr.streams or k in tr.other:
            if k2 != k:
                t = tr.ttl.get(k)
                s, o = tr.streams.get(k), k in tr.other
                tr.drop(k2)
                tr.drop(k)
                if s is not None:
                    tr.streams[k2] = s
                if o:
                    tr.other.add(k2)
                if t is not None:
                    tr.ttl[k2] = t
        return [b"rename", k, k2]
    return [b"keys", b"*"]


def malformed(r, tr, keys):
    k = pick(r, keys)
    c = r.randrange(100)
    if c < 40:
        name = pick(r, [b"xadd", b"XADD"])
        tail = [[], [k], [k, b"*"], [k, b"*", b"f"], [k, b"5-1", b"f"], [k, b"nomkstream", b"*"],
                [k, b"nomkstream", b"nomkstream", b"nomkstream", b"nomkstream"],
                [k, b"NOMKSTREAM", b"nomkstream", b"nomkstream", b"nomkstream", b"nomkstream", b"nomkstream"],
                [k, b"maxlen", b"5", b"maxlen", b"3"], [k, b"maxlen", b"~", b"5", b"*"], [k, b"maxlen", b"~", b"~", b"5"],
                [k, b"maxlen", b"5", b"minid"], [k, b"minid", b"~", b"limit", b"5"], [k, b"maxlen", b"=", b"limit", b"limit"],
                [k, b"limit", b"5", b"limit", b"5"], [k, b"maxlen", b"5", b"nomkstream", b"*"],
                [k, b"nomkstream", b"maxlen", b"5", b"*"], [k, b"maxlen", b"5", b"maxlen", b"3", b"*"],
                [k, b"minid", b"=", b"0", b"*"], [k, b"~", b"a", b"b"], [k, b"~", b"~", b"a", b"b"], [k, b"=", b"a", b"b"],
                [k, b"maxlen", b"~", b"a", b"b"], [k, b"minid", b"~", b"a", b"b"], [k, b"maxlen", b"maxlen", b"maxlen", b"maxlen"],
                [k, b"minid", b"minid", b"minid", b"minid"], [k, b"limit", b"limit", b"limit", b"limit"],
                [k, b"a", b"b", b"c", b"d"], [k, b"maxlen", b"1", b"limit", b"1", b"~", b"a", b"b"]]
        return [name] + pick(r, tail)
    if c < 60:
        return [b"xrange"] + pick(r, [[], [k], [k, b"-"], [k, b"+"], [k, b"-", b"+", b"count"], [k, b"5"], [b"", b"", b""]])
    if c < 80:
        # a standalone `~` where the id belongs (looped forever at the pinned commit)
        return [b"xadd", k] + pick(r, [[b"~", b"*", b"a", b"b"], [b"maxlen", b"5", b"~", b"a", b"b"], [b"~", b"5-1", b"a", b"b"]])
    return [pick(r, [b"xlen", b"xdel", b"xtrim", b"xrevrange", b"xread"]), k] + [pick(r, FVALS) for _ in range(r.randrange(0, 3))]


def gen_case(r, name, clock, maxlen=40):
    """-> (Case, clock after the case)"""
    c = Case(name)
    tr = Tracker(clock)
    keys = r.sample(KEYS, r.randrange(1, 4))
    style = r.randrange(10)
    tr.good = pick(r, [0.0, 0.2, 0.5, 0.8])
    if r.random() < 0.15:
        k = keys[-1]
        c.cmd([b"set", k, b"str"])
        tr.other.add(k)
    n = r.randrange(1, maxlen + 1)
    every = r.random() < 0.5
    psleep = [0.0, 0.05, 0.1, 0.3][r.randrange(4)]
    for _ in range(n):
        ms = pick(r, SLEEPS) if r.random() < psleep else 0
        tr.clock += ms
        tr.purge()
        q = r.randrange(100)
        if style == 0:      # bursts of XADD in the same millisecond, then reads
            q = q % 70
        if q < 50:
            cmd = xadd(r, tr, keys)
        elif q < 78:
            cmd = xrange_(r, tr, keys)
        elif q < 93:
            cmd = other_cmd(r, tr, keys)
        else:
            cmd = malformed(r, tr, keys)
        c.cmd(cmd, sleep_ms=ms)
        if every:
            c.dump()
    # always end with a full read of every key and a dump
    for k in keys:
        c.cmd([b"xrange", k, b"-", b"+"])
    c.dump()
    return c, tr.clock


def gen_c18(seed, ncases, maxlen=40):
    r = random.Random(seed)
    clock = T0
    cases = []
    for i in range(ncases):
        c, clock = gen_case(r, "c18_%d_%d" % (seed, i), clock, maxlen)
        cases.append(c)
    return cases
