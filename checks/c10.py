"""C10 — hash commands maintain an exact field-to-value map."""
from . import gen_hash, memlib

PID = "C10"


def make_cases(tier, seed):
    n = 2500 if tier == "quick" else 40000
    return gen_hash.directed() + gen_hash.gen_c10(seed, n)


def run(ctx):
    return memlib.run_family(
        ctx, PID, make_cases,
        rule="11 directed programs (empty value, missing key, HSET counts, int64 edges, float edges, HRANDFIELD count "
             "signs, last field removed, deadlines crossed, WRONGTYPE) + seeded random programs (1-30 commands) of the 14 hash "
             "commands over 2-4 keys; fields/values from {empty, numeric, -0, 007, +5, 2^63+-1, non-numeric, binary with "
             "CR/LF/NUL/0xff, decimals in and outside the exact domain, nan/inf}; HRANDFIELD counts {0, +-1, +-len, "
             "+-(len+3), +-2^40, min64, max64, around the -2^20 limit}; keys of other types; EXPIRE + virtual-clock "
             "sleeps across the deadline; a malformed-arity stream; keyspace dump compared after every step in half of "
             "the programs and at the end of all",
        extra_tb=[
            "HINCRBYFLOAT is computed by the model only on the exact decimal domain of coq/Mem/HashDec.v (plain decimals, "
            "<= 15 digits, dyadic value); outside it (exponent/hex syntax, 0.1, > 15 digits, negative zero) the model follows the "
            "observed reply provided it is an error or a bulk holding a plain decimal: binary rounding of float64 and Go's "
            "strconv float parser/printer are not modelled",
            "HRANDFIELD / map iteration order: acceptor form, the observed reply is accepted iff the reference allows it",
        ],
        assumptions=["float64 addition is exact on dyadic decimals with < 16 significant digits and strconv.FormatFloat('f',-1) "
                     "prints their exact expansion"])
