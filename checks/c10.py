"""C10 — hash commands maintain an exact field-to-value map."""
import collections
import re

from . import gen_hash, memlib

PID = "C10"

_PLAIN = re.compile(rb"^[+-]?(\d+(\.\d*)?|\.\d+)$")
_FLOATCH = re.compile(rb"^[0-9+\-.eExXpP_abcdfABCDF]*$")


def float_class(a):
    """Python replica of HashDec.fclassify, used only to *count* what the run covered."""
    if not re.search(rb"\d", a) or not _FLOATCH.match(a):
        return "must_reject"
    m = _PLAIN.match(a)
    if not m:
        return "must_reject" if re.match(rb"^[0-9+\-.]*$", a) else "outside_domain"
    body = a.lstrip(b"+-")
    ip, _, fp = body.partition(b".")
    digits = (ip + fp) or b"0"
    mag, e = int(digits), len(fp)
    if e <= 15 and mag < 10 ** 15 and mag % (5 ** e) == 0 and not (a.startswith(b"-") and mag == 0):
        return "in_domain"
    return "outside_domain"


def make_cases(tier, seed):
    n = 6000 if tier == "quick" else 100000
    return gen_hash.directed() + gen_hash.gen_c10(seed, n)


def post(ctx, d):
    """Measure, from the trace of the generated programs, how the two hint-driven commands were
    exercised (the comparison itself is done by the model run)."""
    fl = collections.Counter()
    rnd = collections.Counter()
    tr = d / "main.trace"
    if tr.exists():
        for l in tr.read_text().splitlines():
            if not l.startswith("S "):
                continue
            left, _, obs = l.partition("|")
            fs = left.split()[4:]
            if not fs or fs[0] == "-":
                continue
            try:
                args = [bytes.fromhex(h) if h != "-" else b"" for h in fs]
            except ValueError:
                continue
            name = args[0].lower()
            obs = obs.strip()
            kind = "error" if obs.startswith("-") else "bulk" if obs.startswith("$") else "other"
            if name == b"hincrbyfloat" and len(args) == 4:
                fl[float_class(args[3]) + ":" + kind] += 1
            elif name == b"hrandfield" and len(args) in (2, 3, 4):
                if len(args) == 2:
                    rnd["no_count:" + ("nil" if obs == "$nil" else kind)] += 1
                else:
                    try:
                        c = int(args[2])
                        sign = "count>=0" if c >= 0 else "count<0"
                    except ValueError:
                        sign = "count_not_int"
                    n = obs.count("$") if obs.startswith("*[") else -1
                    rnd["%s%s:%s" % (sign, "+withvalues" if len(args) == 4 else "",
                                     "error" if kind == "error" else "empty" if n == 0 else "fields")] += 1
    return None, dict(hincrbyfloat_argument_class_x_reply=dict(fl), hrandfield_form_x_reply=dict(rnd),
                      out_of_domain_note="hincrbyfloat steps whose argument or stored value lies outside the exact decimal "
                                         "domain are checked in acceptor form (error, or a bulk holding a plain decimal that "
                                         "becomes the field value): 'outside_domain' above counts them by argument")


def run(ctx):
    return memlib.run_family(
        ctx, PID, make_cases, wire_every=2,
        rule="11 directed programs (empty value, missing key, HSET counts, int64 edges, float edges, HRANDFIELD count "
             "signs, last field removed, deadlines crossed, WRONGTYPE) + seeded random programs (1-30 commands) of the 14 hash "
             "commands over 2-4 keys; fields/values from {empty, numeric, -0, 007, +5, 2^63+-1, non-numeric, binary with "
             "CR/LF/NUL/0xff, decimals in and outside the exact domain, nan/inf}; HRANDFIELD counts {0, +-1, +-len, "
             "+-(len+3), +-2^40, min64, max64, around the -2^20 limit}; keys of other types; EXPIRE + virtual-clock "
             "sleeps across the deadline; a malformed-arity stream; keyspace dump compared after every step in half of "
             "the programs and at the end of all",
        extra_tb=[
            "HINCRBYFLOAT is computed by the model only on the exact decimal domain of coq/Mem/HashDec.v (plain decimals, "
            "<= 15 digits, dyadic value); outside it (exponent/hex syntax, 0.1, > 15 digits, negative zero) the model follows the "
            "observed reply provided it is an error or a bulk holding a plain decimal: binary rounding of float64 and Go's "
            "strconv float parser/printer are not modelled",
            "HRANDFIELD / map iteration order: acceptor form, the observed reply is accepted iff the reference allows it "
            "(C10_random_member); HGETALL/HKEYS/HVALS are compared as sorted multisets",
        ],
        assumptions=["float64 addition is exact on dyadic decimals with < 16 significant digits and strconv.FormatFloat('f',-1) "
                     "prints their exact expansion"],
        post=post)
