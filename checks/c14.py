"""C14 — cluster mode does not change what a command means (DESIGN.md section 3, C14).

Proof half: coq/Properties/C14.v (encoding of the log entry modelled concretely: base64 + JSON
framing; C14_transparent, C14_same_as_standalone, the refutation of the pinned encoding).

Tie, re-run from VERIF_REPO's working tree on every invocation:
 (E) encoder/decoder: generated argument vectors (every byte value, empty arguments, long
     arguments, hostile JSON/base64 look-alikes) through RaftProposal.ToBytes and the decode of
     publishEntries (hook H3) and through the extracted encode_proposal/decode_proposal: payload
     bytes and decoded vectors must be identical.  The same lines tie the model of the *pinned*
     encoding (used only by the _refuted theorems) to Go's encoding/json + strings.
 (P) programs: the same generated programs (string/key and list commands of checks/gen.py with
     hostile argument bytes; a second stream over every other command family) are run on two
     fresh keyspaces: through Manager.ExecCommand (standalone) and through the real cluster
     request path looped back without Raft (hook H4: HandleCluster -> proposal -> JSON ->
     publishEntries -> handleClusterCommits).  Replies (bytes on the wire; map-ordered replies
     sorted) and keyspace dumps must agree; for the modelled families both traces are replayed
     by the extracted srv_exec; every log entry the implementation produced must be byte for
     byte what encode_proposal gives and decode to the client's argument vector.
 (N) two Managers fed from ONE shared log (hook VerifClusterLoopbackNodes; connection c talks to node
     c%2): rounds of up to four commands, all proposed before any is committed, each client's reply
     compared with the standalone path and the model for its own command; both nodes' dumps equal.
 (R) real node processes -- a standalone server and a three-node cluster on localhost (thorough:
     also a single-node cluster, longer programs) run the same clock-free program, commands sent
     round-robin to the nodes; every reply and the VERIFDUMP of every node are compared."""
import collections
import json
import random
import re

from . import clusterlib, gen, gen_cluster, lib, memlib

PID = "C14"
HB = "harness_cluster_ft"
UNORDERED = clusterlib.UNORDERED_FLAT | {"hgetall"}


def build():
    ok, log = lib.ensure_modelrun()
    if not ok:
        return "modelrun build failed: " + log[-2500:]
    ok, log = lib.ensure_runner("clusterrun", "Extract/ExtractCluster.v", ("clusterutil.ml", "clusterrun.ml"), ("clustermodel",))
    if not ok:
        return "clusterrun build failed: " + log[-2500:]
    ok, log = lib.ensure_harness_ft(HB, srcdir="harness_cluster")
    if not ok:
        return "harness_cluster build failed (does the repository still compile with -tags verif?): " + log[-2500:]
    return None


def defake(text):
    """stdout/stderr of a faketime binary are framed (header, 8 byte time, 4 byte length): drop the frames"""
    return re.sub(r"\x00\x00PB.{1,8}?\x00\x00.{2}", "", text, flags=re.S)


# ----------------------------------------------------------------------------- (E) encoder tie
def enc_tie(d, lines, tag="enc"):
    """Returns (n, first_difference_or_None, err)."""
    cf = d / (tag + ".cases")
    cf.write_text("\n".join(lines) + "\n")
    rc, log = lib.sh("%s encrun %s %s" % (lib.BUILD / HB, cf, d / (tag + ".impl")), cwd=d, timeout=600,
                     extra_env={"GOMAXPROCS": "1"})
    if rc != 0:
        return 0, None, "encrun rc=%s %s" % (rc, log[-1500:])
    rc, log = lib.sh("%s enc %s %s" % (lib.BUILD / "clusterrun", cf, d / (tag + ".model")), cwd=d, timeout=600)
    if rc != 0:
        return 0, None, "clusterrun enc rc=%s %s" % (rc, log[-1500:])
    impl = (d / (tag + ".impl")).read_text().splitlines()
    model = (d / (tag + ".model")).read_text().splitlines()
    if len(impl) != len(lines) or len(model) != len(lines):
        return 0, None, "enc tie: line counts differ (cases=%d impl=%d model=%d)" % (len(lines), len(impl), len(model))
    for cl, a, b in zip(lines, impl, model):
        if a != b:
            fa, fb = [x.strip() for x in a.split("|")], [x.strip() for x in b.split("|")]
            which = "payload" if fa[0] != fb[0] else "decode" if fa[1] != fb[1] else "pinned-encoding-model"
            args = cl.split()[2:]
            return len(lines), dict(kind="encoder-impl-vs-model", which=which, case_line=cl,
                                    args=[repr(bytes.fromhex(h) if h != "-" else b"") for h in args][:8],
                                    impl=dict(payload=fa[0][:400], decoded=fa[1][:400], pinned=fa[2][:400]),
                                    model=dict(payload=fb[0][:400], decoded=fb[1][:400], pinned=fb[2][:400])), None
        # the repaired path must give back the vector it was given
        want = " ".join(cl.split()[1:])
        got = a.split("|")[1].strip()
        if got != want:
            return len(lines), dict(kind="log-entry-alters-command", case_line=cl, decoded=got[:400],
                                    args=[repr(bytes.fromhex(h) if h != "-" else b"") for h in cl.split()[2:]][:8]), None
    return len(lines), None, None


# ----------------------------------------------------------------------------- (P) programs
PROPOSAL_TIMEOUT_MS = "3600000"


def run_mode(d, mode, progtext, tag, timeout=900):
    prog = d / (tag + ".prog")
    out = d / ("%s.%s.trace" % (tag, mode))
    prog.write_text(progtext)
    for f in (out, d / (out.name + ".wire"), d / (out.name + ".entries")):
        if f.exists():
            f.unlink()
    # ProposalTimeout (10 s) is lifted: a blocking pop that waits longer than that is answered with the
    # time-out error in cluster mode (open finding blocking-pop-vs-proposal-timeout); waiting is free
    # under the virtual clock, the harness gives every step 60 s
    rc, log = lib.sh("%s c14run %s %s %s %s" % (lib.BUILD / HB, mode, prog, out, d), cwd=d, timeout=timeout,
                     extra_env={"GOMAXPROCS": "1", "VERIF_PROPOSAL_TIMEOUT_MS": PROPOSAL_TIMEOUT_MS})
    if rc != 0 or not out.exists():
        where = ""
        pf = d / (out.name + ".progress")
        if pf.exists():
            where = pf.read_text().strip()
        return out, "c14run %s rc=%s at=%s log=%s" % (mode, rc, where, defake(log)[-1500:])
    return out, None


def parse_trace(path):
    cases, cur, name = collections.OrderedDict(), None, None
    for l in path.read_text().splitlines():
        if l.startswith("CASE "):
            name = l.split()[1]
            cur = cases.setdefault(name, [])
        elif cur is not None:
            cur.append(l)
    return cases


def parse_wire(path):
    res = collections.defaultdict(list)
    for l in path.read_text().splitlines():
        fs = l.split(" ")
        if fs[0] == "W":
            res[fs[1]].append((fs[3], fs[4] if len(fs) > 4 else ""))
    return res


def cmd_name(sline):
    left = sline.partition("|")[0].split()
    if len(left) > 4 and left[4] != "-":
        try:
            return bytes.fromhex(left[4]).decode("latin-1").lower()
        except ValueError:
            return "?"
    return ""


def aligned_compare(sa, cl, wa, wc):
    """First disagreement between the standalone and the cluster run of one case, or None.
    Compared block-wise (a block ends at an S or DEND line): dumps may differ in length."""
    def blocks(ls):
        res, cur = [], []
        for l in ls:
            cur.append(l)
            if l.startswith("S ") or l.startswith("DEND"):
                res.append(cur)
                cur = []
        return res
    ba, bc = blocks(sa), blocks(cl)
    if len(ba) != len(bc):
        return dict(step=0, what="different number of steps", standalone=len(ba), cluster=len(bc))
    si, skew = 0, False
    for xa, xc in zip(ba, bc):
        a, c = xa[-1], xc[-1]
        if a.startswith("S "):
            la, _, ra = a.partition("|")
            lc, _, rc = c.partition("|")
            if la.split()[3:] != lc.split()[3:]:
                return dict(step=si + 1, what="harness lines out of step")
            if la.split()[1:3] != lc.split()[1:3]:
                skew = True
            if not skew:
                if ra.strip() != rc.strip():
                    return dict(step=si + 1, what="reply", standalone=ra.strip()[:300], cluster=rc.strip()[:300])
                name = cmd_name(a)
                if name not in UNORDERED and si < len(wa) and si < len(wc) and wa[si][1] != wc[si][1]:
                    return dict(step=si + 1, what="reply bytes on the wire", standalone=wa[si][1][:300], cluster=wc[si][1][:300])
            si += 1
        else:
            da, dc = sorted(xa[:-1]), sorted(xc[:-1])
            if not skew and (da != dc or a != c):
                return dict(step=si, what="keyspace dump", standalone_only=sorted(set(da) - set(dc))[:2],
                            cluster_only=sorted(set(dc) - set(da))[:2])
    return None


def truncate_panics(progtext, trace_cases):
    """Programs on which the standalone executor itself panics (a C04 matter) are cut before that
    step: a panic in the apply loop cannot be recovered, in the harness as in the server."""
    out, ncut = [], 0
    for case in memlib.split_cases(progtext):
        name = memlib.case_name(case)
        tl = trace_cases.get(name, [])
        k = None
        si = 0
        for l in tl:
            if l.startswith("S "):
                si += 1
                if l.rstrip().endswith(("!PANIC", "!HANG")):
                    k = si
                    break
        if k is None:
            out.append(case)
            continue
        ncut += 1
        keep, ci = [case[0]], 0
        for l in case[1:-1]:
            if l.startswith("C "):
                ci += 1
                if ci >= k:
                    break
            keep.append(l)
        out.append(keep + ["DUMP", "END"])
    return "".join("\n".join(c) + "\n" for c in out), ncut


def model_mismatches(d, trace, tag):
    ver = d / (tag + ".verdict")
    rc, log = lib.sh("%s mem %s %s" % (lib.BUILD / "modelrun", trace, ver), cwd=d, timeout=900)
    if rc != 0 or not ver.exists():
        return None, "modelrun rc=%s %s" % (rc, log[-1200:])
    return memlib.mismatching(ver.read_text().splitlines()), None


def entries_verdict(d, entries, tag):
    ver = d / (tag + ".entverdict")
    rc, log = lib.sh("%s entries %s %s" % (lib.BUILD / "clusterrun", entries, ver), cwd=d, timeout=900)
    if rc != 0 or not ver.exists():
        return None, 0, "clusterrun entries rc=%s %s" % (rc, log[-1200:])
    bad, n = [], 0
    for l in ver.read_text().splitlines():
        if l.startswith("BAD "):
            bad.append(l)
        m = re.match(r"SUMMARY entries=(\d+)", l)
        if m:
            n = int(m.group(1))
    return bad, n, None


REFUSAL = b"-command does not pass checks\r\n".hex()


def check_routing(d, progtext, tag):
    """Cluster path only: which commands are refused / executed locally / proposed must be what
    cluster_filter and is_rconf of the model say (C14_filter_refuses_only_pubsub), a refused
    command is answered with the refusal and leaves the keyspace alone."""
    res = dict(failing=None, err=None, steps=0, cases=0, entries=0, cut=0, trace="")
    tc, err = run_mode(d, "cluster", progtext, tag)
    allc = {memlib.case_name(c): c for c in memlib.split_cases(progtext)}
    res["cases"] = len(allc)
    if err:
        m = re.search(r"at=(\S+) (\d+)", err)
        res["failing"] = dict(kind="cluster-path-died", detail=err, case=allc.get(m.group(1)) if m else None)
        return res
    rf = d / (tag + ".route")
    rc, log = lib.sh("%s route %s %s" % (lib.BUILD / "clusterrun", tc, rf), cwd=d, timeout=600)
    if rc != 0:
        res["err"] = "clusterrun route rc=%s %s" % (rc, log[-800:])
        return res
    res["trace"] = tc.read_text()
    proposed = set()
    for l in (d / (tc.name + ".entries")).read_text().splitlines():
        fs = l.split()
        proposed.add((fs[1], int(fs[2])))
    wires = parse_wire(d / (tc.name + ".wire"))
    name, si = None, 0
    for l in rf.read_text().splitlines():
        if l.startswith("CASE "):
            name, si = l.split()[1], 0
            continue
        si += 1
        res["steps"] += 1
        w = wires[name][si - 1][1]
        obs = "P" if (name, si) in proposed else "R" if w == REFUSAL else "L"
        if obs != l.strip():
            res["failing"] = dict(kind="cluster-routing-vs-model", case=allc[name],
                                  detail=dict(step=si, model=l.strip(), implementation=obs, reply=w[:200],
                                              legend="R refused by the filter, L executed locally (rconf), P proposed to the log"))
            return res
    return res


def case_has_nondet(case_lines):
    for l in case_lines:
        fs = l.split()
        if fs and fs[0] == "C" and len(fs) > 3 and fs[3] != "-":
            try:
                if bytes.fromhex(fs[3]).lower() in gen_cluster.NONDET:
                    return True
            except ValueError:
                pass
    return False


def check_programs(d, progtext, tag, with_model, cluster_mode="cluster"):
    """Runs one program file through both paths (and the model). Returns dict(failing=..., stats...).
    cluster_mode "clusterpar": several connections, the proposals of a round all pending before any
    is committed."""
    res = dict(failing=None, err=None, steps=0, cases=0, entries=0, cut=0, trace="", model_skipped=0, nondet_cases=0)
    t1, err = run_mode(d, "standalone", progtext, tag + "_pre")
    if err:
        res["err"] = err
        return res
    progtext2, res["cut"] = truncate_panics(progtext, parse_trace(t1))
    ta, err = run_mode(d, "standalone", progtext2, tag)
    if err:
        res["err"] = err
        return res
    tc, err = run_mode(d, cluster_mode, progtext2, tag)
    allc = {memlib.case_name(c): c for c in memlib.split_cases(progtext2)}
    res["cases"] = len(allc)
    if err:
        m = re.search(r"at=(\S+) (\d+)", err)
        cl = allc.get(m.group(1)) if m else None
        res["failing"] = dict(kind="cluster-path-died", detail=err, case=cl,
                              note="the standalone path answers every step of this program; the cluster request path took the process down"
                                   + (" (proposals of one round were pending together before being committed)" if cluster_mode == "clusterpar" else ""))
        return res
    ca, cc = parse_trace(ta), parse_trace(tc)
    wa, wc = parse_wire(d / (ta.name + ".wire")), parse_wire(d / (tc.name + ".wire"))
    res["trace"] = tc.read_text()
    res["steps"] = sum(1 for l in res["trace"].splitlines() if l.startswith("S "))
    nondet = set()
    for name, sa in ca.items():
        if case_has_nondet(allc[name]):
            # SPOP/SRANDMEMBER/HRANDFIELD draw differently on the two keyspaces: such a case is judged
            # by the model (acceptor form) on each path, not by comparing the paths
            nondet.add(name)
            continue
        diff = aligned_compare(sa, cc.get(name, []), wa.get(name, []), wc.get(name, []))
        if diff:
            res["failing"] = dict(kind="cluster-vs-standalone", detail=diff, case=allc[name])
            if cluster_mode == "clusternodes":
                res["failing"]["note"] = ("two nodes (connection c talks to node c%2) share one log; the commands of a round, one per connection on "
                                          "keys of its own, are all proposed before any is committed; every client must get the reply to its OWN "
                                          "command (C14_reply_routed_by_origin): here a client was answered with something else")
            if cluster_mode == "clusterpar":
                res["failing"]["note"] = ("each round's commands (one per connection, disjoint keys) were all proposed before any was committed; "
                                          "the entry applied for a proposal must still be that proposal (C14_log_carries_unaltered)")
            return res
    res["nondet_cases"] = len(nondet)
    if cluster_mode == "clusternodes":
        # the second node applied the same log: its dumps must be those of the first
        c2 = parse_trace(d / (tc.name + ".node2"))
        for name, lines in cc.items():
            d1 = [l for l in lines if l.startswith("D ") or l.startswith("DEND")]
            d2 = [l for l in c2.get(name, []) if l.startswith("D ") or l.startswith("DEND")]
            if d1 != d2 and name not in nondet:
                res["failing"] = dict(kind="nodes-of-one-log-hold-different-keyspaces", case=allc[name],
                                      node1_only=[l[:160] for l in sorted(set(d1) - set(d2))[:3]],
                                      node2_only=[l[:160] for l in sorted(set(d2) - set(d1))[:3]])
                return res
    bad, n, err = entries_verdict(d, d / (tc.name + ".entries"), tag)
    res["entries"] = n
    if err:
        res["err"] = err
        return res
    if bad:
        fs = bad[0].split(" ", 3)
        res["failing"] = dict(kind="log-entry-vs-model", detail=bad[0][:600], case=allc.get(fs[1]),
                              note="the payload the implementation wrote into the log is not encode_proposal(args,id), or does not decode to the client's argument vector")
        return res
    if with_model:
        mma, err = model_mismatches(d, ta, tag + "_standalone")
        if err:
            res["err"] = err
            return res
        mmc, err = model_mismatches(d, tc, tag + "_cluster")
        if err:
            res["err"] = err
            return res
        # a program on which the STANDALONE path already disagrees with the model is a matter of that
        # command family's own property (C01, C09-C12, C18), not of C14: counted, not reported here
        res["model_skipped"] = len(mma)
        only_cluster = sorted(set(mmc) - set(mma))
        if only_cluster:
            name = only_cluster[0]
            res["failing"] = dict(kind="cluster-path-vs-model", detail=mmc[name], case=allc.get(name), n_mismatching=len(only_cluster),
                                  note="the standalone path agrees with the extracted model on this program, the cluster path does not")
            return res
    return res


def shrink(d, lines, with_model, budget=120, fn=None):
    fn = fn or (lambda t, tag: check_programs(d, t, tag, with_model))

    def bad(ls):
        r = fn("\n".join(ls) + "\n", "shrink")
        return bool(r["failing"] or r["err"])
    head, body, tail = lines[0], lines[1:-1], lines[-1]
    n, chunk = 0, max(1, len(body) // 2)
    while n < budget:
        i = 0
        while i < len(body) and n < budget:
            cand = body[:i] + body[i + chunk:]
            n += 1
            if bad([head] + cand + [tail]):
                body = cand
            else:
                i += chunk
        if chunk == 1:
            break
        chunk //= 2
    return [head] + body + [tail]


def hostile_stats(trace_text):
    n = collections.Counter()
    for l in trace_text.splitlines():
        if not l.startswith("S "):
            continue
        for h in l.partition("|")[0].split()[5:]:
            b = b"" if h == "-" else bytes.fromhex(h)
            if not b:
                n["empty"] += 1
            if b" " in b:
                n["space"] += 1
            if b"\r" in b or b"\n" in b:
                n["crlf"] += 1
            try:
                b.decode("utf-8")
            except UnicodeDecodeError:
                n["non_utf8"] += 1
        name = l.partition("|")[0].split()[4:5]
        if name and name[0] != "-":
            nb = bytes.fromhex(name[0])
            if nb != nb.lower():
                n["upper_case_name"] += 1
    return dict(n)


def sanitize_program(d, prog, rounds=60):
    """Real processes cannot recover a panicking executor: drop, one by one, the steps on which the
    in-process standalone run panics or hangs (defects of the command families themselves, C04)."""
    prog = list(prog)
    for _ in range(rounds):
        c = gen.Case("sanitize")
        for cmd in prog:
            c.cmd(cmd)
        t, err = run_mode(d, "standalone", c.text(), "sanitize")
        if err:
            return None, err
        bad = None
        si = 0
        for l in t.read_text().splitlines():
            if l.startswith("S "):
                if l.rstrip().endswith(("!PANIC", "!HANG", "!SKIP")):
                    bad = si
                    break
                si += 1
        if bad is None:
            return prog, None
        del prog[bad]
    return None, "program still panics after %d removals" % rounds


# ----------------------------------------------------------------------------- thorough: processes
def run_processes(ctx, prog, sizes=(1, 3)):
    """The same clock-free program on a real standalone server and on real clusters of 1 and 3
    nodes; every reply and the final VERIFDUMP of every node are compared.
    Returns (failing-or-None, err-or-None, stats)."""
    ok, log, binary = clusterlib.build_server()
    if not ok:
        return None, "server build failed: " + log[-1500:], {}
    stats = dict(process_steps=0)
    # standalone server process
    import subprocess
    sd = lib.scratch("verif-c14sa-")
    sdl = sd.parent / sd.name.lower()
    if sdl != sd:
        sd.rename(sdl)
        lib._scratch_dirs.append(str(sdl))
    port = clusterlib.free_ports(1)[0]
    (sdl / "log").mkdir()
    (sdl / "redis.conf").write_text("host 127.0.0.1\nport %d\nlogdir %s\nloglevel error\nshardnum 16\ndatabases 1\n" % (port, sdl / "log"))
    outf = open(sdl / "out.txt", "wb")
    sp = subprocess.Popen([str(binary), "--config=./redis.conf"], cwd=sdl, stdout=outf, stderr=subprocess.STDOUT, stdin=subprocess.DEVNULL)
    clusters = []
    try:
        import time
        ref = None
        for _ in range(80):
            try:
                ref = clusterlib.Client(port, timeout=10)
                break
            except OSError:
                time.sleep(0.1)
        if ref is None:
            return None, "standalone server did not start", stats
        expected = []
        for cmd in prog:
            name = cmd[0].decode("latin-1").lower() if cmd else ""
            expected.append(clusterlib.canon_for_cmd(name, ref.cmd(cmd)))
        ref_dump = ref.cmd([b"verifdump"])
        ref_dump = sorted(clusterlib.split_top(ref_dump[2:-1])[1:])
        for n in sizes:
            c = clusterlib.Cluster(binary, n, tag="c14p%d" % n)
            clusters.append(c)
            c.start_all()
            err = c.wait_ready()
            if err:
                return None, "cluster of %d: %s" % (n, err), stats
            conns = [c.client(i) for i in range(n)]
            for si, cmd in enumerate(prog):
                name = cmd[0].decode("latin-1").lower() if cmd else ""
                k = si % n
                try:
                    got = clusterlib.canon_for_cmd(name, conns[k].cmd(cmd))
                except Exception as e:   # noqa: BLE001
                    got = "!%r crash=%s" % (e, c.crash_reason(k))
                stats["process_steps"] += 1
                if got != expected[si]:
                    return dict(kind="real-cluster-vs-real-standalone", nodes=n, step=si + 1, via_node=k + 1,
                                command=[repr(a) for a in cmd], standalone=expected[si][:300], cluster=got[:300],
                                program=[[a.hex() for a in x] for x in prog[:si + 1]]), None, stats
            for i in range(n):
                dmp = conns[i].cmd([b"verifdump"])
                dmp = sorted(clusterlib.split_top(dmp[2:-1])[1:])
                if dmp != ref_dump:
                    return dict(kind="real-cluster-keyspace-vs-real-standalone", nodes=n, node=i + 1,
                                standalone_only=[bytes.fromhex(x[1:]).decode("latin-1") for x in sorted(set(ref_dump) - set(dmp))[:3]],
                                cluster_only=[bytes.fromhex(x[1:]).decode("latin-1") for x in sorted(set(dmp) - set(ref_dump))[:3]],
                                program=[[a.hex() for a in x] for x in prog]), None, stats
            for k in conns:
                k.close()
            c.close()
        return None, None, stats
    finally:
        sp.kill()
        sp.wait()
        outf.close()
        for c in clusters:
            c.close()


# ----------------------------------------------------------------------------- concurrent clients
def run_concurrent(ctx, d, seed, nclients, nops, nodes=1):
    """Several clients at once on real node(s), each on its own keys, so that a node has several
    proposals in flight (encoded, handed to Raft, not yet applied).  Every reply and the final
    keyspace must be those of running each client's commands on a standalone Manager (any
    interleaving gives the same per-client replies: the keys are disjoint); that reference run is
    itself replayed by the extracted model.  Returns (failing, err, stats)."""
    import threading
    stats = dict(concurrent_steps=0)
    progs = gen_cluster.gen_concurrent_clients(seed, nclients, nops)
    ref = gen.Case("c14conc_%d" % seed)
    for cl, p in enumerate(progs):
        for cmd in p:
            ref.cmd(cmd, conn=cl)
    ref.dump()
    t, err = run_mode(d, "standalone", ref.text(), "concref")
    if err:
        return None, err, stats
    mm, err = model_mismatches(d, t, "concref")
    if err or mm:
        return None, err or "reference run of the concurrent-clients program disagrees with the model: %s" % mm, stats
    exp_lines = [l.partition("|")[2].strip() for l in t.read_text().splitlines() if l.startswith("S ")]
    exp_dump = sorted(l.split(" ", 2)[2] for l in t.read_text().splitlines() if l.startswith("D "))
    expected, k = [], 0
    for p in progs:
        expected.append(exp_lines[k:k + len(p)])
        k += len(p)
    ok, log, binary = clusterlib.build_server()
    if not ok:
        return None, "server build failed: " + log[-1500:], stats
    wl = dict(seed=seed, clients=nclients, ops_per_client=nops, nodes=nodes)
    cluster = clusterlib.Cluster(binary, nodes, tag="c14cc", env={"VERIF_PROPOSAL_TIMEOUT_MS": "4000"})
    try:
        cluster.start_all()
        e = cluster.wait_ready()
        if e:
            return None, "cluster start-up: " + e, stats
        got = [[] for _ in progs]
        errs = [None] * len(progs)

        def client(cl):
            try:
                c = cluster.client(cl % nodes, timeout=20.0)
                for cmd in progs[cl]:
                    got[cl].append(clusterlib.canon_for_cmd(cmd[0].decode("latin-1").lower(), c.cmd(cmd)))
                c.close()
            except Exception as ex:   # noqa: BLE001
                errs[cl] = repr(ex)
        ths = [threading.Thread(target=client, args=(cl,)) for cl in range(len(progs))]
        for th in ths:
            th.start()
        for th in ths:
            th.join(120)
        stats["concurrent_steps"] = sum(len(g) for g in got)
        for i in range(nodes):
            if not cluster.alive(i):
                return dict(kind="node-down-under-concurrent-clients", node=i + 1, concurrent=wl,
                            reason=(cluster.crash_reason(i) or cluster.output(i, 1500))[:1500],
                            note="several proposals were in flight on this node; a standalone server runs the same commands without dying"), None, stats
        for cl, p in enumerate(progs):
            for si, cmd in enumerate(p):
                g = got[cl][si] if si < len(got[cl]) else "<no reply: %s>" % errs[cl]
                if g != expected[cl][si]:
                    return dict(kind="concurrent-clients-vs-standalone", client=cl, step=si + 1, via_node=cl % nodes + 1,
                                command=[repr(a) for a in cmd], standalone=expected[cl][si][:300], cluster=g[:300], concurrent=wl,
                                client_program=[" ".join(repr(a)[1:] for a in c) for c in p[:si + 1]][-8:],
                                note="the client works on keys nobody else touches; with its commands alone a standalone server gives the "
                                     "reply shown, the cluster node gave another one while other clients' proposals were in flight"), None, stats
        for i in range(nodes):
            c = cluster.client(i, timeout=20.0)
            dmp = c.cmd([b"verifdump"])
            c.close()
            have = sorted(bytes.fromhex(x[1:]).decode("latin-1") for x in clusterlib.split_top(dmp[2:-1])[1:]) if dmp.startswith("*[") else [dmp]
            if have != exp_dump:
                return dict(kind="concurrent-clients-keyspace-vs-standalone", node=i + 1, concurrent=wl,
                            standalone_only=sorted(set(exp_dump) - set(have))[:4], cluster_only=sorted(set(have) - set(exp_dump))[:4]), None, stats
        return None, None, stats
    finally:
        cluster.close()


# ----------------------------------------------------------------------------- driver
def run(ctx):
    try:    # the extracted model recurses once per reply element (SRANDMEMBER with a huge negative count)
        import resource
        soft, hard = resource.getrlimit(resource.RLIMIT_STACK)
        resource.setrlimit(resource.RLIMIT_STACK, (hard, hard))
    except (ValueError, OSError, ImportError):
        pass
    cov, broken = lib.proof_gate(ctx, extra_tb=[
        "modelled, not verified: encoding/json + encoding/base64 (re-stated concretely in Cluster/ClusterEnc.v as encode_proposal/decode_proposal; the decoder covers the image of the encoder only); tie = byte-for-byte comparison with RaftProposal.ToBytes and the publishEntries decode on every run",
        "hooks H3/H4 (raftexample/verif_hooks.go, server/verif_hooks.go, tag verif): wiring only (channels, net.Pipe); the filter, the proposal construction, the JSON encode/decode, the apply loop are the server's own functions",
        "harness_cluster/*.go, ml/clusterrun.ml, checks/clusterlib.py: trusted glue",
        "Raft delivers the entry bytes unaltered and in one order to every node: imported (C15, C16)",
    ])
    berr = build()
    d = lib.scratch("c14-")
    if ctx.replay:
        r = json.load(open(ctx.replay))
        if berr:
            print(berr)
            return 1
        if r.get("case_line"):
            n, diff, err = enc_tie(d, [r["case_line"]], "replay")
            print(json.dumps(diff or err or "encoder agrees with the model on this vector", indent=1))
            return 1 if (diff or err) else 0
        if r.get("case_lines"):
            text = "\n".join(r["case_lines"]) + "\n"
            wm = r.get("with_model", True)
            res = check_routing(d, text, "replay") if wm is None else \
                check_programs(d, text, "replay", True, cluster_mode="clusterpar") if wm == "par" else \
                check_programs(d, text, "replay", True, cluster_mode="clusternodes") if wm == "nodes" else check_programs(d, text, "replay", wm)
            print(res["trace"][-3000:])
            print(json.dumps(dict(failing=res["failing"], err=res["err"]), indent=1, default=str))
            return 1 if (res["failing"] or res["err"]) else 0
        if r.get("concurrent"):
            w = r["concurrent"]
            f, err, _ = run_concurrent(ctx, d, w["seed"], w["clients"], w["ops_per_client"], w.get("nodes", 1))
            print(json.dumps(f or err or "concurrent clients agree with standalone", indent=1, default=str))
            return 1 if (f or err) else 0
        if r.get("program"):
            f, err, _ = run_processes(ctx, [[bytes.fromhex(a) for a in x] for x in r["program"]])
            print(json.dumps(f or err or "real processes agree", indent=1, default=str))
            return 1 if (f or err) else 0
        print("nothing to replay in this file")
        return 1
    failing, err = None, berr
    stats = dict(enc=0, steps=0, cases=0, entries=0, cut=0)
    shapes, hostile, samples = set(), collections.Counter(), []
    quick = ctx.tier == "quick"
    if not err:
        n, diff, err = enc_tie(d, gen_cluster.gen_enc_cases(ctx.seed, 1500 if quick else 30000))
        stats["enc"] = n
        if diff:
            failing = diff
    if not err and not failing:
        from . import gen_hash, gen_set, gen_stream, gen_zset
        nf = 80 if quick else 1200
        r0 = random.Random(ctx.seed)
        zs = gen_zset.gen_c12(ctx.seed, "quick")
        fam = (gen_hash.directed() + gen_hash.gen_c10(ctx.seed, nf) + gen_set.directed() + gen_set.gen_c11(ctx.seed, nf)
               + (r0.sample(zs, min(len(zs), nf))) + gen_stream.gen_c18(ctx.seed, nf))
        def modest(case):
            # SRANDMEMBER/HRANDFIELD with a count of a million legitimately answer with a million elements:
            # that is C11's business and costs this check most of a minute
            for l in case.lines:
                for h in l.split()[3:]:
                    if 6 <= len(h) <= 40 and h != "-":
                        try:
                            if abs(int(bytes.fromhex(h))) > 50000:
                                return False
                        except ValueError:
                            pass
            return True
        fam = [c for c in fam if modest(c)]
        plan = [("a", gen_cluster.gen_c14_alias_cases(ctx.seed, 60 if quick else 4000), True),
                ("p", gen_cluster.gen_c14_par_cases(ctx.seed, 150 if quick else 5000), "par"),
                ("n", gen_cluster.gen_c14_par_cases(ctx.seed + 7, 150 if quick else 5000), "nodes"),
                ("m", gen_cluster.gen_c14_model_cases(ctx.seed, 300 if quick else 8000), True),
                ("w", gen_cluster.gen_c14_wire_cases(ctx.seed, 200 if quick else 5000), True),
                ("fam", fam, True)]
        cdir = lib.VERIF / "corpus"
        for f in sorted(cdir.glob("c14_*.prog")):
            plan.insert(0, ("corpus_" + f.stem, f.read_text(), True))
        plan.append(("f", gen_cluster.gen_c14_filter_cases(ctx.seed, 150 if quick else 2000), None))
        for tag, cases, with_model in plan:
            text = cases if isinstance(cases, str) else "".join(c.text() for c in cases)
            if with_model is None:
                fn = lambda t, tg: check_routing(d, t, tg)
            elif with_model == "par":
                fn = lambda t, tg: check_programs(d, t, tg, True, cluster_mode="clusterpar")
            elif with_model == "nodes":
                fn = lambda t, tg: check_programs(d, t, tg, True, cluster_mode="clusternodes")
            else:
                fn = lambda t, tg, wm=with_model: check_programs(d, t, tg, wm)
            res = fn(text, tag)
            stats["steps"] += res["steps"]
            stats["cases"] += res["cases"]
            stats["entries"] += res["entries"]
            stats["cut"] += res["cut"]
            stats["model_skipped"] = stats.get("model_skipped", 0) + res.get("model_skipped", 0)
            stats["nondet_cases"] = stats.get("nondet_cases", 0) + res.get("nondet_cases", 0)
            if with_model == "par":
                stats["par_steps"] = stats.get("par_steps", 0) + res["steps"]
            if with_model == "nodes":
                stats["nodes_steps"] = stats.get("nodes_steps", 0) + res["steps"]
            st = memlib.stats(res["trace"])
            shapes |= st[3]
            hostile.update(hostile_stats(res["trace"]))
            if not samples and res["trace"]:
                samples = [l[:160] for l in res["trace"].splitlines() if l.startswith("S ")][:6]
            if res["err"] and not err:
                err = res["err"]
            if res["failing"] and not failing:
                failing = res["failing"]
                failing["with_model"] = with_model
                failing["source"] = tag
                case = failing.pop("case", None)
                if case:
                    small = shrink(d, case, with_model, fn=fn)
                    final = fn("\n".join(small) + "\n", "final")
                    failing.update(case_lines=small, readable=memlib.decode_case(small),
                                   shrunk_verdict=final["failing"] and {k: v for k, v in final["failing"].items() if k != "case"},
                                   trace_tail=final["trace"].splitlines()[-12:])
            if failing or err:
                break
    pstats = {}
    if not err and not failing:
        if quick:
            prog = gen_cluster.gen_process_program(ctx.seed, 300, fam="sl") + gen_cluster.gen_process_program(ctx.seed + 1, 100, fam="o")
        else:
            prog = gen_cluster.gen_process_program(ctx.seed, 3000, fam="sl") + gen_cluster.gen_process_program(ctx.seed + 1, 1000, fam="o")
        # only steps the standalone executor answers without panicking are sent to real nodes
        prog, perr = sanitize_program(d, [c for c in prog if c])
        if prog:
            f, perr, pstats = run_processes(ctx, prog, sizes=(3,) if quick else (1, 3))
            if f:
                failing = f
        err = err or perr
    cstats = {}
    if not err and not failing:
        for nodes, ncl, nops in ([(1, 6, 40)] if quick else [(1, 8, 200), (3, 12, 150), (1, 16, 60)]):
            f, cerr, cs = None, None, {}
            for attempt in range(2):
                f, cerr, cs = run_concurrent(ctx, d, ctx.seed + nodes, ncl, nops, nodes)
                if not (cerr and cerr.startswith("cluster start-up")):
                    break
            cstats["concurrent_steps"] = cstats.get("concurrent_steps", 0) + cs.get("concurrent_steps", 0)
            if f:
                failing = f
                break
            if cerr:
                err = cerr
                break
    rc = 0
    if failing:
        failing["note"] = failing.get("note") or (
            "C14_same_as_standalone says the cluster path gives exactly the standalone reply and keyspace; the implementation "
            "built from the working tree disagrees on this input")
        lib.violation(PID, failing)
        ctx.violations += 1
        rc = 1
    elif broken or err:
        lib.violation(PID, dict(kind="tie-broken", what=broken or err), found_input=False)
        ctx.violations += 1
        rc = 1
    for kf in lib.known_findings(PID):
        if kf["kind"] == "open":
            print("KNOWN-FINDING: property=%s %s %s" % (PID, kf["id"], kf["text"]))
    cov.update(dict(
        evaluations=stats["enc"] + 2 * stats["steps"] + stats["entries"] + pstats.get("process_steps", 0) + cstats.get("concurrent_steps", 0),
        encoder_vectors=stats["enc"], program_steps_each_path=stats["steps"], programs=stats["cases"],
        log_entries_checked=stats["entries"], programs_cut_before_a_standalone_panic=stats["cut"],
        process_level_steps=pstats.get("process_steps", 0),
        concurrent_client_steps_on_real_nodes=cstats.get("concurrent_steps", 0),
        steps_with_pending_proposals_loopback=stats.get("par_steps", 0),
        steps_on_two_nodes_sharing_one_log=stats.get("nodes_steps", 0),
        programs_left_to_their_family_property=stats.get("model_skipped", 0), programs_with_random_draws_judged_by_model_only=stats.get("nondet_cases", 0),
        distinct_nontrivial=len(shapes),
        rule="encoder: the empty vector, every single byte value, base64 padding lengths 0-8 for six byte values, a fixed list of hostile "
             "arguments (spaces, CR/LF, invalid and borderline UTF-8, JSON/base64 look-alikes, all 256 bytes, 1000-6000 byte arguments) and "
             "seeded random vectors of 0-12 arguments; programs: checks/gen.py string/key and list command streams (1-25 commands) plus a stream "
             "over set/hash/sorted-set/stream/member/select/unknown/empty commands, each argument replaced or extended by hostile bytes with "
             "probability 0.25-0.35, letter case of names and option words flipped at random; distinct_nontrivial = distinct (command name, arity, "
             "reply kind) triples observed on the cluster path",
        hostile_arguments_seen=dict(hostile), samples=samples or ["(none)"],
        correspondence="RaftProposal.ToBytes / publishEntries decode vs extracted encode_proposal / decode_proposal (byte-identical); "
                       "Manager.ExecCommand vs HandleCluster->proposal->JSON->publishEntries->handleClusterCommits (hook H4) on two fresh keyspaces: "
                       "wire replies and VerifDump dumps; both traces vs extracted srv_exec for the modelled families",
    ))
    lib.write_evidence(PID, ctx.tier, ctx.seed, cov,
                       ["Go runtime, encoding/json, encoding/base64", "extraction + OCaml compiler",
                        "Raft transports entry payloads unaltered (C15/C16)",
                        "PUBLISH/SUBSCRIBE are refused in cluster mode by design (C14_filter_refuses_only_pubsub): outside the claim"],
                       ctx.wall(), ctx.violations)
    return rc
