"""C09 — list commands preserve order, multiplicity and length exactly.

Proof half: coq/Properties/C09.v (15 theorems about the model coq/Mem/Lists.v against the
reference clauses coq/Mem/ListsSpec.v).  Tie: the shared keyspace pipeline (checks/memlib.py):
generated programs -> real server.Manager under Go's virtual clock -> trace -> the extracted
model replays every step and compares every reply, every canonical keyspace dump (with the H1
forward/backward/Len self-check of every stored list, after every step) and, for the blocking
forms, the instant at which the command returned (T lines) and the replies of the commands a
second connection issued meanwhile (BG directive / G lines)."""
import os

from . import gen_list, memlib

PID = "C09"

# a step still blocked after this many virtual ms is cancelled by the harness and traced as
# !BLOCKED (BLPOP with timeout 0 and nothing to pop); not a multiple of 100 (never on a tick)
WATCHDOG_MS = "20050"


def make_cases(tier, seed):
    quick = tier == "quick"
    cases = []
    cases += gen_list.regress()
    cases += gen_list.gen_boundary(seed, full=not quick)
    cases += gen_list.gen_exhaustive(2 if quick else 3)
    cases += gen_list.gen_ttl(seed, 2000 if quick else 20000)
    cases += gen_list.gen_blocking(seed, 2000 if quick else 20000)
    cases += gen_list.gen_two_poppers(seed, 1500 if quick else 15000)
    cases += gen_list.gen_random(seed, 8000 if quick else 100000)
    return cases


RULE = ("regression programs; systematic boundary sweeps (every index pair for LRANGE/LTRIM, every index for LINDEX/LSET, "
        "every count for LPOP/RPOP/LREM around lengths 0-5 incl. min/max int64 and non-integers, every LPOS RANK/COUNT/MAXLEN "
        "combination in random order and letter case, LMOVE in all four direction pairs x same/other/missing/wrong-typed "
        "destination with deadlines; quick tier: seeded sample, thorough: all); bounded-exhaustive: all programs of length <= 2 "
        "(quick) / <= 3 (thorough) over a 24-command alphabet on 2 keys; TTL interplay (EXPIRE on a list, pushes/pops/blocking "
        "pops across the deadline); blocking forms with a second connection acting at chosen virtual instants (BG directive), "
        "timeout 0 incl. the watchdog path; two or three connections blocked at once with tickers out of phase and a pusher (multi-popper replay, Mem/ListsMulti.v); seeded random programs (1-30 commands, 2-4 keys, duplicate/empty/binary elements, "
        "keys holding strings, malformed arity); a keyspace dump with the H1 list self-check follows every step")


def run(ctx):
    os.environ["VERIF_WATCHDOG_MS"] = WATCHDOG_MS
    return memlib.run_family(
        ctx, PID, make_cases, wire_every=2, rule=RULE,
        extra_tb=[
            "pointer linkage of memdb.List (Head/Tail/Prev/Next) is not modelled: checked at run time by hook H1 "
            "(forward walk = reverse of backward walk, both = Len) in every dump, i.e. after every step",
            "BLPOP/BRPOP: goroutine scheduling and Go's select are modelled as a polling process over virtual time "
            "(ticks every 100 ms, timer); instants where a tick coincides with the timer or with another connection's "
            "command are avoided by the generators (either order is legitimate there)",
            "reference clauses (coq/Mem/ListsSpec.v) transcribed from memory of the Redis command reference; "
            "LPOP/RPOP count 0: empty array / nil for a missing key (Redis >= 6.2/7.0), no latitude",
        ],
        assumptions=["harness/mem.go BG directive, T/G/WD trace lines and the per-step watchdog; ml/memrun.ml replays them "
                     "through extracted srv_exec_bg (coq/Mem/ListsBg.v)"],
        extra_cov=dict(watchdog_ms=int(WATCHDOG_MS)))
