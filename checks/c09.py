"""C09 — list commands preserve order, multiplicity and length exactly."""
from . import gen, memlib

PID = "C09"


def make_cases(tier, seed):
    n = 400 if tier == "quick" else 6000
    return gen.gen_c09(seed, n)


def run(ctx):
    return memlib.run_family(ctx, PID, make_cases,
                             rule="seeded random programs (1-30 commands) of list commands over 2-5 keys with duplicate/empty/binary elements, boundary indexes and counts, a malformed-arity stream, some keys pre-populated with a string")
