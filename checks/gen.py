"""Program generators for the in-process command harness (one PRNG, seeded by VERIF_SEED)."""
import random


def hx(b):
    if isinstance(b, str):
        b = b.encode("latin-1")
    return b.hex() if b else "-"


class Case:
    # wire: the harness gives the executors this case's commands in the shape the server's own parser
    # produces (RESP-encoded, decoded by resp.ParseStream + ToCommand: make(bulkLen+2) buffers whose spare
    # bytes hold CRLF) instead of exact-capacity slices (harness memrun: 4th field of the CASE line)
    wire = False

    def __init__(self, name, dbs=1):
        self.name, self.dbs, self.lines = name, dbs, []
        self.nsteps = 0

    def cmd(self, args, conn=0, sleep_ms=0):
        self.lines.append("C %d %d %s" % (conn, sleep_ms, " ".join(hx(a) for a in args)))
        self.nsteps += 1

    def dump(self):
        self.lines.append("DUMP")

    def text(self):
        return "CASE %s %d%s\n%s\nEND\n" % (self.name, self.dbs, " wire" if self.wire else "", "\n".join(self.lines))


def write_prog(path, cases):
    with open(path, "w") as f:
        for c in cases:
            f.write(c.text())


KEYS = [b"k", b"K", b"key1", b"Key1", b"foo", b"FOO", b"", b"a b", b"x\r\ny", b"\x00\xff", b"k2", b"other"]
VALS = [b"", b"v", b"Hello", b"hello world", b"10", b"-1", b"0", b"007", b"+5", b"9223372036854775807",
        b"-9223372036854775808", b"9223372036854775808", b"3.5", b"abc\r\ndef", b"\x00\x01\xfe\xff", b" 12", b"1e3",
        b"12345678901234567890", b"x" * 40]
INTS = [b"0", b"1", b"-1", b"2", b"3", b"5", b"-5", b"10", b"100", b"-100", b"9223372036854775807", b"-9223372036854775808",
        b"9223372036854775806", b"abc", b"", b"1.5", b"+3", b"007", b"99999999999999999999"]
IDX = [b"0", b"1", b"2", b"3", b"4", b"5", b"6", b"10", b"-1", b"-2", b"-3", b"-5", b"-6", b"-7", b"-100", b"100",
       b"9223372036854775807", b"-9223372036854775808", b"x", b""]
PATTERNS = [b"*", b"k*", b"?", b"[kK]", b"[a-z]*", b"*1", b"K??1", b"\\k", b"[^k]*", b"*o*", b"[", b"k\\", b"[a-", b"**", b"a b", b"*\n*"]
SLEEPS = [0, 0, 0, 0, 0, 0, 300, 700, 1000, 1500, 2500]


def pick(r, xs):
    return xs[r.randrange(len(xs))]


def randcase(r, b):
    return bytes(c ^ 0x20 if chr(c).isalpha() and r.random() < 0.5 else c for c in b)


def set_opts(r):
    opts = []
    for _ in range(r.choice([0, 0, 1, 1, 2, 3])):
        o = r.choice(["NX", "XX", "GET", "KEEPTTL", "EX", "PX", "EXAT", "bogus"])
        opts.append(randcase(r, o.encode()))
        if o in ("EX", "PX", "EXAT") and r.random() < 0.93:
            if o == "EX":
                opts.append(pick(r, [b"1", b"2", b"3", b"100", b"0", b"-1", b"x", b"10"]))
            elif o == "PX":
                opts.append(pick(r, [b"1", b"500", b"999", b"1000", b"1001", b"2500", b"0", b"-5", b"x"]))
            else:
                opts.append(pick(r, [b"1257894001", b"1257894003", b"1257895000", b"1", b"0", b"-1", b"x", b"2000000000"]))
    return opts


def string_cmd(r, keys=KEYS):
    k = lambda: pick(r, keys)
    v = lambda: pick(r, VALS)
    c = r.randrange(100)
    if c < 16:
        return [randcase(r, b"set"), k(), v()] + set_opts(r)
    if c < 26:
        return [b"get", k()]
    if c < 30:
        n = r.randrange(1, 4)
        a = [b"mset"]
        for _ in range(n):
            a += [k(), v()]
        if r.random() < 0.1:
            a.append(k())
        return a
    if c < 34:
        return [b"mget"] + [k() for _ in range(r.randrange(1, 4))]
    if c < 37:
        return [b"setnx", k(), v()]
    if c < 40:
        return [b"setex", k(), pick(r, [b"1", b"2", b"100", b"0", b"-1", b"x"]), v()]
    if c < 45:
        return [b"append", k(), v()]
    if c < 48:
        return [b"strlen", k()]
    if c < 55:
        return [b"getrange", k(), pick(r, IDX), pick(r, IDX)]
    if c < 61:
        return [b"setrange", k(), pick(r, [b"0", b"1", b"2", b"3", b"5", b"8", b"20", b"-1", b"x", b"300", b"536870913", b"1000000000000"]),
                pick(r, [b"", b"J", b"xy", b"\r\n", b"zzzzzzzz"])]
    if c < 65:
        return [pick(r, [b"incr", b"decr", b"INCR"]), k()]
    if c < 70:
        return [pick(r, [b"incrby", b"decrby"]), k(), pick(r, INTS)]
    if c < 74:
        return [b"del"] + [k() for _ in range(r.randrange(1, 4))]
    if c < 78:
        return [b"exists"] + [k() for _ in range(r.randrange(1, 4))]
    if c < 81:
        return [b"type", k()]
    if c < 85:
        return [b"rename", k(), k()]
    if c < 89:
        return [b"keys", pick(r, PATTERNS)]
    if c < 91:
        return [pick(r, [b"ping", b"PING", b"PiNg"])] + ([v()] if r.random() < 0.5 else [])
    if c < 94:
        a = [b"expire", k(), pick(r, [b"1", b"2", b"3", b"100", b"0", b"-1", b"x"])]
        if r.random() < 0.5:
            a.append(randcase(r, pick(r, [b"nx", b"xx", b"gt", b"lt", b"zz"])))
        return a
    if c < 96:
        return [b"ttl", k()]
    if c < 97:
        return [b"persist", k()]
    # malformed arity / unknown
    name = pick(r, [b"set", b"get", b"del", b"keys", b"mset", b"getrange", b"setrange", b"incrby", b"rename", b"append",
                    b"expire", b"ttl", b"type", b"exists", b"strlen", b"setnx", b"setex", b"mget", b"nosuchcmd", b"ping"])
    return [name] + [pick(r, VALS + KEYS) for _ in range(r.randrange(0, 5))]


def gen_c01(seed, ncases, maxlen=30, prepop=None):
    r = random.Random(seed)
    cases = []
    for i in range(ncases):
        c = Case("c01_%d_%d" % (seed, i))
        keys = r.sample(KEYS, r.randrange(2, 7))
        if prepop:
            prepop(r, c, keys)
        n = r.randrange(1, maxlen + 1)
        every = r.random() < 0.5
        for _ in range(n):
            c.cmd(string_cmd(r, keys), sleep_ms=pick(r, SLEEPS) if r.random() < 0.3 else 0)
            if every:
                c.dump()
        c.dump()
        cases.append(c)
    return cases


# ---------------------------------------------------------------- lists (C09)
ELEMS = [b"a", b"b", b"c", b"a", b"", b"x\r\ny", b"\x00\xff", b"A", b"dup", b"dup", b"10"]
CNTS = [b"0", b"1", b"2", b"3", b"5", b"-1", b"-2", b"-3", b"100", b"-100", b"9223372036854775807",
        b"-9223372036854775808", b"x", b""]


def list_cmd(r, keys):
    k = lambda: pick(r, keys)
    e = lambda: pick(r, ELEMS)
    c = r.randrange(100)
    if c < 14:
        return [pick(r, [b"lpush", b"rpush", b"LPUSH", b"RPush"]), k()] + [e() for _ in range(r.randrange(1, 5))]
    if c < 19:
        return [pick(r, [b"lpushx", b"rpushx"]), k()] + [e() for _ in range(r.randrange(1, 3))]
    if c < 28:
        a = [pick(r, [b"lpop", b"rpop"]), k()]
        if r.random() < 0.5:
            a.append(pick(r, CNTS))
        return a
    if c < 32:
        return [b"llen", k()]
    if c < 39:
        return [b"lindex", k(), pick(r, IDX)]
    if c < 49:
        return [b"lrange", k(), pick(r, IDX), pick(r, IDX)]
    if c < 55:
        return [b"lset", k(), pick(r, IDX), e()]
    if c < 63:
        return [b"lrem", k(), pick(r, CNTS), e()]
    if c < 70:
        return [b"ltrim", k(), pick(r, IDX), pick(r, IDX)]
    if c < 82:
        a = [b"lpos", k(), e()]
        for _ in range(r.choice([0, 1, 1, 2, 3])):
            a.append(randcase(r, pick(r, [b"rank", b"count", b"maxlen", b"bogus"])))
            if r.random() < 0.95:
                a.append(pick(r, [b"0", b"1", b"2", b"3", b"-1", b"-2", b"-3", b"4", b"10", b"x", b"-9223372036854775808"]))
        return a
    if c < 89:
        return [b"lmove", k(), k(), randcase(r, pick(r, [b"left", b"right", b"up"])), randcase(r, pick(r, [b"left", b"right"]))]
    if c < 93:
        return [pick(r, [b"blpop", b"brpop"])] + [k() for _ in range(r.randrange(1, 4))] + [pick(r, [b"1", b"2", b"-1", b"x", b"1"])]
    if c < 96:
        return [pick(r, [b"exists", b"type", b"del", b"ttl"]), k()]
    if c < 98:
        return [b"expire", k(), pick(r, [b"1", b"2", b"100"])]
    name = pick(r, [b"lpush", b"rpush", b"lpop", b"rpop", b"llen", b"lindex", b"lrange", b"lset", b"lrem", b"ltrim", b"lpos",
                    b"lmove", b"blpop", b"brpop", b"lpushx", b"rpushx"])
    return [name] + [pick(r, ELEMS + IDX) for _ in range(r.randrange(0, 5))]


def gen_family(prefix, cmdfn, seed, ncases, maxlen=30, prepop=None):
    r = random.Random(seed)
    cases = []
    for i in range(ncases):
        c = Case("%s_%d_%d" % (prefix, seed, i))
        keys = r.sample(KEYS, r.randrange(2, 6))
        if prepop:
            prepop(r, c, keys)
        n = r.randrange(1, maxlen + 1)
        every = r.random() < 0.5
        for _ in range(n):
            c.cmd(cmdfn(r, keys), sleep_ms=pick(r, SLEEPS) if r.random() < 0.15 else 0)
            if every:
                c.dump()
        c.dump()
        cases.append(c)
    return cases


def prepop_str(r, c, keys):
    # one of the keys holds a string, so WRONGTYPE paths are exercised
    if r.random() < 0.6:
        c.cmd([b"set", keys[0], pick(r, VALS)])


def gen_c09(seed, ncases):
    return gen_family("c09", list_cmd, seed, ncases, prepop=prepop_str)
