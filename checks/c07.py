"""C07 — cluster mode is linearizable; replicas apply the same history (PARTIAL: the apply-loop
logic is proved for all logs / Ready sequences / clocks; rafthttp, goroutines, process faults are
exercised here, not modelled).  DESIGN.md section 3, C07.

Proof half: coq/Properties/C07.v.
Tie, re-run from VERIF_REPO's working tree on every invocation:
 (D) entriesToApply / publishEntries (hook H3) against the extracted ready_step on generated Ready
     sequences: windows of one log that are contiguous, overlapping, repeated, old, empty; logs
     with leader no-op entries; index bases up to 2^61.  Per batch: number of entries counted,
     appliedIndex afterwards, ids published, in order.
 (V) three real node processes on localhost, concurrent clients on all nodes (registers,
     counters, lists, echo); the recorded invocation/response history is checked per key for
     linearizability against the extracted exec (Wing&Gong/Lowe search in ml/clusterrun.ml);
     every echo must come back to its own connection; the VERIFDUMP of the three nodes must be
     identical at quiescence; every node must still be running.  thorough: more load, for each
     node in turn kill -9 during the load, restart, compare again; two scenarios with a -race build
     of the server (a race-detector report in server/ or raftexample/ code is a violation).
 (I) the ids of all proposals of two separate process lives of the request path (hook H4, four
     connections) are pairwise different -- the NoDup premise of C07_own_reply, across restarts.
 (H) one log entry per acknowledged command: rounds of non-idempotent commands whose commit the held
     loop-back (hook VerifClusterLoopbackHeld) delays by 0.2-0.95 of ProposalTimeout (3 s, virtual
     clock): entries in the log = commands, no proposal id twice, replies and keyspace = model.
 (L) late results: a proposal times out while its commit is only held; the commit is released before /
     exactly at / just after (ERR being written to a slow-reading client) / long after the time-out;
     the same connection goes on: the timed-out command gets the time-out error, every other reply is
     that command's own (= standalone = model), no reply precedes its commit, the late command took
     effect exactly once, one log entry per command.
 (S) three real nodes, ProposalTimeout 3 s, two of them frozen (SIGSTOP) for 1.5 s while an INCR is
     pending on the third: afterwards every node holds exactly 1.
 (R) a single node with 360 acknowledged INCRs in its WAL is killed and restarted (2x; thorough 5x);
     fresh connections send PING <own token> while it starts up: every non-error answer must be
     the sender's token.
 Known findings (statement replication of SPOP; blocking pops in the apply loop) are replayed on
 the same cluster and printed as KNOWN-FINDING."""
import collections
import json
import os
import random
import re
import socket
import threading
import time

from . import clusterlib, gen_cluster, lib

PID = "C07"
HB = "harness_cluster_ft"


def build():
    ok, log = lib.ensure_runner("clusterrun", "Extract/ExtractCluster.v", ("clusterutil.ml", "clusterrun.ml"), ("clustermodel",))
    if not ok:
        return "clusterrun build failed: " + log[-2500:]
    ok, log = lib.ensure_harness_ft(HB, srcdir="harness_cluster")
    if not ok:
        return "harness_cluster build failed (does the repository still compile with -tags verif?): " + log[-2500:]
    return None


NONTRIVIAL = set()


# ----------------------------------------------------------------------------- (D)
def apply_tie(d, text, tag="apply"):
    cf = d / (tag + ".cases")
    cf.write_text(text)
    rc, log = lib.sh("timeout 300 %s applyseq %s %s" % (lib.BUILD / HB, cf, d / (tag + ".impl")), cwd=d, timeout=400,
                     extra_env={"GOMAXPROCS": "1"})
    impl_lines = (d / (tag + ".impl")).read_text().splitlines() if (d / (tag + ".impl")).exists() else []
    rc2, log2 = lib.sh("%s apply %s %s" % (lib.BUILD / "clusterrun", cf, d / (tag + ".model")), cwd=d, timeout=400)
    if rc2 != 0:
        return 0, None, "clusterrun apply rc=%s %s" % (rc2, log2[-1200:])
    model_lines = (d / (tag + ".model")).read_text().splitlines()
    # walk the case file alongside both outputs
    cases = text.split("END\n")
    n, li = 0, 0
    NONTRIVIAL.clear()
    for case in cases:
        cl = [l for l in case.splitlines() if l.strip()]
        if not cl:
            continue
        li += 1   # CASE line
        hdr = cl[0].split()
        base, kinds, prev = int(hdr[2]), (hdr[3] if len(hdr) > 3 else ""), int(hdr[2])
        for wi, w in enumerate(cl[1:]):
            n += 1
            mb = re.match(r"B (\d+) (\d+)", model_lines[li]) if li < len(model_lines) else None
            if mb:
                lo, ln = int(w.split()[1]), int(w.split()[2])
                # non-trivial: the batch carries entries and either applies some or overlaps the applied prefix
                if ln > 0 and lo < len(kinds) and (int(mb.group(1)) > 0 or lo < prev - base):
                    NONTRIVIAL.add((kinds, lo, ln, prev - base))
                prev = int(mb.group(2))
            a = impl_lines[li] if li < len(impl_lines) else "<implementation died: %s>" % re.sub(r"[^\x20-\x7e]+", " ", log)[-300:]
            b = model_lines[li] if li < len(model_lines) else "<missing>"
            if a != b:
                return n, dict(kind="applyloop-impl-vs-model", case_lines=cl[:wi + 2] + ["END"], batch=w,
                               implementation=a, model=b,
                               legend="CASE name base kinds(c command, e empty entry); W lo len = one Ready carrying log[lo, lo+len); "
                                      "B <entries counted as applied> <appliedIndex after> <ids published>",
                               note="C07_exactly_once_in_order is about ready_step; entriesToApply/publishEntries of the working tree "
                                    "disagree with it on this Ready sequence"), None
            li += 1
        li += 1   # END line
    if rc != 0:
        return n, None, "applyseq rc=%s %s" % (rc, log[-1200:])
    return n, None, None


def shrink_apply(d, case_lines):
    head, ws = case_lines[0], case_lines[1:-1]
    def bad(w):
        n, diff, err = apply_tie(d, "\n".join([head] + w + ["END"]) + "\n", "shrink")
        return bool(diff or err)
    i = 0
    while i < len(ws) - 1:          # the last batch is the one that differs: keep it
        cand = ws[:i] + ws[i + 1:]
        if bad(cand):
            ws = cand
        else:
            i += 1
    return [head] + ws + ["END"]


# ----------------------------------------------------------------------------- (I) unique proposal ids
def ids_obligation(d, rounds=25):
    """C07_own_reply assumes unique proposal ids.  Checked: the ids of all proposals of two separate
    process lives of a node's request path (hook VerifClusterLoopbackMulti, four connections) are
    pairwise different -- within a life and across lives (the WAL replays the ids of earlier lives
    through the apply loop after a restart).  Returns (n_ids, failing, err)."""
    lives = []
    for life in (1, 2):
        out = d / ("ids%d.txt" % life)
        rc, log = lib.sh("timeout 120 %s idsrun %d %s %s" % (lib.BUILD / HB, rounds, out, d), cwd=d, timeout=150,
                         extra_env={"GOMAXPROCS": "1"})
        if rc != 0 or not out.exists():
            return 0, None, "idsrun rc=%s %s" % (rc, re.sub(r"[^\x20-\x7e\n]+", " ", log)[-800:])
        lives.append(out.read_text().split("\n")[:-1])
    seen = {}
    for li, ids in enumerate(lives):
        for pos, i in enumerate(ids):
            if i in seen:
                return sum(map(len, lives)), dict(
                    kind="proposal-id-not-unique", id=i, first=dict(process_life=seen[i][0] + 1, log_position=seen[i][1] + 1),
                    again=dict(process_life=li + 1, log_position=pos + 1), ids_obligation=dict(rounds=rounds),
                    sample_life_1=lives[0][:4], sample_life_2=lives[1][:4],
                    note="C07_own_reply needs NoDup ids: after a restart the node replays its WAL through handleClusterCommits, and a "
                         "connection registered under an id that also names an old entry is handed the old entry's result"), None
            seen[i] = (li, pos)
    return sum(map(len, lives)), None, None


# ----------------------------------------------------------------------------- (H) one log entry per command
def hold_tie(d, cases, tag="hold"):
    """Slow (not lost) commits through the held loop-back (hook VerifClusterLoopbackHeld) with
    ProposalTimeout lowered to 3 s of virtual time: every accepted command must be in the log exactly
    once (count of entries = count of commands, no proposal id twice), every reply and the final
    keyspace must be the model's (and the standalone path's).  Returns (n_steps, failing, err)."""
    from . import c14, memlib
    text = "".join(c.text() for c in cases)
    old = c14.PROPOSAL_TIMEOUT_MS
    c14.PROPOSAL_TIMEOUT_MS = str(gen_cluster.HOLD_TIMEOUT_MS)
    try:
        res = c14.check_programs(d, text, tag, True, cluster_mode="clusterhold")
    finally:
        c14.PROPOSAL_TIMEOUT_MS = old
    if res["err"]:
        return res["steps"], None, res["err"]
    allc = {memlib.case_name(c): c for c in memlib.split_cases(text)}
    # the log of every case: ids and number of entries
    ef = d / ("%s.clusterhold.trace.entries" % tag)
    per = collections.defaultdict(list)
    if ef.exists():
        for l in ef.read_text().splitlines():
            fs = l.split()
            if fs and fs[0] == "P":
                try:
                    pid = json.loads(bytes.fromhex(l.rpartition("|")[2].strip()).decode("latin-1")).get("ID")
                except ValueError:
                    pid = "<undecodable>"
                per[fs[1]].append(pid)
    for name, ids in per.items():
        ncmd = sum(1 for l in allc.get(name, []) if l.startswith("C "))
        dup = [i for i, n in collections.Counter(ids).items() if n > 1]
        if dup or len(ids) != ncmd:
            case = allc.get(name)
            return res["steps"], dict(kind="command-in-the-log-more-than-once" if dup else "log-entries-differ-from-commands",
                                      log_entries=len(ids), commands=ncmd, duplicated_ids=dup[:3],
                                      case_lines=case, readable=memlib.decode_case(case) if case else None, hold=True,
                                      model_comparison=res["failing"] and {k: v for k, v in res["failing"].items() if k != "case"},
                                      note="the commit was only slow (held for a fraction of ProposalTimeout = 3 s, lines 'H <ms>'), not lost: "
                                           "C07_one_entry_per_ack needs every acknowledged command to be ONE entry of the committed log; "
                                           "each extra entry is executed by every node"), None
    if res["failing"]:
        f = dict(res["failing"])
        case = f.pop("case", None)
        f.update(case_lines=case, readable=memlib.decode_case(case) if case else None, hold=True)
        return res["steps"], f, None
    return res["steps"], None, None


def late_tie(d, cases, tag="late"):
    """Time-outs with the commit only held, released around the time-out instant, slow-reading client,
    follow-up commands on the same connection.  Obligations, against the standalone run of the same
    program (which the extracted model replays): the timed-out command is answered with the time-out
    error (released before the instant: with its own reply; exactly at it: either); EVERY other reply
    is the reply of that very command; the keyspace is the standalone one (the late command took
    effect exactly once); one log entry per command; no reply arrives before its command's commit.
    Returns (n_steps, failing, err)."""
    from . import c14, memlib
    text = "".join(c.text() for c in cases)
    T = gen_cluster.HOLD_TIMEOUT_MS
    old = c14.PROPOSAL_TIMEOUT_MS
    c14.PROPOSAL_TIMEOUT_MS = str(T)
    try:
        ta, err = c14.run_mode(d, "standalone", text, tag)
        if err:
            return 0, None, err
        mm, err = c14.model_mismatches(d, ta, tag + "_ref")
        if err or mm:
            return 0, None, err or "reference run disagrees with the model: %s" % sorted(mm.items())[:1]
        tc, err = c14.run_mode(d, "clusterhold", text, tag)
    finally:
        c14.PROPOSAL_TIMEOUT_MS = old
    allc = {memlib.case_name(c): c for c in memlib.split_cases(text)}
    if err:
        m = re.search(r"at=(\S+) (\d+)", err)
        return 0, dict(kind="cluster-path-died", detail=err[-1200:], case_lines=allc.get(m.group(1)) if m else None, late=True), None
    ca, cc = c14.parse_trace(ta), c14.parse_trace(tc)
    timing = collections.defaultdict(dict)
    for l in (d / (tc.name + ".timing")).read_text().splitlines():
        fs = l.split()
        timing[fs[1]][int(fs[2])] = (int(fs[3]), int(fs[4]), fs[5] == "1")
    nent = collections.Counter(l.split()[1] for l in (d / (tc.name + ".entries")).read_text().splitlines() if l.startswith("P "))
    nsteps = 0
    for name, case in allc.items():
        sa = [l.partition("|")[2].strip() for l in ca.get(name, []) if l.startswith("S ")]
        sc = [l.partition("|")[2].strip() for l in cc.get(name, []) if l.startswith("S ")]
        cmds = [l for l in case if l.startswith("C ")]
        hist = []

        def fail(kind, **kw):
            return nsteps, dict(kind=kind, case_lines=case, readable=memlib.decode_case(case), observed=hist[-8:], late=True,
                                legend="L <ms>: commit held <ms>, client reads only after it was released; H <ms>: commit held, client reads at once; "
                                       "ProposalTimeout = %d ms (virtual clock)" % T, **kw), None
        if len(sa) != len(cmds) or len(sc) != len(cmds):
            return fail("steps-missing", standalone=len(sa), cluster=len(sc), commands=len(cmds))
        for si, cl in enumerate(cmds):
            nsteps += 1
            hold, elapsed, slow = timing[name].get(si + 1, (0, 0, False))
            args = " ".join(repr(bytes.fromhex(h) if h != "-" else b"")[1:] for h in cl.split()[3:])
            hist.append("hold=%d ms%s  %s  -> %s  (after %d ms; standalone: %s)" % (hold, " slow-reader" if slow else "", args, sc[si], elapsed, sa[si]))
            if hold > T:
                ok = sc[si] == "-E"
            elif hold == T:
                ok = sc[si] in ("-E", sa[si])
            else:
                ok = sc[si] == sa[si]
            if not ok:
                return fail("reply-is-not-the-reply-to-this-command", step=si + 1, command=args, received=sc[si],
                            expected=("the time-out error" if hold > T else sa[si]),
                            note="C07_late_result_never_answers_later_command: a result is delivered only to the waiter registered under its id; "
                                 "once a waiter has given up, the result of its id is dropped")
            if not slow and not sc[si].startswith("-") and elapsed < hold:
                return fail("reply-before-the-commit", step=si + 1, command=args, received=sc[si], commit_held_ms=hold, reply_after_ms=elapsed)
        da = sorted(l for l in ca.get(name, []) if l.startswith("D "))
        dc = sorted(l for l in cc.get(name, []) if l.startswith("D "))
        if da != dc:
            return fail("keyspace-differs-after-late-commits", standalone_only=[l[:120] for l in sorted(set(da) - set(dc))[:3]],
                        cluster_only=[l[:120] for l in sorted(set(dc) - set(da))[:3]],
                        note="a command that timed out while its commit was only held must still take effect exactly once")
        if nent[name] != len(cmds):
            return fail("log-entries-differ-from-commands", log_entries=nent[name], commands=len(cmds))
    return nsteps, None, None


def shrink_late(d, case_lines):
    def bad(ls):
        # kept only if it fails twice in a row: the replay file must reproduce
        for _ in range(2):
            n, f, err = late_tie(d, [_Raw(ls)], "lateshrink")
            if not (f or err):
                return False
        return True
    head, body, tail = case_lines[0], case_lines[1:-1], case_lines[-1]
    i = 0
    while i < len(body):
        cand = body[:i] + body[i + 1:]
        if any(l.startswith("C ") for l in cand) and bad([head] + cand + [tail]):
            body = cand
        else:
            i += 1
    return [head] + body + [tail]


def shrink_hold(d, case_lines):
    """Drop rounds/commands while the case still fails."""
    from . import c14
    def bad(ls):
        n, f, err = hold_tie(d, [_Raw(ls)], "holdshrink")
        return bool(f or err)
    head, body, tail = case_lines[0], case_lines[1:-1], case_lines[-1]
    i = 0
    while i < len(body):
        cand = body[:i] + body[i + 1:]
        if any(l.startswith("C ") for l in cand) and bad([head] + cand + [tail]):
            body = cand
        else:
            i += 1
    return [head] + body + [tail]


class _Raw:
    def __init__(self, lines):
        self.lines = lines

    def text(self):
        return "\n".join(self.lines) + "\n"


# ----------------------------------------------------------------------------- (S) slow quorum on real nodes
def slow_quorum(ctx, binary, rounds, tag="sq"):
    """Three real nodes with ProposalTimeout lowered to 3 s.  Two nodes are frozen (SIGSTOP) for 1.5 s
    -- longer than ProposalTimeout/3, shorter than the timeout and than the election timeout -- while
    a client sends one INCR to the third: the command is slow, not lost.  If it is answered ':1' every
    node must hold exactly 1 afterwards; whatever the answer, no node may hold more than 1.
    Returns (failing, err, stats)."""
    import signal
    stats = dict(slow_rounds=0)
    cluster = clusterlib.Cluster(binary, 3, tag="c07" + tag, env={"VERIF_PROPOSAL_TIMEOUT_MS": "3000"})
    try:
        cluster.start_all()
        err = cluster.wait_ready()
        if err:
            return None, "cluster start-up: " + err, stats
        for rd in range(rounds):
            run = (ctx.seed + rd) % 3
            frozen = [i for i in range(3) if i != run]
            key = b"slow:%d" % rd
            c = cluster.client(run, timeout=15.0)
            try:
                for i in frozen:
                    os.kill(cluster.procs[i].pid, signal.SIGSTOP)
                time.sleep(0.1)
                c.send([b"incr", key])
                time.sleep(1.5)
            finally:
                for i in frozen:
                    try:
                        os.kill(cluster.procs[i].pid, signal.SIGCONT)
                    except OSError:
                        pass
            try:
                rep = c.read()
            except (OSError, clusterlib.ConnClosed, socket.timeout) as e:
                rep = "-conn %r" % (e,)
            c.close()
            err = cluster.wait_ready(timeout=40)
            if err:
                return None, "cluster did not serve after the freeze: " + err, stats
            vals = []
            for i in range(3):
                k = cluster.client(i, timeout=15.0)
                vals.append(k.cmd([b"get", key]))
                k.close()
            stats["slow_rounds"] += 1
            want = "$" + b"1".hex()
            ok = all(v == want for v in vals) if rep == ":1" else all(v in (want, "$nil") for v in vals)
            if not ok:
                return dict(kind="slow-command-applied-more-than-once", round=rd + 1, sent_to_node=run + 1,
                            frozen_nodes=[i + 1 for i in frozen], command="INCR %s" % key.decode(), reply=rep,
                            value_on_each_node=[bytes.fromhex(v[1:]).decode() if v.startswith("$") and v != "$nil" else v for v in vals],
                            slow_quorum=dict(rounds=rounds, seed=ctx.seed),
                            note="ProposalTimeout 3 s; nodes %s were frozen for 1.5 s while the INCR was pending, then resumed: the command was slow, "
                                 "not lost; it must take effect exactly once (C07_one_entry_per_ack)" % [i + 1 for i in frozen]), None, stats
        for i in range(3):
            if not cluster.alive(i):
                return dict(kind="node-down", node=i + 1, reason=cluster.crash_reason(i) or cluster.output(i, 1000)), None, stats
        return None, None, stats
    finally:
        for p in cluster.procs:
            if p is not None and p.poll() is None:
                try:
                    os.kill(p.pid, signal.SIGCONT)
                except OSError:
                    pass
        cluster.close()


# ----------------------------------------------------------------------------- (R) own reply across a restart
def restart_own_reply(ctx, binary, attempts, nclients=24, tag="r"):
    """Single node with a few hundred acknowledged commands of its own in the WAL; kill -9; restart on
    the same WAL; as soon as the port is open again fresh connections each send PING <own token>.
    Every answer that is not an error must be the sender's token.  (Errors -- a proposal time-out
    during a slow start-up -- say nothing and are counted.)  The window is the node's start-up, so the
    crash is repeated.  Returns (failing, err, stats)."""
    stats = dict(restarts=0, startup_commands=0, startup_errors=0)
    cluster = clusterlib.Cluster(binary, 1, tag="c07" + tag)
    try:
        cluster.start_all()
        err = cluster.wait_ready()
        if err:
            return None, "cluster start-up: " + err, stats
        hist_errs = []

        def writer(w):
            try:
                c = cluster.client(0, timeout=20.0)
                for i in range(60):
                    if not c.cmd([b"incr", b"hist:ctr"]).startswith(":"):
                        hist_errs.append("INCR not acknowledged")
                        break
                c.close()
            except Exception as e:   # noqa: BLE001
                hist_errs.append(repr(e))
        ws = [threading.Thread(target=writer, args=(w,)) for w in range(6)]
        for t in ws:
            t.start()
        for t in ws:
            t.join(60)
        if hist_errs:
            return None, "could not write the history of the first life: %s" % hist_errs[:2], stats
        time.sleep(0.4)
        for attempt in range(1, attempts + 1):
            cluster.kill(0)
            res = [None] * nclients

            def fresh(ci):
                tok = b"own-%d-%d-%d" % (ctx.seed, attempt, ci)
                end = time.time() + 20
                while time.time() < end:
                    try:
                        c = clusterlib.Client(cluster.kv_ports[0], timeout=25.0)
                    except OSError:
                        time.sleep(0.002)
                        continue
                    try:
                        res[ci] = (tok, c.cmd([b"ping", tok]))
                    except (OSError, clusterlib.ConnClosed, socket.timeout, ValueError) as e:
                        res[ci] = (tok, "-conn %r" % (e,))
                    c.close()
                    return
                res[ci] = (tok, "-no connection")
            ths = [threading.Thread(target=fresh, args=(ci,)) for ci in range(nclients)]
            for t in ths:
                t.start()
            cluster.start(0)
            for t in ths:
                t.join(60)
            stats["restarts"] += 1
            wrong = []
            for ci, r in enumerate(res):
                if r is None:
                    stats["startup_errors"] += 1
                    continue
                tok, rep = r
                stats["startup_commands"] += 1
                if rep.startswith("-"):
                    stats["startup_errors"] += 1
                elif rep != "$" + tok.hex():
                    wrong.append(dict(client=ci, sent="PING %s" % tok.decode(), received=rep))
            if wrong:
                return dict(kind="reply-to-someone-elses-command-after-restart", restart=attempt, n_wrong=len(wrong), n_clients=nclients,
                            examples=wrong[:5], restart_scenario=dict(attempts=attempts, clients=nclients, seed=ctx.seed),
                            note="the node was killed with 360 acknowledged INCRs (and the readiness PING) in its WAL and restarted; these connections "
                                 "sent their first command while the node was starting up and were answered with the reply of a replayed old entry "
                                 "(':n' = an INCR of the previous life, '+PONG' = the probe); each client must receive the reply to its own command"), None, stats
            if not cluster.alive(0):
                return dict(kind="node-down-after-restart", reason=cluster.crash_reason(0) or cluster.output(0, 1200)), None, stats
            err = cluster.wait_ready(timeout=40)
            if err:
                return None, "node did not serve after restart %d: %s" % (attempt, err), stats
        return None, None, stats
    finally:
        cluster.close()


# ----------------------------------------------------------------------------- (V)
class History:
    def __init__(self):
        self.lock = threading.Lock()
        self.ops = []        # (key, inv_us, resp_us or None, reply or None, args)
        self.problems = []
        self.stop = None

    def add(self, *op):
        with self.lock:
            self.ops.append(op)

    def problem(self, **kw):
        with self.lock:
            self.problems.append(kw)
        if self.stop is not None:
            self.stop.set()       # the first problem ends the load: the report is about it


def now_us():
    return time.monotonic_ns() // 1000


REG = [b"r0", b"r1", b"r 2"]
CNT = [b"c0", b"c1"]
LST = [b"l0", b"l\xff1"]


def make_op(r, cid, i):
    c = r.randrange(100)
    if c < 22:
        return pick(r, REG), [b"set", None, b"v%d-%d" % (cid, i)]
    if c < 44:
        return pick(r, REG), [b"get", None]
    if c < 58:
        return pick(r, CNT), [b"incr", None]
    if c < 64:
        return pick(r, CNT), [b"get", None]
    if c < 78:
        return pick(r, LST), [b"rpush", None, b"e%d-%d" % (cid, i)]
    if c < 86:
        return pick(r, LST), [b"lrange", None, b"0", b"-1"]
    if c < 90:
        return pick(r, LST), [b"lpop", None]
    if c < 94:
        return pick(r, REG), [b"del", None]
    return None, [b"ping", b"tok%d-%d \xfe" % (cid, i)]


def pick(r, xs):
    return xs[r.randrange(len(xs))]


def client_thread(cluster, hist, cid, node, nops, seed, faults, stop):
    r = random.Random(seed * 1000003 + cid)
    conn = None
    nodes = list(range(cluster.n))
    i = 0
    while i < nops and not stop.is_set():
        if conn is None:
            try:
                conn = cluster.client(node, timeout=25.0)
            except OSError:
                if not faults:
                    hist.problem(what="cannot connect", node=node + 1)
                    return
                node = pick(r, [x for x in nodes if x != node])
                time.sleep(0.2)
                continue
        key, args = make_op(r, cid, i)
        args = [key if a is None else a for a in args]
        t0 = now_us()
        try:
            rep = conn.cmd(args)
            t1 = now_us()
        except (OSError, clusterlib.ConnClosed, socket.timeout, ValueError) as e:
            hist.add(key, t0, None, None, args)
            conn.close()
            conn = None
            if not faults:
                hist.problem(what="connection failed without any fault injected", node=node + 1, error=repr(e), command=[repr(a) for a in args])
                return
            node = pick(r, [x for x in nodes if x != node])
            i += 1
            continue
        if rep.startswith("-"):
            # with faults: the proposal time-out -- outcome unknown
            hist.add(key, t0, None, None, args)
            if not faults:
                hist.problem(what="error reply without any fault injected", node=node + 1, reply=rep, command=[repr(a) for a in args])
        else:
            hist.add(key, t0, t1, rep, args)
            if key is None and rep != "$" + args[1].hex():
                hist.problem(what="echo came back with someone else's reply", node=node + 1, sent=repr(args[1]), got=rep)
        i += 1
    if conn:
        conn.close()


def history_file(hist, path):
    per = collections.defaultdict(list)
    for key, t0, t1, rep, args in hist.ops:
        if key is None:
            continue
        per[key].append((t0, t1, rep, args))
    with open(path, "w") as f:
        for key, ops in sorted(per.items()):
            f.write("KEY %s\n" % key.hex())
            for t0, t1, rep, args in sorted(ops):
                f.write("O %d %s %s %s\n" % (t0, "inf" if t1 is None else t1, "?" if rep is None else rep.replace(" ", "_"),
                                             " ".join(clusterlib.hx(a) for a in args)))
            f.write("END\n")
    return per


def dumps(cluster, nodes=None):
    res = {}
    for i in (range(cluster.n) if nodes is None else nodes):
        c = cluster.client(i, timeout=25.0)
        try:
            rep = c.cmd([b"verifdump"])
        finally:
            c.close()
        if not rep.startswith("*["):
            res[i] = ["<no dump: %s>" % rep[:100]]
            continue
        res[i] = sorted(bytes.fromhex(x[1:]).decode("latin-1") for x in clusterlib.split_top(rep[2:-1])[1:])
    return res


def scenario(ctx, d, binary, nclients, nops, kill=None, tag="v"):
    """One cluster life: start, concurrent load (optionally kill -9 one node in the middle and
    restart it afterwards), quiescence, checks.  Returns (failing, err, stats)."""
    stats = dict(ops=0, keys=0, explored=0, indeterminate=0)
    cluster = clusterlib.Cluster(binary, 3, tag="c07" + tag)
    try:
        cluster.start_all()
        err = cluster.wait_ready()
        if err:
            return None, "cluster start-up: " + err, stats
        hist, stop = History(), threading.Event()
        hist.stop = stop
        # burst: many connections hammering ONE node (the shape that killed the pinned commit with
        # 'concurrent map writes'); echoes only, so every reply is checkable
        def burst(bid):
            try:
                c = cluster.client(0, timeout=25.0)
                for j in range(150):
                    tok = b"burst%d-%d" % (bid, j)
                    rep = c.cmd([b"ping", tok])
                    if rep != "$" + tok.hex():
                        hist.problem(what="echo came back with someone else's reply (burst on node 1)", sent=repr(tok), got=rep)
                        return
                c.close()
            except (OSError, clusterlib.ConnClosed, socket.timeout) as e:
                hist.problem(what="connection failed during the burst on node 1", error=repr(e))
        bts = [threading.Thread(target=burst, args=(b,)) for b in range(16)]
        for t in bts:
            t.start()
        for t in bts:
            t.join(60)
        stats["burst_ops"] = 16 * 150
        if not cluster.alive(0):
            return dict(kind="node-down", node=1, reason=cluster.crash_reason(0) or cluster.output(0, 1200),
                        note="16 connections sending PING to one node brought it down; concurrent client load must never bring a node down",
                        workload=dict(clients=nclients, ops_per_client=nops, seed=ctx.seed, killed=kill)), None, stats
        if hist.problems:
            return dict(kind="client-observed", problems=hist.problems[:5],
                        workload=dict(clients=nclients, ops_per_client=nops, seed=ctx.seed, killed=kill)), None, stats
        stop.clear()
        ths = [threading.Thread(target=client_thread, args=(cluster, hist, cid, cid % 3, nops, ctx.seed, kill is not None, stop))
               for cid in range(nclients)]
        for t in ths:
            t.start()
        if kill is not None:
            time.sleep(0.15 + 0.1 * (ctx.seed % 5))
            cluster.kill(kill)
        deadline = time.time() + 60
        for t in ths:
            t.join(max(0.1, deadline - time.time()))
        if any(t.is_alive() for t in ths) and not hist.problems:
            stop.set()
            return dict(kind="clients-hang", note="client threads still waiting for replies after 60 s (ProposalTimeout is 10 s)",
                        workload=dict(clients=nclients, ops_per_client=nops, seed=ctx.seed, killed=kill),
                        nodes_alive=[cluster.alive(i) for i in range(3)], killed=kill,
                        crash=[cluster.crash_reason(i) for i in range(3)]), None, stats
        if kill is not None:
            cluster.start(kill)
            err = cluster.wait_ready(nodes=[kill], timeout=60)
            if err:
                return dict(kind="node-does-not-come-back", killed_node=kill + 1, detail=err,
                            output=cluster.output(kill, 1500)), None, stats
        stats["ops"] = len(hist.ops)
        stats["indeterminate"] = sum(1 for o in hist.ops if o[2] is None)
        # liveness / no crash
        for i in range(3):
            if not cluster.alive(i):
                return dict(kind="node-down", node=i + 1, reason=cluster.crash_reason(i) or cluster.output(i, 1200),
                            note="concurrent client load must never bring a node down",
                            workload=dict(clients=nclients, ops_per_client=nops, seed=ctx.seed, killed=kill)), None, stats
        if hist.problems:
            return dict(kind="client-observed", problems=hist.problems[:5],
                        workload=dict(clients=nclients, ops_per_client=nops, seed=ctx.seed, killed=kill)), None, stats
        # linearizability per key against the extracted exec
        hf = d / (tag + ".hist")
        per = history_file(hist, hf)
        stats["keys"] = len(per)
        rc, log = lib.sh("%s lin %s %s" % (lib.BUILD / "clusterrun", hf, d / (tag + ".lin")), cwd=d, timeout=600)
        if rc != 0:
            return None, "clusterrun lin rc=%s %s" % (rc, log[-1000:]), stats
        for l in (d / (tag + ".lin")).read_text().splitlines():
            m = re.match(r"(LIN|NONLIN) (\S+) ops=(\d+) explored=(\d+)", l)
            if not m:
                continue
            stats["explored"] += int(m.group(4))
            if m.group(1) == "NONLIN":
                key = bytes.fromhex(m.group(2))
                ops = sorted(per[key])
                return dict(kind="history-not-linearizable", key=repr(key), n_ops=len(ops),
                            history=["O %d %s %s %s" % (t0, "inf" if t1 is None else t1, "?" if rep is None else rep.replace(" ", "_"),
                                                        " ".join(clusterlib.hx(a) for a in args)) for t0, t1, rep, args in ops],
                            history_key_hex=m.group(2),
                            note="no order of these operations that respects real time gives these replies under the sequential model (exec)"), None, stats
        # replicas agree at quiescence
        dm = dumps(cluster)
        if not (dm[0] == dm[1] == dm[2]):
            diff = {}
            allk = set(dm[0]) | set(dm[1]) | set(dm[2])
            for line in sorted(allk):
                who = [i + 1 for i in range(3) if line in dm[i]]
                if len(who) != 3:
                    diff[line[:200]] = who
            return dict(kind="replicas-differ-at-quiescence", lines_and_nodes_holding_them=dict(list(diff.items())[:8]),
                        workload=dict(clients=nclients, ops_per_client=nops, seed=ctx.seed, killed=kill)), None, stats
        stats["dump_lines"] = len(dm[0])
        nrace, race = scan_races(cluster)
        stats["race_detector_reports"] = nrace
        if race:
            return dict(kind="data-race-in-cluster-path", **race,
                        workload=dict(clients=nclients, ops_per_client=nops, seed=ctx.seed, killed=kill, race_binary=True),
                        note="the Go race detector saw unsynchronised access in server/ or raftexample/ code under concurrent clients"), None, stats
        # known findings, replayed on the same cluster (separate keys)
        stats["known"] = replay_known(cluster)
        for i in range(3):
            if not cluster.alive(i):
                return dict(kind="node-down", node=i + 1, reason=cluster.crash_reason(i) or cluster.output(i, 1200)), None, stats
        return None, None, stats
    finally:
        cluster.close()


def scan_races(cluster):
    """Reports of the Go race detector in the node outputs (only present with a -race binary):
    (number of reports, first report that involves the cluster path packages server/ or raftexample/)."""
    n, first = 0, None
    for i in range(cluster.n):
        blocks = cluster.output(i, 4000000).split("WARNING: DATA RACE")[1:]
        n += len(blocks)
        for b in blocks:
            if first is None and re.search(r"RedisGO/(server|raftexample)\.", b):
                first = dict(node=i + 1, report=b[:1800])
    return n, first


def replay_known(cluster):
    """Witness programs of the open findings; returns {finding id: observation}."""
    res = {}
    k = [cluster.client(i, timeout=25.0) for i in range(3)]
    try:
        k[0].cmd([b"sadd", b"kf:s"] + [b"%d" % i for i in range(32)])
        for i in range(6):
            k[i % 3].cmd([b"spop", b"kf:s"])
        dm = dumps(cluster)
        sets = [[l for l in dm[i] if l.startswith(b"kf:s".hex())] for i in range(3)]
        res["statement-replication-nondeterministic"] = "reproduced: SADD kf:s 0..31; 6 x SPOP kf:s -> the three nodes hold different sets" \
            if not (sets[0] == sets[1] == sets[2]) else "not reproduced in this run (the three nodes drew the same members)"
        k[0].cmd([b"del", b"kf:s"])
        t = threading.Thread(target=lambda: k[0].cmd([b"blpop", b"kf:nolist", b"2"]))
        t.start()
        time.sleep(0.3)
        t0 = time.time()
        k[1].cmd([b"ping"])
        lat = time.time() - t0
        t.join()
        res["blocking-commands-in-apply-loop"] = ("reproduced: PING via node 2 took %.2f s while node 1 served BLPOP kf:nolist 2" % lat) \
            if lat > 1.0 else "not reproduced (PING latency %.2f s)" % lat
    finally:
        for c in k:
            c.close()
    return res


def ttl_lag_replay(binary):
    """Open finding: relative expiry evaluated on each node's clock.  Node 3 is down while
    'SET kf:t v EX 2' is committed; it comes back after the key has expired elsewhere and replays
    the entry against its own clock: a GET answered by node 3 returns the value, node 1 says nil."""
    cluster = clusterlib.Cluster(binary, 3, tag="c07ttl")
    try:
        cluster.start_all()
        if cluster.wait_ready():
            return "not run (cluster start-up)"
        cluster.kill(2)
        c = None
        for i in (0, 1):
            try:
                c = cluster.client(i, timeout=25)
                if c.cmd([b"set", b"kf:t", b"v", b"EX", b"2"]).startswith("+"):
                    break
            except Exception:   # noqa: BLE001
                c = None
        if c is None:
            return "not run (no quorum answer)"
        time.sleep(2.6)
        cluster.start(2)
        if cluster.wait_ready(nodes=[2], timeout=40):
            return "not run (node 3 did not come back)"
        a = c.cmd([b"get", b"kf:t"])
        c3 = cluster.client(2, timeout=25)
        b = c3.cmd([b"get", b"kf:t"])
        c3.close()
        c.close()
        if a == "$nil" and b != "$nil":
            return "reproduced: SET kf:t v EX 2 committed while node 3 was down; 2.6 s later GET kf:t -> nil via node 1, %s via restarted node 3" % b
        return "not reproduced (node 1: %s, node 3: %s)" % (a, b)
    finally:
        cluster.close()


# ----------------------------------------------------------------------------- driver
def run(ctx):
    cov, broken = lib.proof_gate(ctx, extra_tb=[
        "imported, not proved here: every Ready batch handed to a node is a window of one committed log, and a proposal made after a commit is ordered behind it (C15: etcd raft; hypotheses is_window / raft_order of the theorems)",
        "modelled, not verified: Go channels and goroutines of the apply path (as sequential steps), sync.Map (as an association list), rafthttp, process faults; exercised by the three-node scenario of this check",
        "hook H3 (raftexample/verif_hooks.go, tag verif): exported wrappers around entriesToApply/publishEntries; hook H1 VERIFDUMP; harness_cluster/enc.go, ml/clusterrun.ml (incl. the linearizability search), checks/clusterlib.py: trusted glue",
    ])
    berr = build()
    d = lib.scratch("c07-")
    quick = ctx.tier == "quick"
    if ctx.replay:
        r = json.load(open(ctx.replay))
        if berr:
            print(berr)
            return 1
        if r.get("case_lines") and not r.get("hold") and not r.get("late"):
            n, diff, err = apply_tie(d, "\n".join(r["case_lines"]) + "\n", "replay")
            print(json.dumps(diff or err or "entriesToApply/publishEntries agree with ready_step on this sequence", indent=1))
            return 1 if (diff or err) else 0
        if r.get("history"):
            hf = d / "replay.hist"
            hf.write_text("KEY %s\n%s\nEND\n" % (r.get("history_key_hex", "6b"), "\n".join(r["history"])))
            lib.sh("%s lin %s %s" % (lib.BUILD / "clusterrun", hf, d / "replay.lin"), cwd=d, timeout=600)
            out = (d / "replay.lin").read_text()
            print(out)
            return 1 if "NONLIN" in out else 0
        if r.get("late") and r.get("case_lines"):
            n, f, err = late_tie(d, [_Raw(r["case_lines"])], "replay")
            print(json.dumps(f or err or "every reply is the reply to its own command; effects applied once", indent=1, default=str)[:3500])
            return 1 if (f or err) else 0
        if r.get("hold") and r.get("case_lines"):
            n, f, err = hold_tie(d, [_Raw(r["case_lines"])], "replay")
            print(json.dumps(f or err or "every command is in the log once; replies and keyspace are the model's", indent=1, default=str)[:3000])
            return 1 if (f or err) else 0
        if r.get("slow_quorum"):
            ok, log, binary = clusterlib.build_server()
            ctx.seed = r["slow_quorum"].get("seed", ctx.seed)
            f, err, st = slow_quorum(ctx, binary, r["slow_quorum"].get("rounds", 2), tag="replay")
            print(json.dumps(f or err or "slow commands took effect once (%s)" % st, indent=1, default=str))
            return 1 if (f or err) else 0
        if r.get("ids_obligation"):
            n, f, err = ids_obligation(d, r["ids_obligation"].get("rounds", 25))
            print(json.dumps(f or err or "proposal ids of two process lives are pairwise different (%d ids)" % n, indent=1))
            return 1 if (f or err) else 0
        if r.get("restart_scenario"):
            ok, log, binary = clusterlib.build_server()
            w = r["restart_scenario"]
            ctx.seed = w.get("seed", ctx.seed)
            f, err, st = restart_own_reply(ctx, binary, w.get("attempts", 4), w.get("clients", 24), tag="replay")
            print(json.dumps(f or err or "every client received its own reply (%s)" % st, indent=1, default=str))
            return 1 if (f or err) else 0
        if r.get("workload"):
            ok, log, binary = clusterlib.build_server()
            w = r["workload"]
            ctx.seed = w.get("seed", ctx.seed)
            if w.get("race_binary"):
                ok, log, binary = clusterlib.build_server(name="redisgo_verif_race", race=True)
            f, err, st = scenario(ctx, d, binary, w["clients"], w["ops_per_client"], kill=w.get("killed"), tag="replay")
            print(json.dumps(f or err or "scenario passes", indent=1, default=str))
            return 1 if (f or err) else 0
        print("nothing to replay in this file")
        return 1
    failing, err = None, berr
    nbatches = 0
    vstats = []
    known = {}
    if not err:
        text = gen_cluster.gen_apply_cases(ctx.seed, 500 if quick else 20000)
        nbatches, diff, err = apply_tie(d, text)
        if diff:
            diff["case_lines"] = shrink_apply(d, diff["case_lines"])
            failing = diff
    nids, rstats = 0, {}
    if not err and not failing:
        nids, ids_failing, err = ids_obligation(d, 25 if quick else 400)
        if ids_failing:
            # the premise of C07_own_reply is broken: look for a client that is handed a foreign reply
            failing = ids_failing
            ok, log, binary = clusterlib.build_server()
            if ok:
                f, e, rstats = restart_own_reply(ctx, binary, 4)
                if f:
                    f["broken_premise"] = {k: ids_failing[k] for k in ("kind", "id", "first", "again", "sample_life_1", "sample_life_2")}
                    failing = f
    hsteps, sqstats = 0, {}
    if not err and not failing:
        hsteps, f, err = hold_tie(d, gen_cluster.gen_c07_hold_cases(ctx.seed, 150 if quick else 4000))
        if f:
            if f.get("case_lines"):
                f["case_lines"] = shrink_hold(d, f["case_lines"])
                from . import memlib
                f["readable"] = memlib.decode_case(f["case_lines"])
            failing = f
    lsteps = 0
    if not err and not failing:
        lsteps, f, err = late_tie(d, gen_cluster.gen_c07_late_cases(ctx.seed, 140 if quick else 4000))
        if f:
            if f.get("case_lines"):
                small = shrink_late(d, f["case_lines"])
                n2, f2, e2 = late_tie(d, [_Raw(small)], "latefinal")
                if f2:
                    f = f2
            failing = f
    if not err and not failing:
        ok, log, binary = clusterlib.build_server()
        if not ok:
            err = "server build failed: " + log[-1500:]
        else:
            for attempt in range(2):
                f, e, sqstats = slow_quorum(ctx, binary, 1 if quick else 4)
                if not (e and e.startswith("cluster start-up")):
                    break
            if f:
                failing = f
            err = err or e
    if not err and not failing:
        ok, log, binary = clusterlib.build_server()
        if not ok:
            err = "server build failed: " + log[-1500:]
        else:
            for attempt in range(2):
                f, e, rstats = restart_own_reply(ctx, binary, 2 if quick else 5)
                if not (e and e.startswith("cluster start-up")):
                    break
            if f:
                failing = f
            err = err or e
    if not err and not failing:
        if True:
            plan = [(9, 120, None, False)] if quick else [(9, 400, None, False), (12, 250, 0, False), (12, 250, 1, False), (12, 250, 2, False),
                                                          (9, 200, None, True), (12, 150, 1, True)]
            race_binary = None
            for si, (ncl, nops, kill, race) in enumerate(plan):
                f, e, st = None, None, {}
                use = binary
                if race:
                    if race_binary is None:
                        okr, logr, race_binary = clusterlib.build_server(name="redisgo_verif_race", race=True)
                        if not okr:
                            err = "race build failed: " + logr[-1200:]
                            break
                    use = race_binary
                for attempt in range(2):     # a start-up failure (port taken in between) is retried once
                    f, e, st = scenario(ctx, d, use, ncl, nops, kill=kill, tag="s%d" % si)
                    if not (e and e.startswith("cluster start-up")):
                        break
                vstats.append(dict(clients=ncl, ops_per_client=nops, killed_node=None if kill is None else kill + 1, race_detector=race, **st))
                known.update(st.get("known") or {})
                if f:
                    failing = f
                    break
                if e:
                    err = e
                    break
            if not quick and not failing and not err:
                known["statement-replication-relative-expiry"] = ttl_lag_replay(binary)
    rc = 0
    if failing:
        lib.violation(PID, failing)
        ctx.violations += 1
        rc = 1
    elif broken or err:
        lib.violation(PID, dict(kind="tie-broken", what=broken or err), found_input=False)
        ctx.violations += 1
        rc = 1
    for kf in lib.known_findings(PID):
        if kf["kind"] == "open":
            obs = known.get(kf["id"])
            print("KNOWN-FINDING: property=%s %s %s%s" % (PID, kf["id"], kf["text"], (" [this run: %s]" % obs) if obs else ""))
    tot_ops = sum(v.get("ops", 0) + v.get("burst_ops", 0) for v in vstats)
    cov.update(dict(
        evaluations=nbatches + tot_ops + nids + rstats.get("startup_commands", 0) + hsteps + lsteps + sqstats.get("slow_rounds", 0),
        ready_batches=nbatches, cluster_scenarios=vstats, client_operations=tot_ops,
        proposal_ids_checked_unique_over_two_process_lives=nids, restart_own_reply=rstats,
        slow_commit_steps_loopback=hsteps, late_commit_steps_loopback=lsteps, slow_quorum_rounds_real_nodes=sqstats.get("slow_rounds", 0),
        linearizability_states_explored=sum(v.get("explored", 0) for v in vstats),
        distinct_nontrivial=len(NONTRIVIAL) + sum(v.get("keys", 0) for v in vstats),
        rule="(D) seeded logs of 0-39 entries (commands and leader no-op entries) with index base in {0,1,5,1000,2^32,2^61} and 1-24 Ready batches each, "
             "a batch being a window of the log that starts at or before appliedIndex+1 (contiguous / overlapping / entirely old / empty / longer than the log); "
             "distinct_nontrivial = distinct (log kinds, window, entries applied before) triples whose window carries entries and either applies one "
             "or overlaps the applied prefix, plus the number of per-key histories checked for linearizability; (V) 9-12 concurrent clients spread over the 3 nodes, "
             "each a seeded random stream of SET/GET/DEL on 3 registers, INCR/GET on 2 counters, RPUSH/LPOP/LRANGE on 2 lists and PING <token>, "
             "unique written values; thorough adds kill -9 + restart of each node in turn during the load",
        samples=["CASE a1_0 0 ccec / W 0 2 / W 1 3 / W 0 1 -> B 2 2 1,2 / B 2 4 3 / B 0 4", "O <inv_us> <resp_us> :3 incr c0 (one line of a recorded history)"],
        known_findings_replayed=known,
        correspondence="raftexample.entriesToApply+publishEntries (hook H3) vs extracted ready_step on every batch; recorded client histories of a real "
                       "3-node cluster vs extracted exec (per-key linearizability); VERIFDUMP of the three nodes compared at quiescence",
        partial="rafthttp transport, goroutine/channel behaviour, process faults and membership changes are exercised, not modelled",
    ))
    lib.write_evidence(PID, ctx.tier, ctx.seed, cov,
                       ["Raft: one committed log, later proposals ordered behind earlier commits (C15)", "Go runtime (channels, sync.Map, net)",
                        "extraction + OCaml compiler", "commands in the workload are deterministic (det_prog); non-deterministic ones are open findings"],
                       ctx.wall(), ctx.violations)
    return rc
