"""Helpers shared by the C06 and C20 checks: run command programs through the `memx` runner
(harness/memx.go: ALIGN / @T+n directives, one real connection per connection id) instead of
`memrun`, and the real-clock TCP sample with tolerance to second boundaries.

memlib.run_family drives generation/shrinking/evidence; the checks pass `runner=memx_runner(mode)`."""
import functools
import itertools
import os

from . import lib, memlib


CHUNK = 2000   # cases per harness process


def memx_runner(mode):
    """runner for memlib.run_family: harness subcommand memx in the given mode (view | handle)"""
    return functools.partial(memlib.run_prog, subcmd="memx", extra=mode, chunk=CHUNK)


# ----------------------------------------------------------------------------- real clock, TCP

def tcp_sample(ctx, d, pid, cases, timeout=900, max_ambiguous=6):
    """Run cases over real TCP connections against server.Start (real clock, harness without
    faketime) and replay them through the model.  A step whose execution straddles a second
    boundary is accepted under either second: the replay is tried with every assignment of
    before/after clocks to the ambiguous steps (cases with more than max_ambiguous such steps are
    counted as inconclusive).  Returns (failing-or-None, coverage-dict)."""
    ok, log = lib.ensure_harness("harness")
    if not ok:
        return dict(kind="tie-broken", what="real-clock harness build failed: " + log[-2000:]), {}
    prog = d / "tcp.prog"
    out = d / "tcp.trace"
    prog.write_text("".join(c.text() for c in cases))
    rc, log = lib.sh("%s memx %s %s %s tcp" % (lib.BUILD / "harness", prog, out, d), cwd=d, timeout=timeout)
    if rc != 0 or not out.exists():
        return dict(kind="tcp-harness-died", detail="rc=%s %s" % (rc, log[-1500:])), {}
    # split the trace into cases
    tcases, cur = [], []
    for l in out.read_text().splitlines():
        cur.append(l)
        if l.startswith("END"):
            tcases.append(cur)
            cur = []
    n_ok = n_amb = n_inconcl = steps = 0
    failing = None
    by_name = {c.name: c for c in cases}
    for tc in tcases:
        name = tc[0].split()[1]
        # candidate lines per step
        variants = []
        amb = 0
        for l in tc:
            if not l.startswith("S "):
                variants.append([l])
                continue
            steps += 1
            left, obs, after = [x.strip() for x in l.split("|")]
            fs = left.split()
            t0ms, t1ms = int(fs[2]), int(after)
            cand = [l.rsplit("|", 1)[0].rstrip()]
            # BLPOP/BRPOP look at the clock 100 ms after the call
            if t1ms // 1000 != t0ms // 1000 or (t1ms + 100) // 1000 != (t0ms + 100) // 1000:
                amb += 1
                fs2 = list(fs)
                fs2[1], fs2[2] = str(t1ms // 1000), str(t1ms)
                cand.append(" ".join(fs2) + " | " + obs)
            variants.append(cand)
        if amb > max_ambiguous:
            n_inconcl += 1
            continue
        if amb:
            n_amb += 1
        good = False
        last = None
        for choice in itertools.product(*variants):
            tr = d / "tcp1.trace"
            ver = d / "tcp1.verdict"
            tr.write_text("\n".join(choice) + "\n")
            rc, log = lib.sh("%s mem %s %s" % (lib.BUILD / "modelrun", tr, ver), cwd=d, timeout=120)
            v = ver.read_text().splitlines() if ver.exists() else []
            last = (choice, v)
            if rc == 0 and not memlib.mismatching(v):
                good = True
                break
        if good:
            n_ok += 1
        elif not failing:
            c = by_name.get(name)
            failing = dict(kind="impl-vs-model-tcp", case_lines=c.text().splitlines() if c else [],
                           readable=memlib.decode_case(c.text().splitlines()) if c else [],
                           trace=list(last[0])[-40:], verdict=last[1][:5],
                           note="real TCP connections against server.Start, real clock; replies only (no dump); "
                                "replay with: harness memx <prog> <out> <dir> tcp")
    cov = dict(tcp_cases=len(tcases), tcp_ok=n_ok, tcp_steps=steps, tcp_cases_with_boundary_steps=n_amb,
               tcp_inconclusive=n_inconcl)
    return failing, cov


# ----------------------------------------------------------------------------- concurrent first-SELECT

RACE_SHARDS = 1024     # the server's default ShardNum: NewMemDb is then slow enough to be a real window


def _race_env():
    # goroutine parallelism even on a small machine (OS threads time-slice)
    return {"GOMAXPROCS": str(max(4, os.cpu_count() or 1))}


def race_run(d, lines, mode, tag="race", timeout=600):
    """run RACE lines (harness selrace, real clock, real parallelism) and replay the trace through
    the model; returns (mismatching dict name->detail, trace text, error-or-None, #steps, #nil notes)"""
    prog, out, ver = d / (tag + ".prog"), d / (tag + ".trace"), d / (tag + ".verdict")
    prog.write_text("\n".join(lines) + "\n")
    for f in (out, ver):
        if f.exists():
            f.unlink()
    rc, log = lib.sh("%s selrace %s %s %s %s %d" % (lib.BUILD / "harness", prog, out, d, mode, RACE_SHARDS), cwd=d,
                     timeout=timeout, extra_env=_race_env())
    if rc != 0 or not out.exists():
        return {}, out.read_text() if out.exists() else "", "selrace rc=%s log=%s" % (rc, log[-1500:]), 0, 0
    rc, log = lib.sh("%s mem %s %s" % (lib.BUILD / "modelrun", out, ver), cwd=d, timeout=timeout)
    if rc != 0 or not ver.exists():
        return {}, out.read_text(), "modelrun rc=%s log=%s" % (rc, log[-1500:]), 0, 0
    trace = out.read_text()
    return (memlib.mismatching(ver.read_text().splitlines()), trace, None,
            sum(1 for l in trace.splitlines() if l.startswith("S ")),
            sum(1 for l in trace.splitlines() if l.startswith("NOTE nil-database")))


def race_describe(line):
    fs = line.split()
    return ("fresh server with %s databases; %s connections (through Manager.Handle) released together: each sends SELECT i then "
            "SET k<c> v<c>-db<i>, for i in [%s] (indexes nobody selected before); then every connection GETs every key, and a late "
            "connection SELECTs i and GETs every key: every GET must return the value" % (fs[2], fs[3], fs[4]))


def race_sample(ctx, d, pid, lines, mode):
    """Returns (failing-or-None, coverage)."""
    ok, log = lib.ensure_harness("harness")
    if not ok:
        return dict(kind="tie-broken", what="real-clock harness build failed: " + log[-2000:]), {}
    mm, trace, err, steps, nils = race_run(d, lines, mode)
    cov = {"race_%s_servers" % mode: len(lines), "race_%s_steps" % mode: steps,
           "race_%s_trials" % mode: sum(len(l.split()[4].split(",")) for l in lines),
           "race_%s_nil_databases_in_dump" % mode: nils}
    if err:
        return dict(kind="race-harness-died", detail=err), cov
    if not mm:
        return None, cov
    name = sorted(mm)[0]
    line = [l for l in lines if l.split()[1] == name][0]
    # shrink: fewer connections / a single index, as long as it still fails within a few attempts
    fs = line.split()
    first = fs[4].split(",")[0]
    best = line
    for cand in ("RACE %s %s 2 %s" % (fs[1], fs[2], first), "RACE %s %s %s %s" % (fs[1], fs[2], fs[3], first)):
        hit = False
        for _ in range(15):
            m2, _, e2, _, _ = race_run(d, [cand], mode, tag="raceshrink", timeout=120)
            if e2 or m2:
                hit = True
                break
        if hit:
            best = cand
            break
    m3, t3, e3, _, _ = race_run(d, [best], mode, tag="racefinal", timeout=120)
    if not (m3 or e3):
        for _ in range(20):
            m3, t3, e3, _, _ = race_run(d, [best], mode, tag="racefinal", timeout=120)
            if m3 or e3:
                break
    detail = (m3 or mm).get(name, mm[name]) if not e3 else e3
    tl = t3.splitlines() if (m3 or e3) else trace.splitlines()
    step = None
    import re
    ms = re.search(r"step=(\d+)", detail or "")
    if ms:
        step = int(ms.group(1))
    slines = [l for l in tl if l.startswith("S ")]
    excerpt = slines[max(0, (step or 1) - 12):(step or 1)] if slines else []
    failing = dict(kind="concurrent-first-select", race_line=best, original_line=line, mode=mode, detail=detail,
                   readable=[race_describe(best)] + memlib.decode_case(
                       ["C %s 0 %s" % (l.split()[3], " ".join(l.split("|")[0].split()[4:])) for l in excerpt]) +
                            ["observed reply of the last command above: " + (excerpt[-1].split("|")[1].strip() if excerpt else "?")],
                   n_mismatching_servers=len(mm),
                   note="the trace is one linearization of the concurrent run; the model (C20_one_keyspace_per_index) gives the same "
                        "replies for every linearization; the failure is timing dependent: --replay repeats the scenario up to 25 times")
    return failing, cov


def race_replay(ctx, d, replay):
    ok, log = lib.ensure_harness("harness")
    lib.ensure_modelrun()
    hits = 0
    for k in range(25):
        mm, trace, err, _, _ = race_run(d, [replay["race_line"]], replay.get("mode", "handle"), tag="racereplay", timeout=120)
        if err or mm:
            hits += 1
            print("attempt %d: %s" % (k + 1, err or list(mm.values())[0]))
            break
    print("replayed %s: %s" % (replay["race_line"], "VIOLATED (implementation disagrees with the model)" if hits else "no disagreement in 25 attempts"))
    return 1 if hits else 0


# ----------------------------------------------------------------------------- real clock, in-process

def realclock_sample(ctx, d, pid, cases, mode="handle", gomaxprocs=None, tag="rc", timeout=600):
    """cases through `harness memx <mode>` built WITHOUT faketime (real scheduler), with the given
    GOMAXPROCS (None = all CPUs), replayed by the model.  Returns (failing-or-None, coverage)."""
    ok, log = lib.ensure_harness("harness")
    if not ok:
        return dict(kind="tie-broken", what="real-clock harness build failed: " + log[-2000:]), {}
    prog, out, ver = d / (tag + ".prog"), d / (tag + ".trace"), d / (tag + ".verdict")
    prog.write_text("".join(c.text() for c in cases))
    for f in (out, ver):
        if f.exists():
            f.unlink()
    env = {"GOMAXPROCS": str(gomaxprocs)} if gomaxprocs else {}
    rc, log = lib.sh("%s memx %s %s %s %s" % (lib.BUILD / "harness", prog, out, d, mode), cwd=d, timeout=timeout, extra_env=env)
    label = "%s_gomaxprocs_%s" % (mode, gomaxprocs or "all")
    if rc != 0 or not out.exists():
        return dict(kind="realclock-harness-died", detail="rc=%s %s" % (rc, log[-1500:])), {}
    rc, log = lib.sh("%s mem %s %s" % (lib.BUILD / "modelrun", out, ver), cwd=d, timeout=timeout)
    v = ver.read_text().splitlines() if ver.exists() else []
    mm = memlib.mismatching(v)
    trace = out.read_text()
    cov = {"realclock_%s_cases" % label: len(cases), "realclock_%s_steps" % label: sum(1 for l in trace.splitlines() if l.startswith("S ")),
           "realclock_%s_closes" % label: sum(1 for l in trace.splitlines() if l.startswith("X "))}
    if rc != 0:
        return dict(kind="modelrun-failed", detail=log[-1500:]), cov
    if not mm:
        return None, cov
    name = sorted(mm)[0]
    c = [x for x in cases if x.name == name][0]
    lines = c.text().splitlines()
    failing = dict(kind="impl-vs-model-realclock", detail=mm[name], case_lines=lines, readable=memlib.decode_case(lines)[:80],
                   mode=mode, gomaxprocs=gomaxprocs or "all", n_mismatching=len(mm),
                   note="memx %s on the real clock (harness built without faketime); --replay runs the case through the "
                        "virtual-clock harness in the check's own mode" % mode)
    return failing, cov


# ----------------------------------------------------------------------------- cluster configuration path

def clustercfg_text(items):
    return "".join("CFG %s %s\n%s\nEND\n" % (name, text.encode().hex(), "\n".join(lines)) for name, text, lines in items)


def clustercfg_run(d, items, tag="ccfg", timeout=300):
    prog, out, ver = d / (tag + ".prog"), d / (tag + ".trace"), d / (tag + ".verdict")
    prog.write_text(clustercfg_text(items))
    for f in (out, ver):
        if f.exists():
            f.unlink()
    rc, log = lib.sh("%s clustercfg %s %s %s" % (lib.BUILD / "harness", prog, out, d), cwd=d, timeout=timeout)
    if rc != 0 or not out.exists():
        return None, None, "clustercfg rc=%s %s" % (rc, log[-1500:])
    trace = out.read_text()
    parsed = {}
    for l in trace.splitlines():
        if l.startswith("P "):
            fs = l.split()
            parsed[fs[1]] = (fs[2], int(fs[3]))
    rc, log = lib.sh("%s mem %s %s" % (lib.BUILD / "modelrun", out, ver), cwd=d, timeout=timeout)
    if rc != 0 or not ver.exists():
        return parsed, None, "modelrun rc=%s %s" % (rc, log[-1500:])
    return parsed, (memlib.mismatching(ver.read_text().splitlines()), trace), None


def clustercfg_sample(ctx, d, pid, items):
    """(a) obligation: config.ParseConfigJson on each generated cluster JSON yields Databases == 1 whenever
    it accepts the file; (b) the node built from the parsed Config, driven through HandleCluster /
    handleClusterCommits, behaves as the one-database server of the model.  Returns (failing, cov)."""
    ok, log = lib.ensure_harness("harness")
    if not ok:
        return dict(kind="tie-broken", what="harness build failed: " + log[-2000:]), {}
    parsed, res, err = clustercfg_run(d, items)
    if err:
        return dict(kind="clustercfg-harness-died", detail=err), {}
    mm, trace = res
    by = {n: (t, l) for n, t, l in items}
    accepted = [n for n, (st, _) in parsed.items() if st == "ok"]
    bad = sorted(n for n in accepted if parsed[n][1] != 1)
    cov = dict(clustercfg_files=len(items), clustercfg_accepted=len(accepted),
               clustercfg_rejected=sum(1 for st, _ in parsed.values() if st == "error"),
               clustercfg_panicked=sum(1 for st, _ in parsed.values() if st == "panic"),
               clustercfg_with_databases_key=sum(1 for _, t, _ in items if "atabases" in t.lower().replace("databases", "atabases")),
               clustercfg_steps=sum(1 for l in trace.splitlines() if l.startswith("S ")),
               clustercfg_obligation="ParseConfigJson accepted the file => cfg.Databases == 1")
    name = bad[0] if bad else (sorted(mm)[0] if mm else None)
    if not name:
        return None, cov
    text, lines = by[name]
    tl = trace.splitlines()
    start = [i for i, l in enumerate(tl) if l.startswith("CASE %s " % name)][0]
    seg = []
    for l in tl[start:]:
        seg.append(l)
        if l.startswith("END"):
            break
    failing = dict(kind="cluster-config-databases" if bad else "cluster-node-vs-one-database-model",
                   cluster_json=text, parse_status=parsed[name][0], databases_after_parse=parsed[name][1],
                   expected="config.ParseConfigJson leaves cfg.Databases == 1 for every cluster JSON it accepts; the node then "
                            "rejects SELECT i for i != 0, so no connection can move another (premise of C20_cluster_single_database)",
                   cfg_case=[name, text, lines], readable=memlib.decode_case(lines), trace=seg[:40],
                   verdict=mm.get(name, "(replies agree with the one-database model)"),
                   n_files_with_wrong_databases=len(bad), n_mismatching_nodes=len(mm))
    return failing, cov


def clustercfg_replay(ctx, d, replay):
    lib.ensure_harness("harness")
    lib.ensure_modelrun()
    name, text, lines = replay["cfg_case"]
    parsed, res, err = clustercfg_run(d, [(name, text, lines)], tag="ccfgreplay")
    if err:
        print(err)
        return 1
    mm, trace = res
    print(trace)
    st, dbs = parsed[name]
    badcfg = st == "ok" and dbs != 1
    print("ParseConfigJson: %s, Databases = %d%s; replies %s" % (st, dbs, "  (OBLIGATION VIOLATED: must be 1)" if badcfg else "",
                                                           "DISAGREE with the one-database model: " + str(mm[name]) if mm else "agree with the model"))
    return 1 if (badcfg or mm) else 0
