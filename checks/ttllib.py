"""Helpers shared by the C06 and C20 checks: run command programs through the `memx` runner
(harness/memx.go: ALIGN / @T+n directives, one real connection per connection id) instead of
`memrun`, and the real-clock TCP sample with tolerance to second boundaries.

memlib.run_family drives generation/shrinking/evidence; the checks pass `runner=memx_runner(mode)`."""
import functools
import itertools

from . import lib, memlib


CHUNK = 2000   # cases per harness process


def memx_runner(mode):
    """runner for memlib.run_family: harness subcommand memx in the given mode (view | handle)"""
    return functools.partial(memlib.run_prog, subcmd="memx", extra=mode, chunk=CHUNK)


# ----------------------------------------------------------------------------- real clock, TCP

def tcp_sample(ctx, d, pid, cases, timeout=900, max_ambiguous=6):
    """Run cases over real TCP connections against server.Start (real clock, harness without
    faketime) and replay them through the model.  A step whose execution straddles a second
    boundary is accepted under either second: the replay is tried with every assignment of
    before/after clocks to the ambiguous steps (cases with more than max_ambiguous such steps are
    counted as inconclusive).  Returns (failing-or-None, coverage-dict)."""
    ok, log = lib.ensure_harness("harness")
    if not ok:
        return dict(kind="tie-broken", what="real-clock harness build failed: " + log[-2000:]), {}
    prog = d / "tcp.prog"
    out = d / "tcp.trace"
    prog.write_text("".join(c.text() for c in cases))
    rc, log = lib.sh("%s memx %s %s %s tcp" % (lib.BUILD / "harness", prog, out, d), cwd=d, timeout=timeout)
    if rc != 0 or not out.exists():
        return dict(kind="tcp-harness-died", detail="rc=%s %s" % (rc, log[-1500:])), {}
    # split the trace into cases
    tcases, cur = [], []
    for l in out.read_text().splitlines():
        cur.append(l)
        if l.startswith("END"):
            tcases.append(cur)
            cur = []
    n_ok = n_amb = n_inconcl = steps = 0
    failing = None
    by_name = {c.name: c for c in cases}
    for tc in tcases:
        name = tc[0].split()[1]
        # candidate lines per step
        variants = []
        amb = 0
        for l in tc:
            if not l.startswith("S "):
                variants.append([l])
                continue
            steps += 1
            left, obs, after = [x.strip() for x in l.split("|")]
            fs = left.split()
            t0ms, t1ms = int(fs[2]), int(after)
            cand = [l.rsplit("|", 1)[0].rstrip()]
            # BLPOP/BRPOP look at the clock 100 ms after the call
            if t1ms // 1000 != t0ms // 1000 or (t1ms + 100) // 1000 != (t0ms + 100) // 1000:
                amb += 1
                fs2 = list(fs)
                fs2[1], fs2[2] = str(t1ms // 1000), str(t1ms)
                cand.append(" ".join(fs2) + " | " + obs)
            variants.append(cand)
        if amb > max_ambiguous:
            n_inconcl += 1
            continue
        if amb:
            n_amb += 1
        good = False
        last = None
        for choice in itertools.product(*variants):
            tr = d / "tcp1.trace"
            ver = d / "tcp1.verdict"
            tr.write_text("\n".join(choice) + "\n")
            rc, log = lib.sh("%s mem %s %s" % (lib.BUILD / "modelrun", tr, ver), cwd=d, timeout=120)
            v = ver.read_text().splitlines() if ver.exists() else []
            last = (choice, v)
            if rc == 0 and not memlib.mismatching(v):
                good = True
                break
        if good:
            n_ok += 1
        elif not failing:
            c = by_name.get(name)
            failing = dict(kind="impl-vs-model-tcp", case_lines=c.text().splitlines() if c else [],
                           readable=memlib.decode_case(c.text().splitlines()) if c else [],
                           trace=list(last[0])[-40:], verdict=last[1][:5],
                           note="real TCP connections against server.Start, real clock; replies only (no dump); "
                                "replay with: harness memx <prog> <out> <dir> tcp")
    cov = dict(tcp_cases=len(tcases), tcp_ok=n_ok, tcp_steps=steps, tcp_cases_with_boundary_steps=n_amb,
               tcp_inconclusive=n_inconcl)
    return failing, cov
