"""Shared machinery of the concurrency checks C05 / C13 (DESIGN.md 2.3 (T)+(V), 3/C05, 3/C13).

 (T) translator: VERIF_REPO/memdb/*.go -> scratch Gen/LockSkel.v (+ lockskel.json); Gen/Known.v from the
     open `skel:<command>` lines of KNOWN_FINDINGS.txt; coqc re-decides Gen/Obligations.v there.
 (V) harness_conc (built from VERIF_REPO, -tags verif, H2 lock log): N goroutines on overlapping,
     stripe-colliding keys -> history with a global logical clock, lock log, quiescent dump;
     checked for (a) linearizability per key component against the extracted sequential model
     (build/concrun, Wing-Gong search), (b) lock discipline of the H2 log (ascending while holding,
     sections match the static skeleton), (c) quiescent bookkeeping / conservation,
     (d) completion within the watchdog, (e) thorough: the same under -race and over TCP.
"""
import json
import os
import re
import shutil
from pathlib import Path

from . import lib

NLOCKS = 32   # 2 * ShardNum of the harness configuration


# ----------------------------------------------------------------------------- (T) translator

def ensure_translator():
    with lib.BuildLock():
        rc, out = lib.sh("go build -o %s ." % (lib.BUILD / "translator"), cwd=lib.VERIF / "translator", timeout=600)
        return rc == 0, out


def known_skel(pids=("C05", "C13")):
    """Executors named by an open finding `skel:<command>` (of either property)."""
    res = {}
    for pid in pids:
        for kf in lib.known_findings(pid):
            if kf["kind"] == "open" and kf["id"].startswith("skel:"):
                res[kf["id"][5:]] = (pid, kf)
    return res


def translate(workdir):
    """Run the translator and re-check the obligations.  Returns dict:
       ok (all obligations hold), log, report {cmd: dict(why, single, ordered, why_lock)},
       obligations {name: bool}, skel (parsed lockskel.json), known (names exempted)."""
    gen = Path(workdir) / "Gen"
    gen.mkdir(parents=True, exist_ok=True)
    res = dict(ok=False, log="", report={}, obligations={}, skel=None, known=[])
    ok, out = ensure_translator()
    if not ok:
        res["log"] = "translator build failed:\n" + out[-2000:]
        return res
    rc, out = lib.sh("%s %s %s" % (lib.BUILD / "translator", lib.REPO, gen), timeout=120)
    if rc != 0:
        res["log"] = "translator failed:\n" + out[-2000:]
        return res
    res["skel"] = json.loads((gen / "lockskel.json").read_text())
    known = sorted(known_skel().keys())
    res["known"] = known
    (gen / "Known.v").write_text(
        "Require Import List String. Import ListNotations. Local Open Scope string_scope.\n"
        "Definition known_open : list string := [%s].\n" % "; ".join('"%s"' % k for k in known))
    shutil.copy(lib.COQ / "Gen" / "Obligations.v", gen / "Obligations.v")
    log = ""
    for f in ("LockSkel", "Known", "Obligations"):
        rc, out = lib.sh("coqc -Q %s '' -Q %s Gen %s.v" % (lib.COQ, gen, f), cwd=gen, timeout=900)
        log += out
        if rc != 0 and f != "Obligations":
            res["log"] = "coqc %s.v failed:\n%s" % (f, out[-3000:])
            return res
    res["log"] = log
    res["ok"] = (rc == 0)
    for s in re.findall(r'"([^"|]*)\|([^"|]*)\|([01])\|([01])\|([^"|]*)"', log):
        res["report"][s[0]] = dict(why=s[1], single=s[2] == "1", ordered=s[3] == "1", why_lock=s[4])
    for n, b in re.findall(r'\(\s*"(\w+)",\s*(true|false)\)', log):
        res["obligations"][n] = (b == "true")
    # a listed executor that is well locked on this tree (its fix has arrived) is treated like any other
    res["known"] = [k for k in known if res["report"].get(k, {}).get("why")]
    return res


# Conc/SkelOblig.v nonatomic_ok
NONATOMIC_OK = ("mget", "del", "exists", "keys", "blpop", "brpop", "sdiffstore", "sinterstore", "sunionstore")


def obligation_failures(tr):
    """Human-readable list of what the translator obligations object to."""
    bad = []
    for name, r in sorted(tr["report"].items()):
        if name in tr["known"]:
            continue
        if r["why"]:
            bad.append("%s: not well_locked: %s" % (name, r["why"]))
        elif not r["ordered"]:
            bad.append("%s: ordered_acquisition fails: %s" % (name, r["why_lock"]))
        elif not r["single"] and name not in NONATOMIC_OK:
            bad.append("%s: more than one critical section (the command is no longer one atomic step)" % name)
    for n, b in sorted(tr["obligations"].items()):
        if not b:
            bad.append("obligation %s = false" % n)
    for f in ((tr.get("skel") or {}).get("inplace") or []):
        bad.append("%s: in-place write into a stored byte slice: %s" % (f["where"], f["what"]))
    facts = (tr.get("skel") or {}).get("facts", {})
    for n, b in sorted(facts.items()):
        if not b:
            bad.append("shape fact %s = false" % n)
    if not tr["ok"] and not bad:
        bad.append("Gen/Obligations.v does not compile: " + tr["log"][-1500:])
    return bad


# ----------------------------------------------------------------------------- key positions

def unhx(h):
    return b"" if h == "-" else bytes.fromhex(h)


def hx(b):
    return b.hex() if b else "-"


def key_positions(args):
    """Indexes (into args) of the keys of a command -- the Redis key specs of the commands the
    workloads use; anything else: first argument."""
    n = args[0].decode("latin1").lower()
    ln = len(args)
    if n in ("ping", "keys", "select", "publish", "subscribe", "member", "rconf"):
        return []
    if n in ("del", "exists", "mget", "sunion", "sinter", "sdiff", "sunionstore", "sinterstore", "sdiffstore"):
        return list(range(1, ln))
    if n == "mset":
        return list(range(1, ln, 2))
    if n in ("blpop", "brpop"):
        return list(range(1, ln - 1))
    if n in ("lmove", "smove", "rename"):
        return [i for i in (1, 2) if i < ln]
    return [1] if ln > 1 else []


def fnv_stripe(key, nlocks=NLOCKS):
    """util.HashKey % nlocks, re-implemented only to pick out stripes of keys in reports; the
    authoritative comparison is Go vs the extracted Gallina hash (hash_check)."""
    h = 2166136261
    for c in b"@#&" + key + b"*^%$":
        h = (h * 16777619) & 0xFFFFFFFF
        h ^= c
    return h % nlocks


# ----------------------------------------------------------------------------- parsing a phase

class Op:
    __slots__ = ("thread", "seq", "inv", "res", "sec", "ms", "rsec", "rms", "args", "reply", "name")

    def __init__(self, thread, seq, inv, res, sec, ms, rsec, rms, args, reply):
        self.thread, self.seq, self.inv, self.res, self.sec, self.ms = thread, seq, inv, res, sec, ms
        self.rsec, self.rms = rsec, rms
        self.args, self.reply = args, reply
        self.name = args[0].decode("latin1").lower() if args else ""

    def text(self):
        def short(a):
            t = a.decode("latin1")
            return t if len(t) <= 64 else "%s...(%d bytes)" % (t[:16], len(t))
        rep = self.reply if len(self.reply) <= 200 else "%s...(%d chars)" % (self.reply[:40], len(self.reply))
        return " ".join(short(a) for a in self.args) + " -> " + rep

    def ident(self):
        return "t%d.%d" % (self.thread, self.seq)


def read_phase(d):
    d = Path(d)
    ops = []
    for l in (d / "history.txt").read_text().splitlines():
        if not l.startswith("H "):
            continue
        left, reply = l.split(" | ", 1)
        f = left.split(" ")
        ops.append(Op(int(f[1]), int(f[2]), int(f[3]), int(f[4]), int(f[5]), int(f[6]), int(f[7]), int(f[8]),
                      [unhx(h) for h in f[9:]], reply.strip()))
    q = dict(status="?", panics=0, dump=[], dend=0, keys=None, exists={}, count=None, stripes={})
    for l in (d / "quiescent.txt").read_text().splitlines():
        f = l.split(" ")
        if f[0] == "STATUS":
            q["status"] = f[1]
            q["panics"] = int(f[2].split("=")[1])
        elif f[0] == "D":
            q["dump"].append(l)
        elif f[0] == "DEND":
            q["dend"] = int(f[1])
        elif f[0] == "KEYS":
            q["keys"] = l[5:]
        elif f[0] == "EXISTS":
            q["exists"][f[1]] = f[2]
        elif f[0] == "COUNT":
            q["count"] = [int(x) for x in f[1:]]
        elif f[0] == "STRIPE":
            q["stripes"][f[1]] = (int(f[2]), int(f[3]))
    locks = {}
    for l in (d / "locklog.txt").read_text().splitlines():
        f = l.split(" ")
        locks.setdefault((int(f[1]), int(f[2])), []).append((int(f[3]), int(f[4]), int(f[5])))
    return ops, q, locks


# ----------------------------------------------------------------------------- (a) linearizability

STAGED = {"del": "sum", "exists": "sum", "mget": "concat"}


def components(ops):
    """Union-find over keys: ops that share a key (directly or through multi-key ops) are checked
    together (P-compositionality: linearizability is local to disjoint key sets)."""
    parent = {}

    def find(x):
        while parent.setdefault(x, x) != x:
            parent[x] = parent[parent[x]]
            x = parent[x]
        return x

    for o in ops:
        ks = [o.args[i] for i in key_positions(o.args)]
        for k in ks[1:]:
            parent[find(k)] = find(ks[0])
        for k in ks[:1]:
            find(k)
    comps = {}
    for o in ops:
        ks = [o.args[i] for i in key_positions(o.args)]
        if not ks:
            continue
        comps.setdefault(find(ks[0]), []).append(o)
    keysof = {}
    for k in parent:
        keysof.setdefault(find(k), []).append(k)
    return [(sorted(keysof[r]), comps[r]) for r in sorted(comps)]


def dump_index(dump):
    idx = {}
    for l in dump:
        idx.setdefault(l.split(" ")[2], []).append(l)
    return idx


def lin_lines(name, keys, ops, dump, atomic, pending_after=None, final=True):
    """Input block for `concrun lin`.  atomic: set of command names whose skeleton is one section."""
    out = ["COMP " + name, "KEYS " + " ".join(hx(k) for k in keys)]
    for o in ops:
        mode = "one"
        stages = [o.args]
        obs = o.reply
        if o.name in ("blpop", "brpop"):
            # the executor polls the keys in order, each under its own lock: a pop served from key j
            # needs earlier instants at which keys 0..j-1 did not exist, a nil reply one for every key
            keys_ = o.args[1:-1]
            pop = b"LPOP" if o.name == "blpop" else b"RPOP"
            m = re.match(r"^\*\[\$(\S+) (\$\S+)\]$", obs)
            if m:
                j = keys_.index(unhx(m.group(1))) if unhx(m.group(1)) in keys_ else 0
                stages = [[b"EXISTS", k] for k in keys_[:j]] + [[pop, keys_[j]]]
                obs = " ;; ".join([":0"] * j + [m.group(2)])
            elif obs == "$nil":
                stages = [[b"EXISTS", k] for k in keys_]
                obs = " ;; ".join([":0"] * len(keys_))
            else:
                continue        # error reply: no effect claimed
            mode = "each"
        elif o.name in STAGED and len(o.args) > 2:
            mode = STAGED[o.name]
            stages = [[o.args[0], k] for k in o.args[1:]]
        if pending_after is not None and o.res > pending_after:
            if o.inv > pending_after:
                continue
            mode = "pending"
        out.append("O %s %d %d %d %d %d %d %s | %s" % (o.ident(), o.inv, o.res, o.sec, o.ms, o.rsec, o.rms, mode, obs))
        for st in stages:
            out.append("G " + " ".join(hx(a) for a in st))
    if final and pending_after is None:
        idx = dump if isinstance(dump, dict) else dump_index(dump)
        for k in keys:
            for l in idx.get(hx(k), []):
                out.append("FINAL " + l)
    else:
        out.append("NOFINAL")
    out.append("END")
    return out


def run_concrun(lines, d, budget):
    (Path(d) / "lin_in.txt").write_text("\n".join(lines) + "\n")
    rc, out = lib.sh("%s lin lin_in.txt lin_out.txt %d" % (lib.BUILD / "concrun", budget), cwd=d, timeout=1500)
    if rc != 0:
        return None, out
    return (Path(d) / "lin_out.txt").read_text().splitlines(), out


def modelled_commands(names, d):
    rc, out = lib.sh("%s modelled modelled.txt %s" % (lib.BUILD / "concrun", " ".join(sorted(names))), cwd=d, timeout=120)
    res = {}
    if rc == 0:
        for l in (Path(d) / "modelled.txt").read_text().splitlines():
            n, b = l.split(" ")
            res[n] = (b == "true")
    return res


def check_linearizable(phase, ops, q, tr, d, budget, stats):
    """Returns list of violations (dicts).  Components using commands the sequential model does
    not know, or whose skeleton is not a single section (and is not decomposable), are counted as
    unchecked, never as violations."""
    viol = []
    names = set(o.name for o in ops)
    modelled = modelled_commands(names, d)
    rep = tr["report"]
    blocks = []
    meta = {}
    didx = dump_index(q["dump"])
    for i, (keys, cops) in enumerate(components(ops)):
        cname = "%s.c%d" % (phase, i)
        unknown = sorted(set(o.name for o in cops if not modelled.get(o.name, False)))
        # not checked as atomic steps: executors with an open listed finding, and the STORE forms
        # (not required atomic) while their skeleton is not a single well-locked section
        def skipped(n):
            r = rep.get(n, {})
            if n in tr["known"]:
                return True
            if n in ("sdiffstore", "sinterstore", "sunionstore"):
                return not (r.get("single", False) and not r.get("why"))
            return False
        nonatomic = sorted(set(o.name for o in cops if skipped(o.name)))
        if unknown or nonatomic:
            stats["components_unchecked"] += 1
            stats["ops_unchecked"] += len(cops)
            for n in unknown:
                stats["unmodelled"].add(n)
            continue
        meta[cname] = (keys, cops)
        blocks += lin_lines(cname, keys, cops, didx, None)
    if not blocks:
        return viol
    res, log = run_concrun(blocks, d, budget)
    if res is None:
        return [dict(kind="checker-error", phase=phase, log=log[-2000:])]
    for l in res:
        f = l.split(" ")
        verdict, cname = f[0], f[1]
        keys, cops = meta[cname]
        stats["components_checked"] += 1
        stats["ops_checked"] += len(cops)
        if verdict == "OK":
            # non-trivial: overlapped in time with a command of another thread on the same keys
            srt = sorted(cops, key=lambda o: o.inv)
            for i, o in enumerate(srt):
                conc = False
                for p2 in srt[i + 1:]:
                    if p2.inv > o.res:
                        break
                    if p2.thread != o.thread:
                        conc = True
                        stats["nontrivial"].add((tuple(p2.args), p2.reply))
                if conc:
                    stats["nontrivial"].add((tuple(o.args), o.reply))
        stats["search_nodes"] += int(re.search(r"nodes=(\d+)", l).group(1))
        if verdict == "OK":
            continue
        if verdict == "BUDGET":
            stats["components_budget"] += 1
            continue
        # shrink: shortest prefix (by response time) that is already not linearizable
        times = sorted(o.res for o in cops)
        lo, hi = 0, len(times) - 1
        diag = l
        fullfinal_only = False
        r0, _ = run_concrun(lin_lines(cname, keys, cops, q["dump"], None, final=False), d, budget)
        if r0 and r0[0].startswith("OK"):
            fullfinal_only = True     # the history is linearizable but not with the observed final state
        else:
            while lo < hi:
                mid = (lo + hi) // 2
                r, _ = run_concrun(lin_lines(cname, keys, cops, q["dump"], None, pending_after=times[mid]), d, budget)
                if r and r[0].startswith("NONLIN"):
                    hi = mid
                    diag = r[0]
                else:
                    lo = mid + 1
        cut = times[hi] if not fullfinal_only else times[-1]
        sub = [o for o in cops if o.inv <= cut]
        shrunk = lin_lines(cname, keys, cops, q["dump"], None,
                           pending_after=None if fullfinal_only else cut, final=True)
        viol.append(dict(kind="not-linearizable", phase=phase, component=cname, lin_input=shrunk,
                         keys=[k.decode("latin1") for k in keys],
                         stripes={k.decode("latin1"): fnv_stripe(k) for k in keys},
                         final_state_only=fullfinal_only, checker=diag,
                         final_dump=[x for x in q["dump"] if x.split(" ")[2] in set(hx(k) for k in keys)],
                         history=[dict(op=o.ident(), inv=o.inv, res=o.res if o.res <= cut else None, cmd=o.text() if o.res <= cut else " ".join(a.decode("latin1") for a in o.args) + " -> (pending)")
                                  for o in sorted(sub, key=lambda o: o.inv)][:400]))
    return viol


# ----------------------------------------------------------------------------- (b) lock log

def _walk(evs, out):
    for e in evs:
        k = e["kind"]
        if k in ("lock", "lockmulti", "checkttl"):
            out.append(e)
        for b in ("body",):
            if e.get(b):
                _walk(e[b], out)
        for a in e.get("alts") or []:
            _walk(a, out)


def static_shapes(skel):
    """command -> list of lock shapes (lock / lockmulti / checkttl events anywhere in the skeleton)"""
    res = {}
    for s in skel["skels"]:
        out = []
        _walk(s["evs"], out)
        res[s["name"]] = out
    return res


def _eval_set(s, args, allkeys):
    if s is None or s["kind"] == "unknown":
        return None, allkeys
    if s["kind"] == "args":
        hi = len(args) - s.get("drop", 0)
        return args[s.get("from", 0):hi], None
    return None, allkeys        # variable: some subset of the command's keys


def _eval_k(k, args, allkeys):
    """possible keys denoted by a key expression (list), or None = any of allkeys"""
    kind = k["kind"]
    if kind == "arg":
        return [args[k["i"]]] if k.get("i", 0) < len(args) else []
    if kind == "lower":
        inner = _eval_k(k["e"], args, allkeys)
        return None if inner is None else [x.lower() for x in inner]
    if kind in ("in", "idx"):
        exact, _ = _eval_set(k.get("s"), args, allkeys)
        return exact
    return None


def section_matches(shape, mode, poses, args, allkeys):
    sm = shape.get("mode", "W")
    if shape["kind"] == "checkttl":
        sm = "W"
    if sm != mode:
        return False
    allst = sorted(set(fnv_stripe(k) for k in allkeys))
    if shape["kind"] in ("lock", "checkttl"):
        ks = _eval_k(shape["k"], args, allkeys)
        cand = allst if ks is None else [fnv_stripe(k) for k in ks]
        return len(poses) == 1 and poses[0] in cand
    exact, loose = [], False
    for t in shape.get("ts") or []:
        if t.get("k") is not None:
            ks = _eval_k(t["k"], args, allkeys)
            if ks is None:
                loose = True
            else:
                exact += ks
        else:
            ex, anyof = _eval_set(t.get("s"), args, allkeys)
            if ex is None:
                loose = True
            else:
                exact += ex
    need = sorted(set(fnv_stripe(k) for k in exact))
    if not loose:
        return poses == need
    return set(need) <= set(poses) <= set(allst) and poses == sorted(set(poses))


def check_locklog(phase, ops, locks, tr, stats):
    """(b1) per goroutine, every request is above every stripe it holds (so never a stripe it
    holds); (b2) nothing stays held across commands; (b3) every critical section of a command is
    an instance of a lock event of its static skeleton, evaluated on the actual arguments."""
    viol = []
    shapes = static_shapes(tr["skel"])
    byid = {(o.thread, o.seq): o for o in ops}
    for (gid, thread), evs in sorted(locks.items()):
        held = {}           # pos -> mode
        cur = None          # current op
        section, secmode = [], None
        for (seq, kind, pos) in evs:
            if kind == 4:       # marker
                if held:
                    viol.append(dict(kind="lock-held-across-commands", phase=phase, goroutine=gid,
                                     op=cur.text() if cur else None, held=sorted(held)))
                    held = {}
                cur = byid.get((thread, pos))
                section, secmode = [], None
                continue
            stats["lock_events"] += 1
            if kind in (0, 2):
                mode = "W" if kind == 0 else "R"
                if held and pos <= max(held):
                    viol.append(dict(kind="lock-order", phase=phase, goroutine=gid,
                                     op=cur.text() if cur else "(background goroutine)",
                                     requested=pos, mode=mode, holding=sorted(held),
                                     note="a stripe was requested that is not above every stripe already held"))
                held[pos] = mode
                if not section:
                    secmode = mode
                elif secmode != mode:
                    secmode = "mixed"
                section.append(pos)
            else:
                if pos not in held:
                    viol.append(dict(kind="unlock-not-held", phase=phase, goroutine=gid,
                                     op=cur.text() if cur else None, pos=pos))
                held.pop(pos, None)
                if not held and section:
                    stats["sections"] += 1
                    if cur is not None:
                        allkeys = [cur.args[i] for i in key_positions(cur.args)]
                        sh = shapes.get(cur.name, [])
                        if not any(section_matches(s, secmode, section, cur.args, allkeys) for s in sh):
                            viol.append(dict(kind="section-not-in-skeleton", phase=phase, op=cur.text(),
                                             mode=secmode, stripes=section,
                                             key_stripes={k.decode("latin1"): fnv_stripe(k) for k in allkeys},
                                             static=[dict(kind=s["kind"], mode=s.get("mode")) for s in sh]))
                        else:
                            stats["sections_matched"] += 1
                    section, secmode = [], None
        if held:
            viol.append(dict(kind="lock-held-at-end", phase=phase, goroutine=gid, held=sorted(held)))
    return viol


# ----------------------------------------------------------------------------- (c) quiescent state

def parse_array(reply):
    if not reply.startswith("*["):
        return None
    inner = reply[2:-1]
    return [x for x in inner.split(" ") if x]


def check_quiescent(phase, ops, q, stats):
    viol = []
    for o in ops:
        if o.reply.startswith("!"):
            viol.append(dict(kind="server-crash", phase=phase, op=o.text(),
                             note="the executor panicked (a real server process dies: nothing recovers panics)"))
    dumpkeys = sorted(l.split(" ")[2] for l in q["dump"])
    for l in q["dump"]:
        if "BROKEN(" in l or "CYCLE" in l or "ORPHAN-TTL" in l or " ? " in l:
            viol.append(dict(kind="structure-broken", phase=phase, dump=l))
    if q["keys"] is not None:
        ks = parse_array(q["keys"])
        got = sorted(k[1:] for k in ks) if ks is not None else None
        if got != dumpkeys:
            viol.append(dict(kind="keys-disagrees-with-data", phase=phase, keys_reply=q["keys"][:2000],
                             stored=dumpkeys[:200]))
    for k, r in q["exists"].items():
        want = ":1" if k in dumpkeys else ":0"
        stats["exists_checked"] += 1
        if r != want:
            viol.append(dict(kind="exists-disagrees-with-data", phase=phase, key=unhx(k).decode("latin1"), reply=r, stored=(k in dumpkeys)))
    if q["count"] is not None:
        c, a, tc, ta = q["count"]
        if c != a or tc != ta:
            viol.append(dict(kind="key-counter-wrong", phase=phase, db_count=c, db_actual=a, ttl_count=tc, ttl_actual=ta))
    return viol


def check_keys_replies(phase, ops):
    """KEYS runs while keys come and go (it is not one atomic step): every name it returns must be
    a key some command of the phase wrote, without repetition."""
    viol = []
    written = set()
    for o in ops:
        for i in key_positions(o.args):
            written.add(hx(o.args[i]))
    for o in ops:
        if o.name != "keys":
            continue
        ks = parse_array(o.reply)
        if ks is None:
            viol.append(dict(kind="keys-reply-malformed", phase=phase, op=o.text()[:300]))
            continue
        names = [k[1:] for k in ks]
        if len(set(names)) != len(names) or any(n not in written for n in names):
            bad = [unhx(n).decode("latin1") if n != "nil" else "nil" for n in names if n not in written][:5]
            viol.append(dict(kind="keys-reply-wrong", phase=phase, op=("KEYS * -> %d names" % len(names)),
                             never_written=bad, duplicates=len(names) - len(set(names))))
    return viol


def check_list_conservation(phase, ops, q):
    """hotlist phase: only pushes of unique elements, pops and moves between the phase's lists run, so
    every acknowledged push must be returned by exactly one pop or still be stored at quiescence
    (C05_queue_conservation / C05_each_element_popped_once: true of every linearizable history)."""
    viol = []
    pushed, popped = {}, {}
    for o in ops:
        if o.name in ("lpush", "rpush") and o.reply.startswith(":"):
            for a in o.args[2:]:
                pushed[hx(a)] = o
        elif o.name in ("lpop", "rpop") and o.reply.startswith("$") and o.reply != "$nil":
            popped.setdefault(o.reply[1:], []).append(o)
        elif o.name in ("blpop", "brpop"):
            m = re.match(r"^\*\[\$(\S+) \$(\S+)\]$", o.reply)
            if m:
                popped.setdefault(m.group(2), []).append(o)
    stored = {}
    for l in q["dump"]:
        f = l.split(" ")
        if f[4] == "L" and len(f) > 7 and f[7]:
            for x in f[7].split(","):
                stored[x] = stored.get(x, 0) + 1
    lost = [e for e in pushed if e not in popped and e not in stored]
    twice = [e for e in popped if len(popped[e]) + stored.get(e, 0) > 1]
    ghost = [e for e in list(popped) + list(stored) if e not in pushed]
    if lost or twice or ghost:
        def show(e):
            return unhx(e).decode("latin1")
        viol.append(dict(kind="list-elements-not-conserved", phase=phase,
                         lost_total=len(lost), popped_twice_total=len(twice), never_pushed_total=len(ghost),
                         pushed_total=len(pushed), popped_total=sum(len(v) for v in popped.values()),
                         stored_at_quiescence=sum(stored.values()),
                         lost=[dict(element=show(e), acknowledged_push="%s [%d,%d] %s" % (pushed[e].ident(), pushed[e].inv, pushed[e].res, pushed[e].text())) for e in lost[:6]],
                         popped_twice=[dict(element=show(e), pops=[p.ident() + " " + p.text() for p in popped[e]][:3]) for e in twice[:4]],
                         never_pushed=[show(e) for e in ghost[:4]],
                         final_dump=[x[:300] for x in q["dump"]],
                         note="an acknowledged push is neither returned by any pop nor stored at quiescence (or an element came out twice): no sequential order of the commands explains the history"))
    return viol


def check_conservation(phase, ops, q):
    """conserve phase: only LMOVE / SMOVE (and readers) run after the setup, so the multiset of list
    elements and the set of set members must be exactly what the setup stored."""
    viol = []
    init_l, init_s = [], []
    for o in ops:
        if o.thread == -1 and o.name == "rpush":
            init_l += [hx(a) for a in o.args[2:]]
        if o.thread == -1 and o.name == "sadd":
            init_s += [hx(a) for a in o.args[2:]]
    fin_l, fin_s = [], []
    for l in q["dump"]:
        f = l.split(" ")
        if f[4] == "L":
            fin_l += [x for x in (f[7].split(",") if len(f) > 7 and f[7] else [])]
        if f[4] == "T":
            fin_s += [x for x in (f[6].split(",") if len(f) > 6 and f[6] else [])]
    if sorted(init_l) != sorted(fin_l):
        lost = sorted(set(init_l) - set(fin_l))
        dup = sorted(x for x in set(fin_l) if fin_l.count(x) > 1)
        viol.append(dict(kind="list-elements-not-conserved", phase=phase,
                         lost=[unhx(x).decode() for x in lost], duplicated=[unhx(x).decode() for x in dup]))
    if sorted(init_s) != sorted(fin_s):
        lost = sorted(set(init_s) - set(fin_s))
        dup = sorted(x for x in set(fin_s) if fin_s.count(x) > 1)
        viol.append(dict(kind="set-members-not-conserved", phase=phase,
                         lost=[unhx(x).decode() for x in lost], duplicated=[unhx(x).decode() for x in dup]))
    return viol


# ----------------------------------------------------------------------------- hash tie

def hash_check(keys, d):
    """util.HashKey / GetKeyPos (Go) vs hash_key / stripe (extracted Gallina), bit for bit."""
    p = Path(d)
    (p / "hk_in.txt").write_text("\n".join(hx(k) for k in keys) + "\n")
    rc1, o1 = lib.sh("%s hash hk_in.txt hk_go.txt" % (lib.BUILD / "harness_conc"), cwd=d, timeout=120)
    rc2, o2 = lib.sh("%s hash hk_in.txt hk_coq.txt %d" % (lib.BUILD / "concrun", NLOCKS), cwd=d, timeout=300)
    if rc1 != 0 or rc2 != 0:
        return None, "hash run failed: " + o1[-500:] + o2[-500:]
    a = (p / "hk_go.txt").read_text().splitlines()
    b = (p / "hk_coq.txt").read_text().splitlines()
    for x, y in zip(a, b):
        if x != y:
            return dict(go=x, coq=y), None
    if len(a) != len(b):
        return dict(go="lines=%d" % len(a), coq="lines=%d" % len(b)), None
    return None, None


def hash_keys(seed, n):
    import random
    r = random.Random(seed)
    keys = [b"", b"a", b"k1", b"\x00", b"\xff\xfe", b"Foo", b"foo"]
    for i in range(n):
        ln = r.choice([1, 2, 3, 5, 8, 13, 40])
        keys.append(bytes(r.randrange(256) for _ in range(ln)))
    return keys


# ----------------------------------------------------------------------------- driving a run

def new_stats():
    return dict(components_checked=0, components_unchecked=0, components_budget=0, ops_checked=0,
                ops_unchecked=0, search_nodes=0, lock_events=0, sections=0, sections_matched=0,
                exists_checked=0, unmodelled=set(), ops_total=0, phases=[], commands=set(), screened={}, nontrivial=set(), slow_phases=[], unreproduced_timing=[])


def run_workload(out, seed, tier, phases, skip, race=False, tcp=False, threads=None, nops=None, timeout=900, focus=None):
    """Runs harness_conc; returns (rc, output).  rc 4 = a phase did not finish (watchdog)."""
    exe = lib.BUILD / ("harness_conc_race" if race else "harness_conc")
    env = {"VERIF_CONC_SKIP": ",".join(sorted(skip)), "GORACE": "halt_on_error=0"}
    if focus:
        env["VERIF_CONC_FOCUS"] = ",".join(sorted(focus))
    if tcp:
        env["VERIF_CONC_TCP"] = "1"
    if threads:
        env["VERIF_CONC_THREADS"] = str(threads)
    if nops:
        env["VERIF_CONC_OPS"] = str(nops)
    Path(out).mkdir(parents=True, exist_ok=True)
    return lib.sh("%s conc %d %s %s %s" % (exe, seed, tier, out, ",".join(phases)), timeout=timeout, extra_env=env)


def check_phase_dir(phase, d, tr, budget, stats, want_lin=True):
    """All checks on one finished phase directory.  Returns list of violations."""
    ops, q, locks = read_phase(d)
    stats["ops_total"] += len(ops)
    stats["phases"].append(phase)
    for o in ops:
        stats["commands"].add(o.name)
    viol = check_quiescent(phase, ops, q, stats)
    viol += check_keys_replies(phase, ops)
    viol += check_locklog(phase, ops, locks, tr, stats)
    if phase == "conserve":
        viol += check_conservation(phase, ops, q)
    if phase == "hotlist":
        cons = check_list_conservation(phase, ops, q)
        viol += cons
        if cons:
            want_lin = False        # lost / duplicated elements are the concrete history already
        budget = min(budget, 100_000)
    if want_lin and not any(v["kind"] == "server-crash" for v in viol):
        viol += check_linearizable(phase, ops, q, tr, d, budget, stats)
    return viol


def check_bigval(d, stats):
    """bigval phase: every GET / GETRANGE / MGET reply of a key that only ever holds N copies of one
    letter must itself be N copies of one letter (the reply is serialised after the lock is released)."""
    viol = []
    txt = (Path(d) / "result.txt").read_text().splitlines()
    done = [l for l in txt if l.startswith("DONE")]
    torn = [l for l in txt if l.startswith("TORN")]
    m = None
    ntorn = 0
    for dl in done:
        m = re.search(r"n=(\d+) reads=(\d+) writes=(\d+) torn=(\d+)", dl)
        if m:
            stats["ops_total"] += int(m.group(2)) + int(m.group(3))
            stats["bigval_reads"] = stats.get("bigval_reads", 0) + int(m.group(2))
            ntorn += int(m.group(4))
    if done:
        stats["phases"].append("bigval")
    if torn or ntorn > 0:
        viol.append(dict(kind="torn-reply", phase="bigval",
                         workload="key holds N=%s bytes of one letter; 4 writers: SETRANGE k 0 <N x own letter> / SET k <N x own letter>; 4 readers: GET k / GETRANGE k 0 -1 / MGET k; reply serialised after the executor returned (as Manager.Handle does)" % (m.group(1) if m else "?"),
                         replies=torn[:4], torn_total=ntorn,
                         note="the reply mixes bytes of two different writes: a value the key never held (the reply aliases a stored slice that a writer modified in place)"))
    return viol


def check_keyscan(d, stats):
    """keyscan phase: KEYS * while others create and delete keys must list every key that is present
    throughout the call (the stable keys), only keys that were ever written, none twice."""
    viol = []
    txt = (Path(d) / "result.txt").read_text().splitlines()
    done = [l for l in txt if l.startswith("DONE")]
    bad = [l for l in txt if l.split(" ")[0] in ("MISSING", "DUPLICATE", "UNKNOWN", "MALFORMED", "EXISTS")]
    stable = [l for l in txt if l.startswith("STABLE")]
    m = re.search(r"scans=(\d+) churn_writes=(\d+) violations=(\d+)", done[0]) if done else None
    if m:
        stats["ops_total"] += int(m.group(1)) + int(m.group(2))
        stats["keyscan_scans"] = stats.get("keyscan_scans", 0) + int(m.group(1))
        stats["phases"].append("keyscan")
    if bad or (m and int(m.group(3)) > 0):
        viol.append(dict(kind="keys-reply-incomplete", phase="keyscan",
                         workload="24 stable keys SET once and never touched (half of them in the last three map shards); 4 writers create and DEL bursts of churn<w>.<i> keys; 3 readers loop KEYS *",
                         first_violations=bad[:4], violations_total=int(m.group(3)) if m else None,
                         stable_keys_and_shards=stable[0][7:] if stable else None,
                         note="a key that exists before, during and after the call is missing from the KEYS reply: every linearizable reading of KEYS lists it (C05_keys_contains_stable)"))
    return viol


def hang_report(phase, d):
    d = Path(d)
    txt = (d / "hang.txt").read_text() if (d / "hang.txt").exists() else ""
    blocked = re.findall(r"goroutine \d+ \[(?:sync\.(?:RW)?Mutex\.R?Lock|semacquire)[^\]]*\]:\n(?:.+\n){1,12}", txt)
    blocked = [b for b in blocked if "Mutex" in b and "WaitGroup" not in b]
    head = txt.split("\n", 1)[0] if txt else ""
    log = (d / "locklog.txt").read_text().splitlines() if (d / "locklog.txt").exists() else []
    return dict(kind="did-not-finish", phase=phase,
                note="no command completed during a whole watchdog window while goroutines are blocked acquiring a lock: deadlock (or a panic while holding a lock)",
                progress=head,
                blocked_goroutines=[b[:900] for b in blocked[:8]], lock_log_tail=log[-60:])
