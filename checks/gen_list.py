"""Program generators for C09 (list commands).  All randomness from one PRNG seeded by VERIF_SEED.

Streams (each returns a list of Case):
  corpus-like hand cases   regress()          regressions found while building the model
  random programs          gen_random()       1-30 commands, 2-4 keys, DUMP (H1 pointer self-check) after every step
  boundary sweeps          gen_boundary()     every index / count / LPOS option combination around every small length
  TTL interplay            gen_ttl()          EXPIRE on a list, then pushes/pops/blocking pops across the deadline
  blocking forms           gen_blocking()     BLPOP/BRPOP with a second connection acting at chosen virtual instants (BG)
  bounded-exhaustive       gen_exhaustive(n)  all programs of length <= n over 2 keys and a fixed command alphabet
"""
import itertools
import random

from . import gen
from .gen import hx, pick, randcase

MIN64 = b"-9223372036854775808"
MAX64 = b"9223372036854775807"


class LCase(gen.Case):
    def bg(self, args, delay_ms, conn=1):
        """command of another connection, issued delay_ms after the next C command starts"""
        self.lines.append("BG %d %d %s" % (conn, delay_ms, " ".join(hx(a) for a in args)))
        self.nsteps += 1

    def step(self, args, sleep_ms=0, conn=0):
        self.cmd(args, conn=conn, sleep_ms=sleep_ms)
        self.dump()


KEYS = [b"k", b"K", b"j", b"key1", b"", b"a b", b"x\r\ny", b"\x00\xff", b"other", b"l:1"]
ELEMS = [b"a", b"b", b"c", b"a", b"", b"x\r\ny", b"\x00\xff", b"A", b"dup", b"dup", b"10", b"-1", b"a"]
NONINT = [b"x", b"", b"1.5", b" 1", b"1 ", b"0x10", b"9223372036854775808", b"-9223372036854775809",
          b"99999999999999999999", b"--1", b"+", b"-"]
BORDER = [b"+3", b"007", b"-0", b"+0"]


def idx_pool(n):
    """indexes around every boundary of a list of length n"""
    xs = set(range(-n - 2, n + 3))
    res = [str(i).encode() for i in sorted(xs)]
    return res + [MIN64, MAX64, b"-9223372036854775807", b"9223372036854775806"]


def rand_idx(r, n=4):
    c = r.random()
    if c < 0.8:
        return pick(r, idx_pool(n))
    if c < 0.9:
        return pick(r, NONINT)
    return pick(r, BORDER)


def lpos_opts(r):
    opts = []
    names = [b"rank", b"count", b"maxlen"]
    k = r.choice([0, 1, 1, 2, 2, 3, 4])
    for _ in range(k):
        nm = pick(r, names) if r.random() < 0.93 else pick(r, [b"bogus", b"", b"rank ", b"ran"])
        opts.append(randcase(r, nm))
        if r.random() < 0.95:
            if r.random() < 0.9:
                opts.append(pick(r, [b"0", b"1", b"2", b"3", b"-1", b"-2", b"-3", b"4", b"5", b"10", MIN64, MAX64]))
            else:
                opts.append(pick(r, NONINT + BORDER))
    return opts


def list_cmd(r, keys):
    k = lambda: pick(r, keys)
    e = lambda: pick(r, ELEMS)
    c = r.randrange(100)
    if c < 14:
        return [randcase(r, pick(r, [b"lpush", b"rpush"])), k()] + [e() for _ in range(r.randrange(1, 5))]
    if c < 19:
        return [randcase(r, pick(r, [b"lpushx", b"rpushx"])), k()] + [e() for _ in range(r.randrange(1, 3))]
    if c < 28:
        a = [randcase(r, pick(r, [b"lpop", b"rpop"])), k()]
        if r.random() < 0.6:
            a.append(rand_idx(r, 3))
        return a
    if c < 31:
        return [b"llen", k()]
    if c < 37:
        return [b"lindex", k(), rand_idx(r)]
    if c < 46:
        return [b"lrange", k(), rand_idx(r), rand_idx(r)]
    if c < 52:
        return [b"lset", k(), rand_idx(r), e()]
    if c < 60:
        return [b"lrem", k(), rand_idx(r, 3), e()]
    if c < 67:
        return [b"ltrim", k(), rand_idx(r), rand_idx(r)]
    if c < 79:
        return [randcase(r, b"lpos"), k(), e()] + lpos_opts(r)
    if c < 87:
        return [b"lmove", k(), k(), randcase(r, pick(r, [b"left", b"right", b"up", b""])),
                randcase(r, pick(r, [b"left", b"right", b"right", b"down"]))]
    if c < 91:
        return [pick(r, [b"blpop", b"brpop", b"BLPOP"])] + [k() for _ in range(r.randrange(1, 4))] + \
               [pick(r, [b"1", b"2", b"1", b"-1", b"x", b"1.5", b"", b"9223372036854775807", b"9223372037", b"+1"])]
    if c < 94:
        return [pick(r, [b"exists", b"type", b"del", b"ttl"]), k()]
    if c < 97:
        return [b"expire", k(), pick(r, [b"1", b"2", b"3", b"100"])]
    name = pick(r, [b"lpush", b"rpush", b"lpop", b"rpop", b"llen", b"lindex", b"lrange", b"lset", b"lrem", b"ltrim", b"lpos",
                    b"lmove", b"blpop", b"brpop", b"lpushx", b"rpushx"])
    n = r.randrange(0, 7)
    if name in (b"blpop", b"brpop") and n >= 2:
        # keep malformed blocking forms from blocking for ever: a timeout that is an error or short
        return [name] + [pick(r, ELEMS) for _ in range(n - 1)] + [pick(r, [b"x", b"-1", b"1", b""])]
    return [name] + [pick(r, ELEMS + idx_pool(2)) for _ in range(n)]


def prepop(r, c, keys):
    for k in keys:
        x = r.random()
        if x < 0.25:
            c.step([b"set", k, pick(r, gen.VALS)])
        elif x < 0.7:
            c.step([b"rpush", k] + [pick(r, ELEMS) for _ in range(r.randrange(1, 6))])
            if r.random() < 0.3:
                c.step([b"expire", k, pick(r, [b"1", b"2", b"3"])])


def gen_random(seed, ncases, maxlen=30):
    r = random.Random(seed * 7919 + 1)
    cases = []
    for i in range(ncases):
        c = LCase("c09r_%d_%d" % (seed, i))
        keys = r.sample(KEYS, r.randrange(2, 5))
        prepop(r, c, keys)
        for _ in range(r.randrange(1, maxlen + 1)):
            sl = pick(r, [300, 700, 1000, 1500, 2500]) if r.random() < 0.15 else 0
            c.step(list_cmd(r, keys), sleep_ms=sl)
        cases.append(c)
    return cases


# ---------------------------------------------------------------- boundary sweeps
LISTS = [[], [b"a"], [b"a", b"b"], [b"a", b"b", b"a"], [b"a", b"a", b"b", b"a"], [b"", b"a", b"", b"b", b"a"]]


def reset(c, k, l):
    c.cmd([b"del", k])
    if l:
        c.cmd([b"rpush", k] + l)


def gen_boundary(seed, full=False):
    """systematic sweeps; `full` (thorough tier) takes every combination, quick a seeded sample"""
    r = random.Random(seed * 104729 + 2)
    cases = []

    def sample(xs, n):
        xs = list(xs)
        if full or len(xs) <= n:
            return xs
        return r.sample(xs, n)

    k = b"k"
    for li, l in enumerate(LISTS):
        n = len(l)
        ip = idx_pool(n)
        # LRANGE / LTRIM over all index pairs
        c = LCase("c09b_range_%d" % li)
        reset(c, k, l)
        for s, e in sample(itertools.product(ip, ip), 250):
            c.cmd([b"lrange", k, s, e])
        c.dump()
        cases.append(c)
        c = LCase("c09b_trim_%d" % li)
        for s, e in sample(itertools.product(ip, ip), 150):
            reset(c, k, l)
            c.step([b"ltrim", k, s, e])
        cases.append(c)
        # LINDEX / LSET
        c = LCase("c09b_index_%d" % li)
        reset(c, k, l)
        for i in ip + NONINT[:4] + BORDER:
            c.cmd([b"lindex", k, i])
        for i in ip + NONINT[:4] + BORDER:
            reset(c, k, l)
            c.step([b"lset", k, i, b"Z"])
        cases.append(c)
        # LPOP / RPOP counts
        c = LCase("c09b_pop_%d" % li)
        for name in (b"lpop", b"rpop"):
            reset(c, k, l)
            c.step([name, k])
            for cnt in ip + NONINT[:3] + BORDER:
                reset(c, k, l)
                c.step([name, k, cnt])
        cases.append(c)
        # LREM: every count sign / magnitude, present and absent element
        c = LCase("c09b_rem_%d" % li)
        for cnt, v in sample(itertools.product(ip, [b"a", b"b", b"", b"zz"]), 60):
            reset(c, k, l)
            c.step([b"lrem", k, cnt, v])
        cases.append(c)
        # pushes and X forms
        c = LCase("c09b_push_%d" % li)
        for name in (b"lpush", b"rpush", b"lpushx", b"rpushx"):
            for vals in ([b"x"], [b"x", b"y", b"x"], [b""]):
                reset(c, k, l)
                c.step([name, k] + vals)
        cases.append(c)
        # LPOS: every option combination
        c = LCase("c09b_lpos_%d" % li)
        reset(c, k, l)
        ranks = [None, b"1", b"2", b"3", b"-1", b"-2", b"-3", b"0", MIN64, MAX64]
        counts = [None, b"0", b"1", b"2", b"5", b"-1"]
        maxlens = [None, b"0", b"1", b"2", b"3", b"9", b"-1"]
        combos = list(itertools.product(ranks, counts, maxlens))
        for rk, cn, ml in sample(combos, 300):
            opts = []
            parts = [(b"RANK", rk), (b"COUNT", cn), (b"MAXLEN", ml)]
            r.shuffle(parts)
            for nm, v in parts:
                if v is not None:
                    opts += [randcase(r, nm), v]
            for v in (b"a", b"b", b""):
                c.cmd([b"lpos", k, v] + opts)
        c.dump()
        cases.append(c)
    # LMOVE: four direction pairs x source/destination situations (incl. src = dst, deadlines)
    c = LCase("c09b_lmove")
    for sd, dd in itertools.product([b"left", b"right", b"LEFT", b"Right"], repeat=2):
        for src_l in ([b"a"], [b"a", b"b", b"c"]):
            for situation in ("same", "other", "missing", "wrong", "srcmissing"):
                c.cmd([b"del", b"s", b"d"])
                if situation != "srcmissing":
                    c.cmd([b"rpush", b"s"] + src_l)
                    c.cmd([b"expire", b"s", b"100"])
                dst = b"s" if situation == "same" else b"d"
                if situation == "other":
                    c.cmd([b"rpush", b"d", b"x", b"y"])
                    c.cmd([b"expire", b"d", b"50"])
                if situation == "wrong":
                    c.cmd([b"set", b"d", b"str"])
                c.step([b"lmove", b"s", dst, sd, dd])
    cases.append(c)
    return cases


# ---------------------------------------------------------------- TTL interplay
def gen_ttl(seed, ncases):
    r = random.Random(seed * 1299709 + 3)
    cases = []
    for i in range(ncases):
        c = LCase("c09t_%d_%d" % (seed, i))
        keys = [b"k", b"j"]
        c.step([b"rpush", b"k"] + [pick(r, ELEMS) for _ in range(r.randrange(1, 5))])
        if r.random() < 0.5:
            c.step([b"rpush", b"j", b"x"])
        c.step([b"expire", b"k", pick(r, [b"1", b"2"])], sleep_ms=pick(r, [0, 300, 950]))
        if r.random() < 0.4:
            c.step([b"expire", b"j", pick(r, [b"1", b"2", b"3"])])
        for _ in range(r.randrange(2, 9)):
            sl = pick(r, [0, 0, 100, 300, 500, 700, 900, 950, 1000, 1100, 1500])
            x = r.random()
            if x < 0.25:
                cmd = [pick(r, [b"rpush", b"lpush", b"rpushx", b"lpushx"]), pick(r, keys), pick(r, ELEMS)]
            elif x < 0.45:
                cmd = [pick(r, [b"lpop", b"rpop"]), pick(r, keys)] + ([b"2"] if r.random() < 0.3 else [])
            elif x < 0.6:
                cmd = [pick(r, [b"blpop", b"brpop"]), pick(r, keys), pick(r, keys), pick(r, [b"1", b"2"])]
            elif x < 0.7:
                cmd = [b"lmove", pick(r, keys), pick(r, keys), pick(r, [b"left", b"right"]), pick(r, [b"left", b"right"])]
            elif x < 0.8:
                cmd = [pick(r, [b"llen", b"ttl", b"exists", b"type"]), pick(r, keys)]
            elif x < 0.9:
                cmd = [pick(r, [b"lrange", b"ltrim"]), pick(r, keys), pick(r, [b"0", b"1", b"-1"]), pick(r, [b"-1", b"0", b"5"])]
            else:
                cmd = [pick(r, [b"lrem", b"lset"]), pick(r, keys), pick(r, [b"0", b"1", b"-1"]), pick(r, ELEMS)]
            c.step(cmd, sleep_ms=sl)
        cases.append(c)
    return cases


# ---------------------------------------------------------------- blocking forms with a second connection
def gen_blocking(seed, ncases):
    """BLPOP/BRPOP while connection 1 acts at chosen virtual instants.  Instants avoid the ticks
    (multiples of 100 ms) and the last polling period before the timeout, where Go's select may
    legitimately go either way."""
    r = random.Random(seed * 15485863 + 4)
    cases = []
    for i in range(ncases):
        c = LCase("c09g_%d_%d" % (seed, i))
        keys = [b"k", b"j", b"w"]
        if r.random() < 0.3:
            c.step([b"set", b"w", b"str"])
        if r.random() < 0.3:
            c.step([b"rpush", pick(r, [b"k", b"j"])] + [pick(r, ELEMS) for _ in range(r.randrange(1, 3))])
        for _ in range(r.randrange(1, 5)):
            timeout = r.choice([1, 2, 3, 0])
            nkeys = r.randrange(1, 4)
            ks = [pick(r, keys if r.random() < 0.25 else [b"k", b"j"]) for _ in range(nkeys)]
            nbg = r.choice([0, 1, 1, 2, 3])
            horizon = (timeout if timeout else 2) * 1000
            used = set()
            will_serve = False
            for _ in range(nbg):
                for _try in range(20):
                    d = r.randrange(1, horizon + 600)
                    if d % 100 == 0 or d in used or (horizon - 100 <= d <= horizon):
                        continue
                    break
                else:
                    continue
                used.add(d)
                x = r.random()
                if x < 0.55:
                    cmd = [pick(r, [b"rpush", b"lpush"]), pick(r, [b"k", b"j"])] + [pick(r, ELEMS) for _ in range(r.randrange(1, 3))]
                    if cmd[1] in ks and d < horizon - 100:
                        will_serve = True
                elif x < 0.65:
                    cmd = [b"del", pick(r, keys)]
                elif x < 0.75:
                    cmd = [pick(r, [b"lpop", b"rpop"]), pick(r, [b"k", b"j"])]
                elif x < 0.85:
                    cmd = [b"set", pick(r, [b"k", b"j"]), b"str"]
                elif x < 0.93:
                    cmd = [b"lmove", pick(r, [b"k", b"j"]), pick(r, [b"k", b"j"]), b"left", b"right"]
                else:
                    cmd = [pick(r, [b"llen", b"exists"]), pick(r, keys)]
                c.bg(cmd, d)
            # timeout 0 blocks for ever unless something is (or becomes) available: allow a few
            # (they exercise the watchdog path), mostly make sure it is served
            if timeout == 0 and not will_serve and r.random() < 0.8:
                late = 150 + 100 * r.randrange(0, 5) + 37
                while late in used:          # two commands at the same instant have no defined order
                    late += 1
                used.add(late)
                c.bg([b"rpush", ks[0], b"late"], late)
            c.step([pick(r, [b"blpop", b"brpop"])] + ks + [str(timeout).encode()])
            if r.random() < 0.5:
                c.step([b"lrange", pick(r, [b"k", b"j"]), b"0", b"-1"])
        cases.append(c)
    return cases


# ---------------------------------------------------------------- two (or three) blocked poppers and a pusher
POP_PHASES = [13, 37, 71]          # ms offsets (mod 100) of the background poppers' tickers; foreground = 0
PUSH_PHASES = [7, 23, 41, 91]      # pushes never coincide with a tick, a timer or the watchdog (x+50)


def gen_two_poppers(seed, ncases):
    """connection 0 blocks in BLPOP/BRPOP; connections 1.. block too, their tickers out of phase;
    another connection pushes n elements at chosen instants.  Instants are chosen so that no two
    events coincide and no push falls into the last polling period before a popper's timeout."""
    r = random.Random(seed * 32452843 + 5)
    cases = []
    for ci in range(ncases):
        c = LCase("c09p_%d_%d" % (seed, ci))
        if r.random() < 0.2:
            c.step([b"rpush", pick(r, [b"k", b"j"])] + [b"i%d" % i for i in range(r.randrange(1, 3))])
        for rnd in range(r.randrange(1, 4)):
            poppers = []                      # (start offset, timer offset or None)
            def mk_pop():
                timeout = r.choice([1, 2, 3, 3, 0])
                ks = [pick(r, [b"k", b"k", b"j"]) for _ in range(r.randrange(1, 3))]
                return [pick(r, [b"blpop", b"brpop"])] + ks + [str(timeout).encode()], timeout
            fg, fg_to = mk_pop()
            poppers.append((0, fg_to))
            phases = r.sample(POP_PHASES, r.randrange(1, 3))
            for ph in phases:
                cmd, to = mk_pop()
                d = 100 * r.randrange(0, 12) + ph
                poppers.append((d, to))
                c.bg(cmd, d, conn=1 + POP_PHASES.index(ph))
            npush = r.randrange(0, 5)
            used = set()
            n = 0
            for _ in range(npush):
                for _try in range(30):
                    d = 100 * r.randrange(0, 36) + pick(r, PUSH_PHASES)
                    bad = d in used
                    for (st, to) in poppers:
                        if to and st + 1000 * to - 100 <= d <= st + 1000 * to:
                            bad = True
                    if not bad:
                        break
                else:
                    continue
                used.add(d)
                vals = []
                for _ in range(r.randrange(1, 4)):
                    n += 1
                    vals.append(b"e%d_%d" % (rnd, n) if r.random() < 0.85 else b"dup")
                c.bg([pick(r, [b"rpush", b"lpush"]), pick(r, [b"k", b"k", b"j", b"other"])] + vals, d, conn=9)
            c.step(fg)
            c.step([b"lrange", b"k", b"0", b"-1"])
            c.step([b"lrange", b"j", b"0", b"-1"])
        cases.append(c)
    return cases


# ---------------------------------------------------------------- bounded-exhaustive
ALPHABET = [
    ([b"rpush", b"k", b"a", b"b"], 0), ([b"lpush", b"k", b"a"], 0), ([b"rpush", b"j", b"a"], 0),
    ([b"lpop", b"k"], 0), ([b"rpop", b"k"], 0), ([b"lpop", b"k", b"2"], 0),
    ([b"llen", b"k"], 0), ([b"lrange", b"k", b"0", b"-1"], 0), ([b"lindex", b"k", b"-1"], 0),
    ([b"lset", b"k", b"-1", b"z"], 0), ([b"lrem", b"k", b"-1", b"a"], 0), ([b"lrem", b"k", b"0", b"a"], 0),
    ([b"ltrim", b"k", b"1", b"-1"], 0), ([b"ltrim", b"k", b"0", b"0"], 0),
    ([b"lpos", b"k", b"a", b"RANK", b"-1", b"COUNT", b"0"], 0),
    ([b"lmove", b"k", b"j", b"left", b"right"], 0), ([b"lmove", b"k", b"k", b"right", b"left"], 0),
    ([b"rpushx", b"j", b"c"], 0), ([b"blpop", b"k", b"j", b"1"], 0), ([b"brpop", b"j", b"k", b"1"], 0),
    ([b"del", b"k"], 0), ([b"expire", b"k", b"1"], 0), ([b"llen", b"k"], 1000), ([b"set", b"j", b"v"], 0),
]


def gen_exhaustive(maxlen):
    cases = []
    n = 0
    for ln in range(1, maxlen + 1):
        for prog in itertools.product(range(len(ALPHABET)), repeat=ln):
            c = LCase("c09x_%d_%s" % (ln, "_".join(map(str, prog))))
            for i in prog:
                args, sl = ALPHABET[i]
                c.step(args, sleep_ms=sl)
            cases.append(c)
            n += 1
    return cases


# ---------------------------------------------------------------- regressions
def regress():
    cases = []
    c = LCase("c09reg_lmove_rotation_keeps_deadline")
    c.step([b"rpush", b"k", b"a"])
    c.step([b"expire", b"k", b"100"])
    c.step([b"lmove", b"k", b"k", b"left", b"right"])
    c.step([b"ttl", b"k"])
    cases.append(c)
    c = LCase("c09reg_blpop_timeout_overflow")
    c.step([b"rpush", b"k", b"a", b"b"])
    c.step([b"blpop", b"k", b"9223372037"])
    c.step([b"blpop", b"k", b"0"])
    c.step([b"blpop", b"k", b"9223372036"])
    c.step([b"brpop", b"k", MAX64])
    cases.append(c)
    c = LCase("c09reg_blpop_blocks_for_ever")
    c.step([b"blpop", b"nokey", b"0"])
    c.step([b"rpush", b"nokey", b"a"])
    c.step([b"lrange", b"nokey", b"0", b"-1"])
    cases.append(c)
    c = LCase("c09reg_blpop_second_connection")
    c.bg([b"llen", b"k"], 50)
    c.bg([b"rpush", b"k", b"x", b"y"], 250)
    c.bg([b"llen", b"k"], 450)
    c.step([b"brpop", b"j", b"k", b"2"])
    c.bg([b"set", b"j", b"str"], 1234)
    c.step([b"blpop", b"j", b"k", b"2"])
    c.bg([b"rpush", b"k", b"late"], 2050)
    c.step([b"blpop", b"q", b"1"])
    c.step([b"lrange", b"k", b"0", b"-1"])
    cases.append(c)
    c = LCase("c09reg_cancelled_pop_last_round")
    # a pop cancelled through its context (here: by the harness watchdog, 20050 ms) does one last
    # polling round: an element pushed after its last tick is popped although nobody reads the reply
    c.bg([b"rpush", b"k", b"x", b"y"], 20020)
    c.step([b"blpop", b"k", b"0"])
    c.step([b"lrange", b"k", b"0", b"-1"])
    c.bg([b"brpop", b"k", b"0"], 37)
    c.bg([b"rpush", b"k", b"z"], 20070)
    c.step([b"blpop", b"nokey", b"0"])
    c.step([b"lrange", b"k", b"0", b"-1"])
    cases.append(c)
    c = LCase("c09reg_lrem_then_len")
    c.step([b"rpush", b"l", b"a", b"b", b"a", b"c", b"a"])
    c.step([b"lrem", b"l", b"-2", b"a"])
    c.step([b"llen", b"l"])
    c.step([b"lrange", b"l", b"0", b"-1"])
    c.step([b"lrem", b"l", b"0", b"a"])
    c.step([b"lrem", b"l", MIN64, b"b"])
    c.step([b"lrem", b"l", MAX64, b"c"])
    c.step([b"exists", b"l"])
    cases.append(c)
    c = LCase("c09reg_expire_across_block")
    c.step([b"rpush", b"k", b"a"])
    c.step([b"expire", b"k", b"1"])
    c.step([b"blpop", b"k", b"1"], sleep_ms=950)
    c.step([b"exists", b"k"])
    cases.append(c)
    return cases
