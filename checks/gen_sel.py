"""Program generators for C20: interleaved multi-connection programs with SELECT.

Every database gets a marker key `whoami` = its own index (written through a set-up connection),
so `GET whoami` reveals which database a connection really has selected -- after valid SELECTs,
after every kind of invalid SELECT, and after other connections' SELECTs."""
import random

from . import gen

DBCOUNTS = [1, 2, 16]

INVALID_ARGS = [b"-1", b"01x", b"1.0", b"", b"99999999999999999999", b"abc", b" 1", b"1 ", b"0x1", b"1e0", b"1_0",
                b"9223372036854775807", b"9223372036854775808", b"-9223372036854775808", b"18446744073709551616",
                b"4294967296", b"4294967297", b"-", b"+", b"\xef\xbc\x91", b"1\x00", b"\x001", b"--1", b"+-1", b"1\r\n"]
# accepted by strconv.Atoi although not canonical: leading zeros, explicit plus, minus zero
BORDERLINE_ARGS = [b"00", b"01", b"+1", b"+0", b"-0", b"000000000000000000001", b"+01"]
SETUP = 99


def setup_markers(c, dbs):
    for i in range(dbs):
        c.cmd([b"select", str(i).encode()], conn=SETUP)
        c.cmd([b"set", b"whoami", str(i).encode()], conn=SETUP)


def sel_arg(r, dbs):
    x = r.random()
    if x < 0.55:
        return str(r.randrange(dbs)).encode()
    if x < 0.7:
        return r.choice([str(dbs).encode(), str(dbs + 1).encode(), str(dbs - 1).encode(), b"16", b"15", b"2", b"1"])
    if x < 0.8:
        return r.choice(BORDERLINE_ARGS)
    return r.choice(INVALID_ARGS)


def data_cmd(r, keys):
    k = lambda: r.choice(keys)
    return r.choice([
        lambda: [b"set", k(), r.choice([b"v", b"w", b"1"])],
        lambda: [b"get", k()],
        lambda: [b"get", b"whoami"],
        lambda: [b"del", k()],
        lambda: [b"exists", k(), k()],
        lambda: [b"rpush", k(), b"a", b"b"],
        lambda: [b"lrange", k(), b"0", b"-1"],
        lambda: [b"lpop", k()],
        lambda: [b"type", k()],
        lambda: [b"keys", b"*"],
        lambda: [b"incr", k()],
        lambda: [b"append", k(), b"z"],
        lambda: [b"rename", k(), k()],
        lambda: [b"expire", k(), r.choice([b"1", b"100"])],
        lambda: [b"ttl", k()],
        lambda: [b"mget", k(), b"whoami", k()],
        lambda: [b"mset", k(), b"m1", k(), b"m2"],
        lambda: [b"lmove", k(), k(), b"left", b"right"],
    ])()


def gen_random(seed, n):
    r = random.Random(seed * 104729 + 7)
    cases = []
    for i in range(n):
        dbs = r.choice(DBCOUNTS)
        c = gen.Case("c20r_%d_%d_n%d" % (seed, i, dbs), dbs)
        setup_markers(c, dbs)
        nconn = r.randrange(1, 6)
        keys = [b"k", b"j", b"l"]
        for _ in range(r.randrange(5, 40)):
            conn = r.randrange(nconn)
            x = r.random()
            if x < 0.3:
                name = gen.randcase(r, b"select")
                y = r.random()
                if y < 0.9:
                    c.cmd([name, sel_arg(r, dbs)], conn=conn)
                elif y < 0.95:
                    c.cmd([name], conn=conn)
                else:
                    c.cmd([name, sel_arg(r, dbs), sel_arg(r, dbs)], conn=conn)
                if r.random() < 0.6:
                    c.cmd([b"get", b"whoami"], conn=conn)
            else:
                c.cmd(data_cmd(r, keys), conn=conn, sleep_ms=r.choice([0, 0, 0, 0, 500, 1000]))
            if r.random() < 0.15:
                c.dump()
        for conn in range(nconn):
            c.cmd([b"get", b"whoami"], conn=conn)
        c.dump()
        cases.append(c)
    return cases


def gen_isolation(seed):
    """a key of each type written in database i through one connection, probed from every database
    through another (and through a third, fresh, connection that never selects)."""
    cases = []
    for dbs in DBCOUNTS:
        for wi in sorted(set([0, dbs - 1, dbs // 2])):
            for typ, mk in (("string", [b"set", b"k", b"v"]), ("list", [b"rpush", b"k", b"a", b"b"])):
                c = gen.Case("c20i_n%d_w%d_%s" % (dbs, wi, typ), dbs)
                setup_markers(c, dbs)
                c.cmd([b"select", str(wi).encode()], conn=1)
                c.cmd(mk, conn=1)
                c.cmd([b"expire", b"k", b"100"], conn=1)
                c.dump()
                for j in range(dbs):
                    c.cmd([b"select", str(j).encode()], conn=2)
                    for probe in ([b"get", b"whoami"], [b"exists", b"k"], [b"type", b"k"], [b"ttl", b"k"], [b"keys", b"k*"],
                                  [b"get", b"k"], [b"llen", b"k"], [b"del", b"k"] if j != wi else [b"exists", b"k", b"k"]):
                        c.cmd(probe, conn=2)
                    c.cmd([b"exists", b"k"], conn=1)       # the writer still sees its key
                    c.cmd([b"get", b"whoami"], conn=3)     # a connection that never selected: database 0
                c.dump()
                # a write from another database does not disturb the original
                oj = (wi + 1) % dbs
                c.cmd([b"select", str(oj).encode()], conn=2)
                c.cmd([b"set", b"k", b"other"], conn=2)
                c.cmd([b"type", b"k"], conn=1)
                c.cmd([b"get", b"k"], conn=2)
                c.dump()
                cases.append(c)
    return cases


def gen_invalid(seed):
    """every invalid / borderline SELECT argument and arity, from a connection that has selected
    each database in turn: the reply is an error (or OK for the borderline forms Go accepts) and the
    selection is what the model says -- unchanged on error -- as seen by GET whoami; another
    connection is unaffected."""
    cases = []
    for dbs in DBCOUNTS:
        args = INVALID_ARGS + BORDERLINE_ARGS + [str(dbs).encode(), str(dbs + 1).encode(), b"16", b"15", b"17", b"-1", b"255", b"256"]
        for start in sorted(set([0, dbs - 1])):
            c = gen.Case("c20v_n%d_s%d" % (dbs, start), dbs)
            setup_markers(c, dbs)
            c.cmd([b"select", str(start).encode()], conn=1)
            c.cmd([b"select", str(dbs - 1 - start).encode()], conn=2)
            for a in args:
                c.cmd([b"select", str(start).encode()], conn=1)
                c.cmd([gen.randcase(random.Random(len(a) + dbs), b"select"), a], conn=1)
                c.cmd([b"get", b"whoami"], conn=1)
                c.cmd([b"get", b"whoami"], conn=2)
            for extra in ([], [b"0", b"0"], [b"1", b"x"], [b"0", b"", b""]):
                c.cmd([b"select"] + extra, conn=1)
                c.cmd([b"get", b"whoami"], conn=1)
            c.dump()
            cases.append(c)
    return cases


def gen_tcp(seed, n):
    r = random.Random(seed * 17 + 3)
    cases = gen_random(seed + 1000, n)
    for c in cases:
        c.name = c.name.replace("c20r", "c20tcp")
        # no sleeps over TCP (the clock does not matter for C20; keeps the sample fast)
        c.lines = [" ".join(l.split()[:2] + ["0"] + l.split()[3:]) if l.startswith("C ") else l for l in c.lines]
    small = []
    for dbs in DBCOUNTS:
        c = gen.Case("c20tcp_fixed_n%d" % dbs, dbs)
        setup_markers(c, dbs)
        for conn in (1, 2, 3):
            c.cmd([b"select", str((conn * 5) % dbs).encode()], conn=conn)
            c.cmd([b"set", b"k", b"from%d" % conn], conn=conn)
        for conn in (1, 2, 3, 4):
            c.cmd([b"get", b"whoami"], conn=conn)
            c.cmd([b"get", b"k"], conn=conn)
            c.cmd([b"select", str(dbs).encode()], conn=conn)
            c.cmd([b"select", b"-1"], conn=conn)
            c.cmd([b"get", b"whoami"], conn=conn)
        small.append(c)
    return small + cases


def gen_race(seed, n):
    """lines for `harness selrace`: RACE <name> <dbs> <conns> <indexes>: a fresh server, <conns>
    connections released by a barrier first-SELECT each listed (never used) index at the same
    instant, write one key each, then everybody reads everybody's keys."""
    r = random.Random(seed * 65537 + 11)
    lines = []
    for m in range(n):
        dbs = r.choice([2, 3, 16, 16, 16])
        conns = r.choice([8, 12, 16])
        idxs = list(range(1, dbs))
        r.shuffle(idxs)
        lines.append("RACE c20race_%d_%d_n%d %d %d %s" % (seed, m, dbs, dbs, conns, ",".join(map(str, idxs))))
    return lines


def gen_reconnect(seed, n, prefix="c20rc"):
    """connection lifecycle: connections SELECT n != 0, write a marker and end (CLOSE); new connections
    -- under fresh ids, under the id of a closed one, one after another and a few concurrently (PAR)
    -- never send SELECT and immediately read/write: they must be in database 0.  Dozens of
    reconnects per case, so that any recycling of per-connection state is hit."""
    r = random.Random(seed * 2654435761 % (2 ** 31) + 5)
    cases = []
    for i in range(n):
        dbs = r.choice([2, 3, 16])
        c = gen.Case("%s_%d_%d_n%d" % (prefix, seed, i, dbs), dbs)
        setup_markers(c, dbs)
        if r.random() < 0.5:
            c.lines.append("CLOSE %d" % SETUP)
        nxt = 100
        closed = []
        for rnd in range(r.randrange(12, 30)):
            a = nxt
            nxt += 1
            idx = r.randrange(1, dbs)
            c.cmd([gen.randcase(r, b"select"), str(idx).encode()], conn=a)
            c.cmd([b"set", b"mark", b"by%d" % a], conn=a)
            if r.random() < 0.5:
                c.cmd([b"get", b"whoami"], conn=a)
            c.lines.append("CLOSE %d" % a)
            closed.append(a)
            # the next connection: a fresh id, or the id of a connection that has ended
            b = r.choice(closed) if r.random() < 0.35 else nxt
            if b == nxt:
                nxt += 1
            c.cmd([b"get", b"whoami"], conn=b)
            x = r.random()
            if x < 0.4:
                c.cmd([b"set", b"probe", b"p%d" % rnd], conn=b)
                c.cmd([b"get", b"mark"], conn=b)
            elif x < 0.6:
                c.cmd([b"select", str(r.randrange(dbs)).encode()], conn=b)
                c.cmd([b"get", b"whoami"], conn=b)
            if r.random() < 0.6:
                c.lines.append("CLOSE %d" % b)
                if b not in closed:
                    closed.append(b)
            if r.random() < 0.25:
                # a few new connections at once
                c.lines.append("PAR")
                for _ in range(r.randrange(2, 6)):
                    p = nxt
                    nxt += 1
                    c.cmd([b"get", b"whoami"], conn=p)
                    c.cmd([b"exists", b"mark"], conn=p)
                    c.cmd([b"get", b"whoami"], conn=p)
                c.lines.append("JOIN")
            if r.random() < 0.15:
                c.dump()
        c.dump()
        cases.append(c)
    return cases


# ---------------------------------------------------------------- cluster configuration path
def gen_clustercfg(seed, n):
    """(name, cluster JSON text, program lines): cluster_config.json files with and without a
    databases key in every spelling encoding/json accepts for the untagged field, values 0/1/2/16/...,
    other fields varied; then two or three connections on the node: B works in database 0 and never
    sends SELECT, A sends SELECTs."""
    import json
    r = random.Random(seed * 69069 + 1)
    items = []
    spellings = [None, "databases", "Databases", "DATABASES", "dataBases", "DataBases"]
    values = [0, 1, 2, 16, 4, 3, -1, 255]
    for i in range(n):
        nodes = r.choice([1, 1, 3])
        peers = ",".join("http://127.0.0.1:%d" % (16380 + j) for j in range(nodes))
        cfg = [("IsCluster", True), ("PeerAddrs", peers), ("PeerIDs", ",".join(str(j + 1) for j in range(nodes))),
               ("NodeID", r.randrange(1, nodes + 1)), ("KVPort", r.choice([6380, 6381, 7000])), ("JoinCluster", r.random() < 0.2)]
        if r.random() < 0.5:
            cfg.append(("RaftAddr", r.choice(["", "http://127.0.0.1:16380"])))
        if r.random() < 0.3:
            cfg.append((r.choice(["ShardNum", "shardnum"]), r.choice([16, 64, 1024])))
        if r.random() < 0.2:
            cfg.append(("Host", "127.0.0.1"))
        if r.random() < 0.15:
            cfg.append(("LogLevel", "panic"))
        # systematic over spellings x values first, random afterwards
        sp = spellings[i % len(spellings)] if i < len(spellings) * len(values) else r.choice(spellings)
        val = values[(i // len(spellings)) % len(values)] if i < len(spellings) * len(values) else r.choice(values)
        if sp is not None:
            v = val
            x = r.random()
            if x < 0.06:
                v = str(val)              # a string: the file does not parse
            elif x < 0.1:
                v = float(val) + 0.5      # not an integer: the file does not parse
            cfg.insert(r.randrange(len(cfg) + 1), (sp, v))
            if r.random() < 0.15:         # the key twice, in two spellings
                cfg.insert(r.randrange(len(cfg) + 1), (r.choice([s for s in spellings if s and s != sp]), r.choice(values)))
        if r.random() < 0.04:
            cfg = [(k, v) for k, v in cfg if k != "NodeID"]     # ParseConfigJson panics: no obligation
        text = "{" + ", ".join("%s: %s" % (json.dumps(k), json.dumps(v)) for k, v in cfg) + "}"
        if r.random() < 0.03:
            text = text[:-1]                                      # truncated file
        A, Bc, Cc = 1, 2, 3
        prog = [(Bc, [b"set", b"k", b"written-by-B-in-db0"]), (A, [b"select", b"1"]), (Bc, [b"get", b"k"]),
                (A, [b"set", b"only", b"x"]), (Bc, [b"get", b"only"]), (A, [b"get", b"k"])]
        for _ in range(r.randrange(0, 8)):
            c = r.choice([A, Bc, Cc])
            prog.append((c, r.choice([[b"select", r.choice([b"0", b"1", b"2", b"15", b"16", b"-1", b"x"])], [b"get", b"k"],
                                      [b"set", r.choice([b"k", b"j"]), b"v%d" % c], [b"exists", b"k", b"j", b"only"], [b"incr", b"n"],
                                      [b"del", b"j"], [b"select", b"0"]])))
        prog.append((Bc, [b"get", b"k"]))
        prog.append((Cc, [b"get", b"k"]))
        lines = ["C %d 0 %s" % (c, " ".join(gen.hx(a) for a in cmd)) for c, cmd in prog]
        items.append(("c20cfg_%d_%d" % (seed, i), text, lines))
    return items


# ---------------------------------------------------------------- pipelining
def gen_pipeline(seed, n, prefix="c20pl", blocking=0.35):
    """a pipelining client: between PIPE and FLUSH all commands of a connection go out in one write
    and the replies are read afterwards.  Blocks pipeline SELECT i followed by 1-3 data commands
    (and further SELECTs), on several connections with different selections; the deterministic
    variant queues them behind a blocking pop with a short timeout.  Pipelining must be
    unobservable: replies and dumps are those of the sequential per-connection model."""
    r = random.Random(seed * 1103515245 % (2 ** 31) + 12345)
    cases = []
    for i in range(n):
        dbs = r.choice([2, 3, 16])
        c = gen.Case("%s_%d_%d_n%d" % (prefix, seed, i, dbs), dbs)
        setup_markers(c, dbs)
        conns = list(range(1, r.randrange(2, 5)))
        for blk in range(r.randrange(1, 5)):
            c.lines.append("PIPE")
            for cn in r.sample(conns, r.randrange(1, len(conns) + 1)):
                if r.random() < blocking:
                    c.cmd([r.choice([b"blpop", b"brpop"]), b"nolist", b"1"], conn=cn)
                for _ in range(r.randrange(1, 3)):
                    idx = r.randrange(dbs)
                    c.cmd([gen.randcase(r, b"select"), str(idx).encode() if r.random() < 0.9 else sel_arg(r, dbs)], conn=cn)
                    for _ in range(r.randrange(1, 4)):
                        c.cmd(r.choice([[b"set", b"k", b"c%d-b%d" % (cn, blk)], [b"get", b"whoami"], [b"get", b"k"],
                                        [b"rpush", b"l%d" % cn, b"x"], [b"incr", b"n"], [b"exists", b"k", b"whoami"],
                                        [b"append", b"k", b"+"], [b"del", b"k"]]), conn=cn)
            c.lines.append("FLUSH")
            for cn in conns:
                c.cmd([b"get", b"whoami"], conn=cn)
                if r.random() < 0.5:
                    c.cmd([b"get", b"k"], conn=cn)
            c.dump()
        cases.append(c)
    return cases
