"""Common machinery for the per-property checks (see DESIGN.md section 2.4)."""
import atexit
import fcntl
import hashlib
import json
import os
import re
import shutil
import subprocess
import sys
import tempfile
import time
from pathlib import Path

VERIF = Path(__file__).resolve().parent.parent
REPO = Path(os.environ.get("VERIF_REPO", "/repo"))
BUILD = VERIF / "build"
COQ = VERIF / "coq"

GOENV = {
    "GOFLAGS": "-mod=mod",
    "GOPROXY": "off",
    "GOSUMDB": "off",
    "GOTOOLCHAIN": "local",
    "CARGO_NET_OFFLINE": "true",
    "PIP_NO_INDEX": "1",
}

FORBIDDEN = r"\bAdmitted\b|\badmit\b|\bAxiom\b|\bParameter\b|\bConjecture\b|Unset Guard|bypass_check|\bAdmit Obligations\b|type-in-type|impredicative-set"

KERNEL_TB = [
    "Coq 8.16.1 kernel (coqc); vm_compute used for closed computations; no native_compute",
    "extraction: Require Extraction + ExtrOcamlBasic only (bool/option/unit/list/prod/sumbool/comparison mapped to OCaml types; no Extract Constant; N/Z/positive/nat/byte stay extracted inductives); OCaml 4.13.1",
    "ml/util.ml + ml/modelrun.ml (hex parsing, int<->N conversion, printing): trusted glue",
    "Go harness (harness/*.go) and its generators: differential testing, as strong as its generators",
]


def env():
    e = dict(os.environ)
    e.update(GOENV)
    return e


def sh(cmd, timeout=600, cwd=None, extra_env=None, stdin=None):
    """Run a shell command; returns (rc, combined output). rc 124 = timeout.
    The command runs in its own process group; on timeout the WHOLE group is killed (a hung or
    spinning harness must not survive the check that started it)."""
    import signal
    e = env()
    if extra_env:
        e.update(extra_env)
    p = subprocess.Popen(cmd, shell=isinstance(cmd, str), cwd=cwd, env=e, stdout=subprocess.PIPE,
                         stderr=subprocess.STDOUT, stdin=subprocess.PIPE if stdin is not None else None,
                         start_new_session=True)
    try:
        out, _ = p.communicate(input=stdin, timeout=timeout)
        return p.returncode, out.decode("utf-8", "replace")
    except subprocess.TimeoutExpired:
        try:
            os.killpg(p.pid, signal.SIGKILL)
        except OSError:
            pass
        try:
            out, _ = p.communicate(timeout=10)
        except Exception:
            out = b""
        return 124, (out or b"").decode("utf-8", "replace") + "\n[timeout after %ss: process group killed]" % timeout


class BuildLock:
    """Serialises builds when several checks run at once."""

    def __enter__(self):
        BUILD.mkdir(exist_ok=True)
        self.f = open(BUILD / ".lock", "w")
        fcntl.flock(self.f, fcntl.LOCK_EX)
        return self

    def __exit__(self, *a):
        fcntl.flock(self.f, fcntl.LOCK_UN)
        self.f.close()


_scratch_dirs = []


def scratch(prefix="verif-"):
    d = tempfile.mkdtemp(prefix=prefix, dir=os.environ.get("VERIF_SCRATCH", "/tmp"))
    _scratch_dirs.append(d)
    return Path(d)


def _cleanup():
    for d in _scratch_dirs:
        shutil.rmtree(d, ignore_errors=True)


atexit.register(_cleanup)


# ----------------------------------------------------------------------------- builds

def ensure_coq(clean=False):
    """Full .vo build of the development. Returns (ok, log)."""
    with BuildLock():
        if clean and (COQ / "Makefile").exists():
            sh("make clean", cwd=COQ, timeout=300)
        if clean or not (COQ / "Makefile").exists() or \
                (COQ / "Makefile").stat().st_mtime < (COQ / "_CoqProject").stat().st_mtime:
            rc, out = sh("coq_makefile -f _CoqProject -o Makefile", cwd=COQ, timeout=120)
            if rc != 0:
                return False, out
        # -k: a broken proof must not keep the files that do not depend on it (the models the runners are
        # extracted from) from being compiled
        rc, out = sh("make -j16 -k", cwd=COQ, timeout=3000)
        return rc == 0, out


def ensure_runner(name="modelrun", extract="Extract/Extract.v", drivers=("util.ml", "memrun.ml", "modelrun.ml"), mlmods=("model",)):
    """Re-extract and rebuild an OCaml model runner when the Coq or ML sources changed.
    extract: path (relative to coq/) of the extraction file, which writes <mlmod>.ml/.mli in its cwd;
    drivers: files under ml/ compiled after the extracted modules, in order."""
    # the extraction file is compiled against the .vo files: bring them up to date first (0.3 s when they
    # are; a stale .vo after a model change made the extraction fail with "reference not found")
    ensure_coq()
    with BuildLock():
        ml = BUILD / ("ml_" + name)
        ml.mkdir(parents=True, exist_ok=True)
        target = BUILD / name
        exv = COQ / extract
        srcs = list(COQ.rglob("*.vo")) + [VERIF / "ml" / d for d in drivers] + [exv]
        if target.exists() and all(s.stat().st_mtime <= target.stat().st_mtime for s in srcs if s.exists()):
            return True, "up to date"
        rc, out = sh("coqc -Q %s '' -o %s/%s.vo %s" % (COQ, ml, exv.stem, exv), cwd=ml, timeout=1800)
        if rc != 0:
            return False, out
        for dname in drivers:
            shutil.copy(VERIF / "ml" / dname, ml / dname)
        files = " ".join("%s.mli %s.ml" % (m, m) for m in mlmods) + " " + " ".join(drivers)
        rc, out2 = sh("ocamlfind ocamlopt -O3 -w -a %s -o ../%s.new && mv ../%s.new ../%s" % (files, name, name, name),
                      cwd=ml, timeout=1800)
        return rc == 0, out + out2


def ensure_modelrun():
    return ensure_runner()


def ensure_harness(name="harness", tags="verif", cgo=True, race=False, srcdir="harness"):
    """Build a Go harness module (under /verif/<srcdir>) against the working tree of REPO
    (/repo unless VERIF_REPO is set).  The module's go.mod names /repo in its replace block; for
    another REPO an alternate go.mod with rewritten paths is passed through -modfile."""
    with BuildLock():
        h = VERIF / srcdir
        ex = {"CGO_ENABLED": "1" if cgo else "0"}
        modflag = ""
        if str(REPO) != "/repo":
            alt = BUILD / ("gomod_%s.mod" % name)
            txt = (h / "go.mod").read_text()
            txt = re.sub(r"=> /repo(?=[/\s]|$)", "=> %s" % REPO, txt, flags=re.M)
            alt.write_text(txt)
            shutil.copy(REPO / "go.sum", BUILD / ("gomod_%s.sum" % name))
            modflag = "-modfile=%s" % alt
        else:
            shutil.copy(REPO / "go.sum", h / "go.sum")
        cmd = "go build %s %s -tags %s -o %s ." % (modflag, "-race" if race else "", tags, BUILD / name)
        rc, out = sh(cmd, cwd=h, timeout=1800, extra_env=ex)
        return rc == 0, out


def ensure_harness_ft(name="harness_ft", srcdir="harness"):
    """Virtual-clock build (Go's faketime runtime tag): time.Sleep/timers advance instantly and
    deterministically from 2009-11-10 23:00:00 UTC (unix 1257894000).  Needs CGO off; run the
    binary with GOMAXPROCS=1 and let it write results to files (stdout is framed)."""
    return ensure_harness(name=name, tags="verif,faketime", cgo=False, srcdir=srcdir)


def forbidden_tokens():
    """grep the development for anything that would declare an axiom or switch off a check."""
    hits = []
    listed = [COQ / l.strip() for l in (COQ / "_CoqProject").read_text().splitlines()
              if l.strip().endswith(".v")]
    listed += sorted((COQ / "Extract").glob("*.v"))
    for f in listed:
        if not f.exists():
            hits.append("%s: listed in _CoqProject but missing" % f.relative_to(VERIF))
            continue
        txt = f.read_text()
        # strip comments (non-nested is enough: we never nest)
        txt2 = re.sub(r"\(\*.*?\*\)", "", txt, flags=re.S)
        for m in re.finditer(FORBIDDEN, txt2):
            hits.append("%s: %s" % (f.relative_to(VERIF), m.group(0)))
    return hits


def property_theorems(pid):
    """Re-check Properties/<pid>.v with coqc and collect Print Assumptions output.
    Returns dict(ok, theorems=[names], closed=n, axioms=[...], log)."""
    src = COQ / "Properties" / (pid + ".v")
    if not src.exists():
        return dict(ok=False, theorems=[], closed=0, axioms=[], log="coq/Properties/%s.v does not exist" % pid)
    names = re.findall(r"^\s*Theorem\s+(\w+)", src.read_text(), flags=re.M)
    d = scratch("coqprop-")
    rc, out = sh("coqc -Q %s '' -o %s/%s.vo %s" % (COQ, d, pid, src), cwd=d, timeout=1200)
    closed = len(re.findall(r"Closed under the global context", out))
    axioms = []
    for blk in re.findall(r"Axioms:\n((?:.+\n?)+?)(?:\n|$)", out):
        for line in blk.splitlines():
            m = re.match(r"^(\S+)\s*:", line)
            if m:
                axioms.append(m.group(1))
    return dict(ok=(rc == 0), theorems=names, closed=closed, axioms=sorted(set(axioms)), log=out)


# ----------------------------------------------------------------------------- results

def known_findings(pid):
    """Entries of KNOWN_FINDINGS.txt for this property: list of dict(kind, id, text)."""
    res = []
    p = VERIF / "KNOWN_FINDINGS.txt"
    if not p.exists():
        return res
    for line in p.read_text().splitlines():
        line = line.strip()
        if not line or line.startswith("#"):
            continue
        m = re.match(r"^(open|fixed):\s+property=(\S+)\s+(\S+)\s+(.*)$", line)
        if m and m.group(2) == pid:
            res.append(dict(kind=m.group(1), id=m.group(3), text=m.group(4)))
    return res


def write_replay(pid, obj):
    (VERIF / "replays").mkdir(exist_ok=True)
    blob = json.dumps(obj, indent=1, sort_keys=True)
    h = hashlib.sha1(blob.encode()).hexdigest()[:10]
    path = VERIF / "replays" / ("%s-%s.json" % (pid, h))
    path.write_text(blob)
    return path


def violation(pid, obj, found_input=True):
    path = write_replay(pid, obj)
    line = "VIOLATION property=%s replay=%s" % (pid, path)
    if not found_input:
        line += " no-failing-input-found"
    print(line, flush=True)
    return path


def write_evidence(pid, tier, seed, coverage, assumptions, wall_s, violations, level="proof"):
    (VERIF / "evidence").mkdir(exist_ok=True)
    ev = dict(property_id=pid, tier=tier, seed=int(seed), level=level, coverage=coverage,
              assumptions=assumptions, wall_s=round(wall_s, 2), violations=int(violations))
    (VERIF / "evidence" / (pid + ".json")).write_text(json.dumps(ev, indent=1))


class Ctx:
    def __init__(self, pid, tier, seed, replay=None):
        self.pid, self.tier, self.seed, self.replay = pid, tier, seed, replay
        self.t0 = time.time()
        self.violations = 0
        self.notes = []

    def wall(self):
        return time.time() - self.t0


def proof_gate(ctx, extra_tb=None):
    """The proof half of every check: full build, no forbidden tokens, property theorems
    compile and are closed (or depend only on named stdlib axioms).
    Returns (coverage-dict, broken-description-or-None)."""
    broken = None
    ok, log = ensure_coq(clean=False)
    if not ok:
        broken = "coq build failed:\n" + log[-3000:]
    hits = forbidden_tokens()
    if hits and not broken:
        broken = "forbidden tokens in development: " + "; ".join(hits)
    info = dict(ok=False, theorems=[], closed=0, axioms=[], log="")
    if not broken:
        info = property_theorems(ctx.pid)
        if not info["ok"]:
            broken = "Properties/%s.v does not check:\n%s" % (ctx.pid, info["log"][-3000:])
    chk = None
    if not broken and ctx.tier == "thorough":
        # independent re-check of the compiled property file and everything it depends on
        rc, out = sh("coqchk -silent -o -Q %s '' Properties.%s" % (COQ, ctx.pid), cwd=COQ, timeout=3000)
        m = re.search(r"\* Axioms:\s*(.*?)\n\s*\n", out, flags=re.S)
        chk = dict(rc=rc, axioms=(m.group(1).strip() if m else "?"))
        if rc != 0:
            broken = "coqchk rejects Properties.%s: %s" % (ctx.pid, out[-2000:])
    n = len(info["theorems"])
    cov = dict(
        obligations=max(n, 1),
        discharged=n if not broken else 0,
        theorems=info["theorems"],
        print_assumptions_closed=info["closed"],
        axioms_used=info["axioms"],
        checker_cmd="make -C coq -j16 && coqc -Q coq '' coq/Properties/%s.v" % ctx.pid,
        trusted_base=KERNEL_TB + (extra_tb or []),
    )
    if chk:
        cov["coqchk"] = chk
    return cov, broken
