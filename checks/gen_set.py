"""Program generator for the set commands (C11); one PRNG seeded by VERIF_SEED.

Every case works on a small pool of keys of which some hold sets (built with SADD), one may hold
a string / a list (WRONGTYPE operands and destinations), some stay missing and some carry a
deadline that passes while the program runs (expired operands).  The generator tracks a rough
guess of each set's size so that counts hit {0, +-1, +-len, +-(len+3), +-2^40, int64 bounds}."""
import random

from .gen import Case, pick, randcase, KEYS, SLEEPS

MEMBERS = [b"a", b"b", b"c", b"d", b"e", b"", b"x\r\ny", b"\r\n", b"\n", b"\x00", b"\x00\xff", b"\xff",
           b"A", b"10", b"-1", b"a b", b"$3", b"*1", b"+OK", b"-ERR x", b"m" * 40]
SETNAMES = [b"sadd", b"srem", b"sismember", b"scard", b"smembers", b"smove", b"spop", b"srandmember",
            b"sunion", b"sinter", b"sdiff", b"sunionstore", b"sinterstore", b"sdiffstore"]
I64MAX = 9223372036854775807
I64MIN = -9223372036854775808


def counts(r, n):
    """count arguments around the (estimated) cardinality n"""
    c = r.randrange(100)
    if c < 10:
        return b"0"
    if c < 22:
        return pick(r, [b"1", b"-1"])
    if c < 40:
        return str(r.choice([n, -n])).encode()
    if c < 55:
        return str(r.choice([n + 3, -(n + 3)])).encode()
    if c < 70:
        return str(r.choice([2, -2, 3, -3, n - 1, -(n - 1), n + 1, -(n + 1)])).encode()
    if c < 78:
        # (-1048576 is the last accepted negative count: a million-element reply, only asked of a missing key in directed())
        # and -1048577 (refused by the repaired code, a million-element reply by a server without the bound) likewise
        return str(r.choice([2 ** 40, -(2 ** 40), 1048576, 1048577, -1000, -(2 ** 62)])).encode()
    if c < 86:
        return str(r.choice([I64MAX, I64MIN, I64MAX - 1, I64MIN + 1])).encode()
    if c < 92:
        return pick(r, [b"9223372036854775808", b"-9223372036854775809", b"99999999999999999999"])
    return pick(r, [b"", b"x", b"1.5", b" 1", b"1 ", b"0x2", b"--1"])


class St:
    """what the generator believes about the case so far (only used to aim the arguments)"""

    def __init__(self, keys, members=None):
        self.keys = keys
        self.members = members or MEMBERS
        self.size = {}

    def n(self, k):
        return self.size.get(k, 0)


def set_cmd(r, st):
    keys = st.keys
    k = lambda: pick(r, keys)
    m = lambda: pick(r, st.members)
    c = r.randrange(100)
    if c < 18:
        key = k()
        ms = [m() for _ in range(r.choice([1, 1, 2, 3, 4, 6]))]
        st.size[key] = st.n(key) + len(set(ms))
        return [randcase(r, b"sadd"), key] + ms
    if c < 26:
        key = k()
        ms = [m() for _ in range(r.choice([1, 1, 2, 3, 8]))]
        st.size[key] = max(0, st.n(key) - 1)
        return [randcase(r, b"srem"), key] + ms
    if c < 30:
        return [b"sismember", k(), m()]
    if c < 33:
        return [b"scard", k()]
    if c < 39:
        return [randcase(r, b"smembers"), k()]
    if c < 46:
        src = k()
        dst = src if r.random() < 0.15 else k()
        return [b"smove", src, dst, m()]
    if c < 55:
        key = k()
        a = [randcase(r, b"spop"), key]
        if r.random() < 0.7:
            cnt = counts(r, st.n(key))
            if cnt.startswith(b"-") and r.random() < 0.8:
                cnt = cnt[1:]       # SPOP refuses negative counts: keep most of them on the accepting side
            a.append(cnt)
        st.size[key] = max(0, st.n(key) - 1)
        return a
    if c < 63:
        key = k()
        a = [randcase(r, b"srandmember"), key]
        if r.random() < 0.75:
            a.append(counts(r, st.n(key)))
        return a
    if c < 78:
        name = pick(r, [b"sunion", b"sinter", b"sdiff", b"SUNION", b"SInter", b"sDIFF"])
        return [name] + [k() for _ in range(r.choice([1, 2, 2, 2, 3, 3, 4, 5]))]
    if c < 92:
        name = pick(r, [b"sunionstore", b"sinterstore", b"sdiffstore", b"SUNIONSTORE", b"SInterStore", b"sdiffSTORE"])
        ops = [k() for _ in range(r.choice([1, 2, 2, 2, 3, 3, 4, 5]))]
        dst = pick(r, ops) if r.random() < 0.3 else k()
        st.size[dst] = max(st.n(o) for o in ops)
        return [name, dst] + ops
    if c < 95:
        return [pick(r, [b"exists", b"type", b"ttl", b"del"]), k()]
    if c < 97:
        return [b"expire", k(), pick(r, [b"1", b"2", b"3", b"100"])]
    # malformed arity / odd names
    name = pick(r, SETNAMES + [b"member", b"MEMBER", b"sscan", b"smismember"])
    return [name] + [pick(r, st.members + keys + [b"1", b"-1", b"list"]) for _ in range(r.randrange(0, 5))]


def prepop(r, c, st):
    keys = st.keys
    # one or two keys of another type
    if r.random() < 0.4:
        c.cmd([b"set", keys[0], pick(r, [b"v", b"", b"10"])])
    if len(keys) > 3 and r.random() < 0.2:
        c.cmd([b"rpush", keys[1], b"a", b"b"])
    # some sets, some of them with a deadline that passes during the case
    for key in keys[1:]:
        x = r.random()
        if x < 0.7:
            ms = r.sample(st.members, r.randrange(1, min(7, len(st.members) + 1)))
            c.cmd([b"sadd", key] + ms)
            st.size[key] = len(ms)
            if r.random() < 0.3:
                c.cmd([b"expire", key, pick(r, [b"1", b"2", b"3", b"100"])])


def gen_c11(seed, ncases, maxlen=30):
    r = random.Random(seed)
    cases = []
    for i in range(ncases):
        c = Case("c11_%d_%d" % (seed, i))
        # a small member pool per case, so that operands overlap and removals hit
        st = St(r.sample(KEYS, r.randrange(3, 7)), r.sample(MEMBERS, r.randrange(3, 9)))
        prepop(r, c, st)
        n = r.randrange(1, maxlen + 1)
        every = r.random() < 0.5
        for _ in range(n):
            c.cmd(set_cmd(r, st), sleep_ms=pick(r, SLEEPS) if r.random() < 0.15 else 0)
            if every:
                c.dump()
        c.dump()
        cases.append(c)
    return cases


def directed():
    """the inputs named in DESIGN 2.7 / the property text, always run first"""
    cases = []

    def case(name, *cmds):
        c = Case("c11_dir_" + name)
        for a in cmds:
            c.cmd([x if isinstance(x, bytes) else x.encode() for x in a])
            c.dump()
        cases.append(c)

    case("sinter_nokey", ["sinter", "nokey"], ["sinterstore", "d", "nokey"])
    case("sinter_missing", ["sadd", "s", "a", "b"], ["sinter", "s", "nokey"], ["sinter", "nokey", "s"],
         ["sinterstore", "s", "s", "nokey"], ["exists", "s"])
    case("store_empty", ["sadd", "d", "old"], ["sadd", "s", "a"], ["sinterstore", "d", "s", "nokey"], ["exists", "d"],
         ["sadd", "d", "old"], ["sunionstore", "d", "n1", "n2"], ["exists", "d"],
         ["sadd", "d", "old"], ["sdiffstore", "d", "s", "s"], ["exists", "d"])
    case("store_ttl", ["sadd", "d", "old"], ["expire", "d", "100"], ["sadd", "s", "a"], ["sunionstore", "d", "s"], ["ttl", "d"],
         ["expire", "d", "100"], ["sdiffstore", "d", "s", "s"], ["sadd", "d", "x"], ["ttl", "d"])
    case("store_wrongdst", ["set", "d", "str"], ["sadd", "s", "a"], ["sunionstore", "d", "s"], ["type", "d"],
         ["set", "d", "str"], ["sinterstore", "d", "s", "nokey"], ["exists", "d"],
         ["rpush", "l", "x"], ["sdiffstore", "l", "s"], ["type", "l"])
    case("store_wrongsrc", ["set", "str", "v"], ["sadd", "s", "a"], ["sadd", "d", "old"], ["sunionstore", "d", "s", "str"],
         ["sinterstore", "d", "nokey", "str"], ["sdiffstore", "d", "nokey", "str"], ["sdiff", "nokey", "str"],
         ["sinter", "nokey", "str"], ["sunion", "nokey", "str"], ["smembers", "d"])
    case("store_dst_is_src", ["sadd", "a", "1", "2", "3"], ["sadd", "b", "2", "3", "4"], ["sdiffstore", "a", "a", "b"], ["smembers", "a"],
         ["sunionstore", "b", "a", "b"], ["smembers", "b"], ["sinterstore", "b", "b", "a"], ["smembers", "b"],
         ["sdiffstore", "b", "a", "b"], ["exists", "b"])
    # a key past its deadline whose timer has not fired yet (deadline in whole seconds, timer armed
    # for a whole second from a fractional instant): the executors must treat it as missing
    c = Case("c11_dir_expired_operand")
    c.cmd([b"sadd", b"a", b"1", b"2"])
    c.cmd([b"sadd", b"b", b"1"])
    c.cmd([b"sadd", b"e", b"9"])
    c.cmd([b"expire", b"e", b"1"], sleep_ms=500)
    c.cmd([b"sdiffstore", b"d", b"e", b"a", b"b"], sleep_ms=700)
    c.cmd([b"smembers", b"d"])
    c.cmd([b"sadd", b"e", b"9"])
    c.cmd([b"expire", b"e", b"1"], sleep_ms=500)
    c.cmd([b"sdiff", b"e", b"a"], sleep_ms=700)
    c.cmd([b"sadd", b"e", b"9"])
    c.cmd([b"expire", b"e", b"1"], sleep_ms=500)
    c.cmd([b"sinterstore", b"d", b"a", b"e"], sleep_ms=700)
    c.cmd([b"sadd", b"e", b"9", b"1"])
    c.cmd([b"expire", b"e", b"1"], sleep_ms=500)
    c.cmd([b"sunionstore", b"e", b"e", b"b"], sleep_ms=700)
    c.cmd([b"ttl", b"e"])
    c.cmd([b"expire", b"e", b"1"], sleep_ms=500)
    c.cmd([b"smove", b"a", b"e", b"2"], sleep_ms=700)
    c.cmd([b"ttl", b"e"])
    c.cmd([b"expire", b"e", b"1"], sleep_ms=500)
    c.cmd([b"scard", b"e"], sleep_ms=700)
    c.cmd([b"sadd", b"e", b"7"])
    c.cmd([b"ttl", b"e"])
    c.dump()
    cases.append(c)
    case("spop_empty_member", ["sadd", "s", "", "a"], ["spop", "s", "5"], ["exists", "s"],
         ["sadd", "s", ""], ["spop", "s"], ["exists", "s"], ["sadd", "s", "", "b", "c"], ["spop", "s", "2"], ["scard", "s"])
    case("spop_count", ["sadd", "s", "a", "b", "c"], ["spop", "s", "1"], ["spop", "s", "0"], ["spop", "nokey", "3"], ["spop", "nokey"],
         ["spop", "s", "-1"], ["spop", "s", "9223372036854775807"], ["exists", "s"], ["set", "str", "v"], ["spop", "str", "0"])
    case("smove", ["sadd", "s", "a"], ["smove", "s", "t", "a"], ["exists", "s"], ["smembers", "t"], ["smove", "t", "t", "a"],
         ["smembers", "t"], ["smove", "t", "t", "zz"], ["set", "str", "v"], ["smove", "t", "str", "a"], ["smove", "t", "str", "zz"],
         ["smove", "nokey", "str", "a"], ["smove", "str", "t", "a"], ["smembers", "t"])
    case("smove_ttl", ["sadd", "s", "a"], ["expire", "s", "100"], ["smove", "s", "t", "a"], ["sadd", "s", "b"], ["ttl", "s"], ["ttl", "t"])
    case("crlf_members", ["sadd", "s", "x\r\ny", "\r\n", ""], ["smembers", "s"], ["srandmember", "s", "3"], ["srandmember", "s", "-4"],
         ["srandmember", "s"], ["sunion", "s"], ["spop", "s", "3"])
    case("srandmember_counts", ["sadd", "s", "a", "b", "c"], ["srandmember", "s", "9223372036854775807"], ["srandmember", "s", "0"],
         ["srandmember", "s", "1"], ["srandmember", "s", "-1"], ["srandmember", "s", "-7"], ["srandmember", "s", "5"],
         ["srandmember", "nokey", "2"], ["srandmember", "nokey"], ["srandmember", "nokey", "-1048576"], ["srandmember", "s", "-1048577"],
         ["srandmember", "nokey", "-1048577"], ["srandmember", "s", "-1000"], ["srandmember", "s", "-1048576"],
         ["srandmember", "s", "-1099511627776"], ["srandmember", "s", "-9223372036854775808"], ["srandmember", "s", "-9223372036854775807"],
         ["srandmember", "nokey", "-1099511627776"], ["scard", "s"])
    case("member", ["member"], ["member", "list"], ["MEMBER", "x"], ["member", "list", "x"])
    case("arity", ["sadd"], ["sadd", "s"], ["srem", "s"], ["sismember", "s"], ["scard"], ["smembers"], ["smove", "a", "b"], ["spop"],
         ["spop", "s", "1", "2"], ["srandmember"], ["srandmember", "s", "1", "2"], ["sunion"], ["sinter"], ["sdiff"], ["sunionstore", "d"],
         ["sinterstore", "d"], ["sdiffstore", "d"], ["sunionstore"], ["sinterstore"], ["sdiffstore"])
    case("sadd_dups", ["sadd", "s", "a", "a", "b"], ["sadd", "s", "b", "c", "c"], ["srem", "s", "a", "a", "zz"], ["srem", "s", "b", "c"],
         ["exists", "s"], ["srem", "s", "a"])
    return cases
