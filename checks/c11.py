"""C11 — set commands implement exact set algebra (DESIGN.md section 3, C11).

Proof half: coq/Properties/C11.v (theorems about Mem/Sets.v for all databases, members and
operand lists).  Tie: the differential pipeline of checks/memlib.py — directed cases (every input
named in DESIGN 2.7 for sets) + seeded random programs from checks/gen_set.py run on the real
server.Manager under the virtual clock; the extracted model replays every step and compares every
reply (map-ordered replies sorted; SPOP/SRANDMEMBER through the acceptor) and every keyspace dump."""
import resource

from . import gen_set, memlib

PID = "C11"


def _deep_stack():
    """The extracted model (and ml/memrun.ml) recurse once per element of a reply; SRANDMEMBER with
    count -2^20 legitimately answers with a million elements.  Child processes inherit the limit."""
    try:
        soft, hard = resource.getrlimit(resource.RLIMIT_STACK)
        resource.setrlimit(resource.RLIMIT_STACK, (hard, hard))
    except (ValueError, OSError):
        pass


def make_cases(tier, seed):
    n = 40000 if tier == "quick" else 100000
    return gen_set.directed() + gen_set.gen_c11(seed, n)


def run(ctx):
    _deep_stack()
    return memlib.run_family(
        ctx, PID, make_cases, wire_every=2,
        rule="directed cases for every defect listed in design.d/C11.md + seeded random programs (1-30 commands) of the 14 set "
             "commands over 3-6 keys holding sets / a string / a list / nothing / a set whose deadline passes during the program; "
             "members include the empty string, CR, LF, CRLF, NUL, 0xff and RESP look-alikes; operand lists of length 1-5, "
             "destination equal to a source in 30% of the STORE forms; counts from {0, +-1, +-len, +-(len+3), +-2^40, the bound "
             "of the negative SRANDMEMBER count +-1, int64 min/max and beyond, non-numbers}; a malformed-arity stream",
        extra_tb=["SPOP/SRANDMEMBER are checked in acceptor form: the observed reply is the model's hint and is accepted iff "
                  "the reference allows it (Mem/Sets.v choose_one/choose_distinct/choose_repeated; theorems C11_spop_exact, "
                  "C11_srandmember_members_only state what is accepted); uniformity of the random choice is not checked",
                  "replies built by ranging over a Go map (SMEMBERS, SUNION, SINTER, SDIFF, SPOP, SRANDMEMBER) are compared as sorted sequences"])
