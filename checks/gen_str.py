"""Generators for C01 (string and generic key commands).  Everything is derived from one PRNG
seeded by VERIF_SEED, or is a plain enumeration.

Streams (DESIGN 3/C01 Gen):
  random_programs   programs of 1-40 commands over 2-7 keys drawn from a pool of 12 (case variants,
                    empty key, CR/LF, NUL/0xff), some keys pre-populated with every other type the
                    model knows, values biased to numerals and boundaries, virtual-clock sleeps
  set_option_cases  every subset of {NX,XX,GET,KEEPTTL,EX,PX,EXAT} x argument shapes (valid /
                    missing / non-numeric / zero / negative / overflow) x letter case x order,
                    on a missing key, a string with a deadline, and a key of another type
  index_cases       GETRANGE / SETRANGE with every index pair from {min64, -len-1 .. len+1, max64}
                    on values of length 0..3, SETRANGE offsets around the 512 MB limit
  malformed_cases   every command name with 0..5 arguments; unknown command names
  exhaustive_cases  all programs of length 3 over the keys k / K and a fixed set of command
                    instances built from a 6-value argument alphabet (bounded-exhaustive tier)
"""
import itertools
import random
import re
from pathlib import Path

from .gen import Case as _Case, pick, randcase


class Case(_Case):
    """A case whose commands can be given to the executors in the shape the server's parser
    produces (harness memrun: 4th field "wire" of the CASE line; see harness/mem.go)."""
    wire = False

    def text(self):
        return "CASE %s %d%s\n%s\nEND\n" % (self.name, self.dbs, " wire" if self.wire else "", "\n".join(self.lines))


def wired(cases, suffix="w"):
    """Copies of the cases with wire-shaped arguments."""
    out = []
    for c in cases:
        w = Case(c.name + suffix, c.dbs)
        w.lines, w.nsteps, w.wire = c.lines, c.nsteps, True
        out.append(w)
    return out

KEYS = [b"k", b"K", b"key1", b"Key1", b"foo", b"FOO", b"", b"a b", b"x\r\ny", b"\x00\xff", b"k2", b"other"]
VALS = [b"", b"v", b"Hello", b"hello world", b"10", b"-1", b"0", b"007", b"+5", b"-0", b"9223372036854775807",
        b"-9223372036854775808", b"9223372036854775808", b"9223372036854775806", b"3.5", b"-0.25", b"10.125",
        b"0.1", b"abc\r\ndef", b"\x00\x01\xfe\xff", b" 12", b"12 ", b"1e3", b"12345678901234567890", b"x" * 40,
        b"999999999999999", b"0.5", b"1_0"]
INTS = [b"0", b"1", b"-1", b"2", b"3", b"5", b"-5", b"10", b"100", b"-100", b"9223372036854775807",
        b"-9223372036854775808", b"9223372036854775806", b"-9223372036854775807", b"abc", b"", b"1.5", b"+3",
        b"007", b"-0", b"99999999999999999999", b" 1", b"1 ", b"0x10", b"1_0"]
FLOATS = [b"0.5", b"-0.5", b"0.25", b"1", b"-1", b"10.125", b"100", b"0.125", b"-2.75", b"007.50", b"+1.5",
          b"999999999999999", b"-999999999999999", b"0.0009765625",          # exact (dyadic) domain
          b"0.1", b"3.3", b"1e3", b"1E-2", b".5", b"5.", b"-0", b"1_0", b"0x1p-2", b"1234567890123456",
          b"inf", b"-Infinity", b"nan", b"1e400", b"abc", b"", b" 1", b"1,5", b"hello"]
IDX = [b"0", b"1", b"2", b"3", b"4", b"5", b"6", b"7", b"10", b"-1", b"-2", b"-3", b"-4", b"-5", b"-6", b"-7", b"-100",
       b"100", b"9223372036854775807", b"-9223372036854775808", b"x", b"", b"+1", b"01"]
OFFS = [b"0", b"1", b"2", b"3", b"4", b"5", b"6", b"7", b"8", b"11", b"12", b"20", b"-1", b"x", b"", b"300", b"536870913",
        b"1000000000000", b"9223372036854775807", b"-9223372036854775808", b"+2", b"02"]
PATTERNS = [b"*", b"k*", b"?", b"[kK]", b"[a-z]*", b"*1", b"K??1", b"\\k", b"[^k]*", b"*o*", b"[", b"k\\", b"[a-", b"**",
            b"a b", b"*\n*", b"", b"[\x00-\x7f]*", b"*\xff"]
SLEEPS = [0, 0, 0, 0, 0, 0, 300, 700, 1000, 1500, 2500]
T0 = 1257894000        # first instant of Go's faketime clock

ALL_NAMES = [b"set", b"get", b"mset", b"mget", b"setnx", b"setex", b"append", b"strlen", b"getrange", b"setrange", b"incr",
             b"decr", b"incrby", b"decrby", b"incrbyfloat", b"del", b"exists", b"type", b"rename", b"keys", b"ping",
             b"expire", b"ttl", b"persist"]

# ---------------------------------------------------------------- keys of the other types
# pre-population commands per type; a type is used only if the model (coq/Mem/Exec.v) dispatches
# the command, so the list grows by itself when the other families are added to the model
OTHER_TYPES = {
    "list": (b"rpush", lambda k: [b"rpush", k, b"a", b"b"]),
    "hash": (b"hset", lambda k: [b"hset", k, b"f", b"v"]),
    "set": (b"sadd", lambda k: [b"sadd", k, b"m1", b"m2"]),
    "zset": (b"zadd", lambda k: [b"zadd", k, b"1", b"m"]),
    "stream": (b"xadd", lambda k: [b"xadd", k, b"1-1", b"f", b"v"]),
}


def available_other_types():
    """The other value types whose creating command some family file under coq/Mem dispatches."""
    mem = Path(__file__).resolve().parent.parent / "coq" / "Mem"
    names = set()
    for f in sorted(mem.glob("*.v")):
        if "Proofs" in f.name or "Spec" in f.name:
            continue
        names |= set(re.findall(r'is n \(B "([a-z]+)"\)', f.read_text()))
    return [t for t, (cmd, _) in OTHER_TYPES.items() if cmd.decode() in names]


def prepop_cmds(types=None):
    types = available_other_types() if types is None else types
    return [OTHER_TYPES[t][1] for t in types]


# ---------------------------------------------------------------- SET options
def set_opts(r):
    opts = []
    for _ in range(r.choice([0, 0, 1, 1, 2, 3])):
        o = r.choice(["NX", "XX", "GET", "KEEPTTL", "EX", "PX", "EXAT", "bogus", "PXAT"])
        opts.append(randcase(r, o.encode()))
        if o in ("EX", "PX", "EXAT") and r.random() < 0.93:
            if o == "EX":
                opts.append(pick(r, [b"1", b"2", b"3", b"100", b"0", b"-1", b"x", b"10", b"+2", b"9223372036854775807"]))
            elif o == "PX":
                opts.append(pick(r, [b"1", b"500", b"999", b"1000", b"1001", b"2500", b"0", b"-5", b"x", b"9223372036854775807"]))
            else:
                opts.append(pick(r, [b"%d" % (T0 + 1), b"%d" % (T0 + 3), b"%d" % (T0 + 1000), b"1", b"0", b"-1", b"x",
                                     b"2000000000", b"9223372036854775807"]))
    return opts


def string_cmd(r, keys):
    k = lambda: pick(r, keys)
    v = lambda: pick(r, VALS)
    c = r.randrange(104)
    if c < 16:
        return [randcase(r, b"set"), k(), v()] + set_opts(r)
    if c < 25:
        return [randcase(r, b"get"), k()]
    if c < 29:
        a = [b"mset"]
        for _ in range(r.randrange(1, 4)):
            a += [k(), v()]
        if r.random() < 0.1:
            a.append(k())
        return a
    if c < 33:
        return [b"mget"] + [k() for _ in range(r.randrange(1, 4))]
    if c < 36:
        return [b"setnx", k(), v()]
    if c < 39:
        return [b"setex", k(), pick(r, [b"1", b"2", b"100", b"0", b"-1", b"x", b"9223372036854775807", b"+1"]), v()]
    if c < 44:
        return [b"append", k(), v()]
    if c < 47:
        return [b"strlen", k()]
    if c < 54:
        return [b"getrange", k(), pick(r, IDX), pick(r, IDX)]
    if c < 60:
        return [b"setrange", k(), pick(r, OFFS), pick(r, [b"", b"J", b"xy", b"\r\n", b"zzzzzzzz", b"\x00"])]
    if c < 64:
        return [pick(r, [b"incr", b"decr", b"INCR", b"Decr"]), k()]
    if c < 69:
        return [pick(r, [b"incrby", b"decrby", b"IncrBy"]), k(), pick(r, INTS)]
    if c < 74:
        return [pick(r, [b"incrbyfloat", b"INCRBYFLOAT"]), k(), pick(r, FLOATS)]
    if c < 78:
        return [b"del"] + [k() for _ in range(r.randrange(1, 4))]
    if c < 82:
        return [b"exists"] + [k() for _ in range(r.randrange(1, 4))]
    if c < 85:
        return [randcase(r, b"type"), k()]
    if c < 89:
        return [b"rename", k(), k()]
    if c < 93:
        return [b"keys", pick(r, PATTERNS)]
    if c < 95:
        return [pick(r, [b"ping", b"PING", b"PiNg"])] + ([v()] if r.random() < 0.5 else [])
    if c < 98:
        a = [b"expire", k(), pick(r, [b"1", b"2", b"3", b"100", b"0", b"-1", b"x"])]
        if r.random() < 0.5:
            a.append(randcase(r, pick(r, [b"nx", b"xx", b"gt", b"lt", b"zz"])))
        return a
    if c < 100:
        return [b"ttl", k()]
    if c < 101:
        return [b"persist", k()]
    # malformed arity / unknown
    name = pick(r, ALL_NAMES + [b"nosuchcmd", b"GETX", b"se t", b""])
    return [name] + [pick(r, VALS + KEYS) for _ in range(r.randrange(0, 5))]


def random_programs(seed, ncases, maxlen=40, prepop=None):
    r = random.Random(seed)
    prepop = prepop_cmds() if prepop is None else prepop
    cases = []
    for i in range(ncases):
        c = Case("c01r_%d_%d" % (seed, i))
        keys = r.sample(KEYS, r.randrange(2, 8))
        for kk in keys:                       # some keys start as another type
            if prepop and r.random() < 0.25:
                c.cmd(pick(r, prepop)(kk))
        n = r.randrange(1, maxlen + 1)
        every = r.random() < 0.5
        for _ in range(n):
            c.cmd(string_cmd(r, keys), sleep_ms=pick(r, SLEEPS) if r.random() < 0.3 else 0)
            if every:
                c.dump()
        c.dump()
        cases.append(c)
    return cases


# ---------------------------------------------------------------- exhaustive SET option shapes
FLAGS = ["NX", "XX", "GET", "KEEPTTL", "EX", "PX", "EXAT"]
GOOD = {"EX": b"100", "PX": b"1500", "EXAT": b"%d" % (T0 + 50)}
BAD_ARGS = [None, b"x", b"0", b"-1", b"9223372036854775807", b"+7", b""]     # None = argument missing


def spell(word, style):
    if style == 0:
        return word.encode()
    if style == 1:
        return word.lower().encode()
    return "".join(ch.lower() if i % 2 else ch for i, ch in enumerate(word)).encode()


def set_option_cases(prepop=None):
    prepop = prepop_cmds() if prepop is None else prepop
    cases = []
    n = 0

    def one(words, style):
        nonlocal n
        # the key of another type cycles through every type the model knows
        states = ["missing", "string-ttl"] + (["other"] if prepop else [])
        for stt in states:
            c = Case("c01s_%d" % n)
            n += 1
            if stt == "string-ttl":
                c.cmd([b"set", b"Key", b"old", b"EX", b"1000"])
            elif stt == "other":
                c.cmd(prepop[n % len(prepop)](b"Key"))
                c.cmd([b"expire", b"Key", b"1000"])
            c.cmd([spell("SET", style), b"Key", b"new"] + words)
            c.cmd([b"get", b"Key"])
            c.cmd([b"ttl", b"Key"])
            c.cmd([b"type", b"Key"])
            c.cmd([b"get", b"key"])
            c.dump()
            cases.append(c)

    for mask in range(1 << len(FLAGS)):
        subset = [f for i, f in enumerate(FLAGS) if mask >> i & 1]
        for style in (0, 1, 2):
            words = []
            for f in subset:
                words.append(spell(f, style))
                if f in GOOD:
                    words.append(GOOD[f])
            one(words, style)
        # reversed order, upper case
        words = []
        for f in reversed(subset):
            words.append(f.encode())
            if f in GOOD:
                words.append(GOOD[f])
        if len(subset) > 1:
            one(words, 0)
        # one expiry argument malformed / missing (only where exactly one expiry option is present,
        # otherwise the command is rejected anyway)
        exp = [f for f in subset if f in GOOD]
        if len(exp) == 1 and "KEEPTTL" not in subset:
            for bad in BAD_ARGS:
                words = []
                for f in subset:
                    words.append(f.encode())
                    if f in GOOD and bad is not None:
                        words.append(bad)
                one(words, 0)
    # repeated options
    for words in ([b"NX", b"NX"], [b"EX", b"5", b"EX", b"7"], [b"EX", b"0", b"EX", b"7"], [b"EX", b"x", b"EX", b"7"],
                  [b"PX", b"1", b"PX", b"2001"], [b"GET", b"GET"], [b"KEEPTTL", b"KEEPTTL"], [b"EXAT", b"1", b"EXAT", b"%d" % (T0 + 9)],
                  [b"EXAT", b"%d" % T0], [b"EXAT", b"%d" % (T0 - 1)], [b"EXAT", b"%d" % (T0 + 1)]):
        one(list(words), 0)
    return cases


# ---------------------------------------------------------------- boundary indexes
def index_cases():
    cases = []
    n = 0
    lo, hi = b"-9223372036854775808", b"9223372036854775807"
    for ln in range(0, 4):
        val = b"abc"[:ln]
        idx = [lo] + [b"%d" % i for i in range(-ln - 1, ln + 2)] + [hi]
        c = Case("c01i_g%d" % ln)
        if ln:
            c.cmd([b"set", b"g", val])
        for s, e in itertools.product(idx, idx):
            c.cmd([b"getrange", b"g", s, e])
        c.dump()
        cases.append(c)
        for off in [b"-1", lo] + [b"%d" % i for i in range(0, ln + 3)] + [b"536870910", b"536870911", b"536870912", hi]:
            for v in (b"", b"X", b"XYZ"):
                c = Case("c01i_s%d" % n)
                n += 1
                if ln:
                    c.cmd([b"set", b"g", val, b"EX", b"100"])
                if off in (b"536870910", b"536870911", b"536870912"):
                    # an accepted write here really allocates 512 MB (and a wrong padding of the
                    # empty value would too): only the rejected side of the limit is probed
                    c.cmd([b"setrange", b"g", off, v + b"XXX"])
                else:
                    c.cmd([b"setrange", b"g", off, v])
                c.cmd([b"strlen", b"g"])
                c.cmd([b"exists", b"g"])
                c.dump()
                cases.append(c)
    return cases


# ---------------------------------------------------------------- generic key commands x every value type
def generic_key_cases(prepop_types=None):
    """TYPE / EXISTS / RENAME / DEL / KEYS / MGET / SET over keys holding each value type (string
    and every other type the model knows), with and without a deadline; RENAME onto a missing key,
    onto itself and onto a key of each type."""
    types = available_other_types() if prepop_types is None else prepop_types
    make = {"string": lambda k: [b"set", k, b"sv"]}
    for t in types:
        make[t] = OTHER_TYPES[t][1]
    names = list(make)
    cases = []
    n = 0
    for src in names:
        for dst in ["missing", "itself"] + names:
            for ttl in (False, True):
                c = Case("c01k_%d" % n)
                n += 1
                c.cmd(make[src](b"Src"))
                if ttl:
                    c.cmd([b"expire", b"Src", b"100"])
                if dst in make:
                    c.cmd(make[dst](b"Dst"))
                    c.cmd([b"expire", b"Dst", b"500"])
                target = b"Src" if dst == "itself" else b"Dst"
                c.cmd([b"type", b"Src"])
                c.cmd([b"exists", b"Src", b"Dst", b"Src", b"src"])
                c.cmd([b"keys", b"*"])
                c.cmd([b"mget", b"Src", b"Dst"])
                c.cmd([b"rename", b"Src", target])
                c.dump()
                c.cmd([b"type", target])
                c.cmd([b"ttl", target])
                c.cmd([b"type", b"Src"])
                c.cmd([b"exists", b"Src", b"Dst"])
                c.cmd([b"keys", b"?[rs][ct]"])
                c.cmd([b"rename", b"nokey", target])
                c.cmd([b"del", b"Src", b"Dst", b"Dst", b"nokey"], sleep_ms=1000)
                c.cmd([b"set", target, b"x"])
                c.cmd([b"type", target])
                c.dump()
                cases.append(c)
    return cases


# ---------------------------------------------------------------- SETRANGE past the end: reading the gap
def gap_cases():
    """A string value of length n obtained in every way (stored straight from a command argument
    by SET / SET GET / MSET / SETNX / SETEX / APPEND on a missing key / RENAME of such a key; or
    computed: INCRBY, APPEND growth, an earlier SETRANGE, INCRBYFLOAT), then SETRANGE at n+1, n+2,
    n+3 with a 1- or 2-byte argument, then every command that reads the gap (GET, GETRANGE,
    STRLEN, APPEND + GET, a second SETRANGE further out) and a dump.  Run in both argument shapes."""
    vals = [b"", b"a", b"abc", b"0123456789", b"12", b"x\r\ny"]
    creators = [
        ("set", lambda v: [[b"set", b"g", v]]),
        ("setget", lambda v: [[b"set", b"g", b"old"], [b"set", b"g", v, b"GET"]]),
        ("mset", lambda v: [[b"mset", b"other", b"zz", b"g", v]]),
        ("setnx", lambda v: [[b"setnx", b"g", v]]),
        ("setex", lambda v: [[b"setex", b"g", b"100", v]]),
        ("append0", lambda v: [[b"append", b"g", v]]),
        ("rename", lambda v: [[b"set", b"src", v], [b"rename", b"src", b"g"]]),
        ("appendgrow", lambda v: [[b"set", b"g", v[:1]], [b"append", b"g", v[1:]]]),
        ("setrange", lambda v: [[b"setrange", b"g", b"0", v]] if v else [[b"set", b"g", v]]),
    ]
    cases = []
    n = 0
    for cname, mk in creators:
        for v in vals:
            for extra in (1, 2, 3):
                for arg in (b"X", b"XY"):
                    c = Case("c01g_%s_%d" % (cname, n))
                    n += 1
                    for a in mk(v):
                        c.cmd(a)
                    off = len(v) + extra
                    c.cmd([b"setrange", b"g", b"%d" % off, arg])
                    c.cmd([b"get", b"g"])
                    c.cmd([b"getrange", b"g", b"%d" % max(len(v) - 1, 0), b"%d" % (off + 1)])
                    c.cmd([b"strlen", b"g"])
                    c.dump()
                    c.cmd([b"append", b"g", b"Z"])
                    c.cmd([b"get", b"g"])
                    c.cmd([b"setrange", b"g", b"%d" % (off + len(arg) + 2), b"W"])
                    c.cmd([b"get", b"g"])
                    c.dump()
                    cases.append(c)
    # numbers: the stored value is computed by the server
    for first, cmd2 in (([b"set", b"g", b"41"], [b"incr", b"g"]), ([b"incrby", b"g", b"1234"], None),
                        ([b"incrbyfloat", b"g", b"10.5"], None), ([b"set", b"g", b"7"], [b"decrby", b"g", b"9"])):
        for extra in (1, 2):
            c = Case("c01g_num_%d" % n)
            n += 1
            c.cmd(first)
            if cmd2:
                c.cmd(cmd2)
            c.cmd([b"strlen", b"g"])
            for base in (2, 4):
                c.cmd([b"setrange", b"g", b"%d" % (base + extra), b"X"])
                c.cmd([b"get", b"g"])
            c.dump()
            cases.append(c)
    return cases


# ---------------------------------------------------------------- aliasing: equal values must not share storage
def _int_paths(v):
    """Ways to make a key hold the decimal of integer v (value-producing paths of the server)."""
    d = b"%d" % v
    ps = [
        ("incrby", lambda k: [[b"incrby", k, d]]),
        ("decrby", lambda k: [[b"decrby", k, b"%d" % -v]]),
        ("set+incr", lambda k: [[b"set", k, b"%d" % (v - 1)], [b"incr", k]]),
        ("set+decr", lambda k: [[b"set", k, b"%d" % (v + 1)], [b"decr", k]]),
        ("incrby2", lambda k: [[b"incrby", k, b"%d" % (v - 3)], [b"incrby", k, b"3"]]),
        ("set", lambda k: [[b"set", k, d]]),
        ("append0", lambda k: [[b"append", k, d]]),
        ("setrange0", lambda k: [[b"setrange", k, b"0", d]]),
        ("rename", lambda k: [[b"incrby", b"tmp" + k, d], [b"rename", b"tmp" + k, k]]),
    ]
    if 0 < v <= 3:
        ps.insert(0, ("incr*", lambda k: [[b"incr", k]] * v))
    if -3 <= v < 0:
        ps.insert(0, ("decr*", lambda k: [[b"decr", k]] * (-v)))
    return ps


def _lit_paths(v):
    ps = [
        ("set", lambda k: [[b"set", k, v]]),
        ("mset", lambda k: [[b"mset", k, v]]),
        ("setget", lambda k: [[b"set", k, b"zz"], [b"set", k, v, b"GET"]]),
        ("setnx", lambda k: [[b"setnx", k, v]]),
        ("setex", lambda k: [[b"setex", k, b"1000", v]]),
        ("append0", lambda k: [[b"append", k, v]]),
        ("rename", lambda k: [[b"set", b"tmp" + k, v], [b"rename", b"tmp" + k, k]]),
    ]
    if v:
        ps.append(("setrange0", lambda k: [[b"setrange", k, b"0", v]]))
        ps.append(("append2", lambda k: [[b"set", k, v[:1]], [b"append", k, v[1:]]]))
    return ps


def aliasing_cases():
    """Keys a, b (and a bystander c) are brought to the SAME value through every value-producing
    path -- counters reaching equal integers (0, small, 4-5 digits, negative) by INCR / DECR /
    INCRBY / DECRBY in several ways, equal literals by SET / MSET / SET GET / SETNX / SETEX, values
    created by APPEND / SETRANGE / RENAME, equal INCRBYFLOAT results -- then ONE of them is
    changed by an in-place mutator (APPEND of 1..8 bytes, SETRANGE inside / at / past the end, INCR),
    every key is read, then the OTHER is changed differently, every key is read again, and once
    more the first; dumps after each phase.  Equal values must behave as independent values.
    (GETSET and COPY are not commands of this server.)"""
    cases = []
    n = 0

    def build(name, mk_a, mk_b, mk_c, ln, numeric):
        nonlocal n
        schemes = [
            [("a", [b"append", None, b"0"]), ("b", [b"append", None, b"5"]), ("a", [b"append", None, b"77"])],
            [("a", [b"append", None, b"12345678"]), ("b", [b"append", None, b"x"]), ("a", [b"append", None, b"yz"])],
            [("a", [b"setrange", None, b"0", b"Z"]), ("b", [b"setrange", None, b"0", b"Y"]), ("a", [b"append", None, b"1"])],
            [("a", [b"setrange", None, b"%d" % ln, b"E"]), ("b", [b"setrange", None, b"%d" % ln, b"F"]),
             ("a", [b"setrange", None, b"%d" % (ln + 1), b"G"])],
            [("a", [b"setrange", None, b"%d" % (ln + 1), b"G"]), ("b", [b"setrange", None, b"%d" % (ln + 1), b"H"]),
             ("a", [b"append", None, b"3"])],
        ]
        if numeric:
            schemes.append([("a", [b"append", None, b"0"]), ("b", [b"incr", None]), ("b", [b"append", None, b"5"]),
                            ("a", [b"incr", None]), ("b", [b"decrby", None, b"2"])])
        for si, sch in enumerate(schemes):
            for first in ("a", "b"):            # both orders: which of the two equal keys is touched first
                c = Case("c01a_%s_%d" % (name, n))
                n += 1
                for k, mk in ((b"a", mk_a), (b"b", mk_b), (b"c", mk_c)):
                    for a in mk(k):
                        c.cmd(a)
                c.cmd([b"mget", b"a", b"b", b"c"])
                for who, cmd in sch:
                    key = (b"a" if who == "a" else b"b") if first == "a" else (b"b" if who == "a" else b"a")
                    c.cmd([cmd[0], key] + cmd[2:])
                    c.cmd([b"mget", b"a", b"b", b"c"])
                    c.cmd([b"strlen", b"c"])
                    c.dump()
                cases.append(c)

    for v in (0, 1, 2, 7, 10, 42, 999, 1000, 9999, 10000, 12345, -1, -7, -100):
        ps = _int_paths(v)
        ln = len(b"%d" % v)
        # a and b by the same path, and by every pair of different paths among the first five
        pairs = [(i, i) for i in range(min(3, len(ps)))] + [(i, j) for i in range(min(5, len(ps))) for j in range(i + 1, min(6, len(ps)))]
        for i, j in pairs:
            build("int%d_%s_%s" % (v, ps[i][0], ps[j][0]), ps[i][1], ps[j][1], ps[(j + 1) % len(ps)][1], ln, True)
    for v in (b"", b"x", b"hello", b"10", b"x\r\ny"):
        ps = _lit_paths(v)
        pairs = [(0, 0), (0, 1)] + [(i, (i + 1) % len(ps)) for i in range(1, len(ps))]
        for i, j in pairs:
            build("lit%d_%s_%s" % (len(v), ps[i][0], ps[j][0]), ps[i][1], ps[j][1], ps[(j + 1) % len(ps)][1], len(v), False)
    for f, ln in ((b"1.5", 3), (b"10.25", 5), (b"-0.5", 4)):
        one = lambda k, f=f: [[b"incrbyfloat", k, f]]
        two = lambda k, f=f: [[b"incrbyfloat", k, b"0.5"], [b"incrbyfloat", k, b"%s" % (b"1" if f == b"1.5" else b"9.75" if f == b"10.25" else b"-1")]]
        lit = lambda k, f=f: [[b"set", k, f]]
        build("flt_%d" % ln, one, one, lit, ln, False)
        build("flt2_%d" % ln, one, two, lit, ln, False)
    return cases


# ---------------------------------------------------------------- malformed arity, unknown commands
def malformed_cases(seed):
    r = random.Random(seed * 7919 + 1)
    cases = []
    pool = [b"k", b"1", b"v", b"nx", b"0", b"-1"]
    for i, name in enumerate(ALL_NAMES + [b"nosuchcmd", b"", b"GET\r\n", b"set ", b"\x00"]):
        c = Case("c01m_%d" % i)
        c.cmd([b"set", b"k", b"5"])
        for nargs in range(0, 6):
            for variant in range(2):
                c.cmd([randcase(r, name)] + [pick(r, pool) for _ in range(nargs)])
        c.dump()
        cases.append(c)
    return cases


# ---------------------------------------------------------------- bounded-exhaustive small scope
ALPHA = [b"", b"1", b"-1", b"ab", b"9223372036854775807", b"x\r\n"]


def command_instances(prepop=None, large=False):
    prepop = prepop_cmds() if prepop is None else prepop
    K = [b"k", b"K"]
    ins = []
    for k in K:
        for v in ALPHA:
            ins.append([b"set", k, v])
        ins += [[b"set", k, b"1", b"NX"], [b"set", k, b"ab", b"XX", b"GET"], [b"set", k, b"-1", b"KEEPTTL"],
                [b"set", k, b"1", b"EX", b"100"]]
        ins += [[b"get", k], [b"strlen", k], [b"incr", k], [b"decr", k], [b"type", k], [b"setnx", k, b"ab"]]
        for v in (b"", b"1", b"ab"):
            ins.append([b"append", k, v])
        for v in (b"1", b"-1", b"9223372036854775807", b"ab"):
            ins.append([b"incrby", k, v])
        ins += [[b"decrby", k, b"-1"], [b"getrange", k, b"1", b"-1"], [b"getrange", k, b"-1", b"9223372036854775807"],
                [b"setrange", k, b"1", b""], [b"setrange", k, b"1", b"ab"], [b"setrange", k, b"2", b"1"],
                [b"incrbyfloat", k, b"0.5"]]
        for p in (prepop if k == b"k" else prepop[:1]):     # k: every other type, K: a list
            ins.append(p(k))
        if large:
            ins += [[b"set", k, b"ab", b"GET"], [b"set", k, b"1", b"XX"], [b"setex", k, b"100", b"1"], [b"ttl", k],
                    [b"persist", k], [b"expire", k, b"100"], [b"decrby", k, b"9223372036854775807"],
                    [b"incrbyfloat", k, b"x\r\n"], [b"getrange", k, b"-1", b"-9223372036854775808"],
                    [b"setrange", k, b"9223372036854775807", b"1"], [b"append", k, b"x\r\n"]]
            if k != b"k":
                for p in prepop[1:]:
                    ins.append(p(k))
    ins += [[b"del", b"k"], [b"del", b"k", b"K", b"k"], [b"exists", b"k", b"K", b"k"], [b"rename", b"k", b"K"],
            [b"rename", b"K", b"k"], [b"rename", b"k", b"k"], [b"keys", b"*"], [b"keys", b"[k]"], [b"mget", b"k", b"K"],
            [b"mset", b"k", b"1", b"K", b"ab", b"k", b"-1"]]
    return ins


def exhaustive_cases(length=3, sample=None, seed=1, prepop=None, large=False):
    """All programs of the given length over command_instances (or a seeded sample of them)."""
    ins = command_instances(prepop, large)
    m = len(ins)
    total = m ** length
    if sample is not None and sample < total:
        r = random.Random(seed * 104729 + length)
        idxs = (tuple(r.randrange(m) for _ in range(length)) for _ in range(sample))
    else:
        idxs = itertools.product(range(m), repeat=length)
    for n, t in enumerate(idxs):
        c = Case("c01x_%s" % "_".join(map(str, t)))
        c.wire = bool(n & 1)               # every other program in the parser's argument shape
        for i in t:
            c.cmd(ins[i])
        c.dump()
        yield c


# ---------------------------------------------------------------- programs for the TCP sample
TIMELESS_DROP = {b"setex", b"expire", b"ttl", b"persist"}
TIMED_WORDS = {b"ex", b"px", b"exat", b"keepttl", b"pxat"}


def tcp_programs(seed, ncases=16, maxlen=60, prepop=None):
    """Random programs without any expiry option or command (they run on the real clock, so a
    reply must not depend on it), each ending with read-backs of every key of its pool."""
    r = random.Random(seed * 65537 + 11)
    prepop = prepop_cmds() if prepop is None else prepop
    cases = []
    for i in range(ncases):
        c = Case("c01t_%d_%d" % (seed, i))
        keys = r.sample(KEYS, r.randrange(2, 8))
        for kk in keys:
            if prepop and r.random() < 0.25:
                c.cmd(pick(r, prepop)(kk))
        n = r.randrange(10, maxlen + 1)
        while n > 0:
            a = string_cmd(r, keys)
            if not a or a[0].lower() in TIMELESS_DROP:
                continue
            if a[0].lower() == b"set" and any(w.lower() in TIMED_WORDS for w in a[3:]):
                continue
            c.cmd(a)
            n -= 1
        for kk in keys:
            c.cmd([b"type", kk])
            c.cmd([b"get", kk])
            c.cmd([b"strlen", kk])
        c.cmd([b"keys", b"*"])
        cases.append(c)
    return cases
