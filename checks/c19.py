"""C19 — published messages reach exactly the current subscribers, once, intact, in order; PUBLISH
reports how many received it; concurrent subscribe/publish/disconnect neither crash the server nor
block publishers (DESIGN.md section 3, C19; design.d/C19.md).

proof     coq/Properties/C19.v (all programs; model = coq/PubSub/PubSubModel.v)
tie (T)   `harness_pubsub lockcheck`: every access to a channel's subscriber table is under that
          channel's lock, Send's writes have a deadline, the channel table is mutated under the
          table lock — the hypothesis of C19_atomic_ops_linearizable, re-read from the source
tie (D)   seeded sequential programs through real TCP connections + server.Manager.Handle;
          every byte each connection received is decoded by the extracted decoder and compared
          with the output queue of the extracted model
tie (V)   publishers, churning subscribers, abrupt disconnects, a subscriber that never reads:
          no crash, publishers finish (watchdog), order / no duplicate / intact / nothing after an
          acknowledged unsubscribe / nothing missing / count within the linearizability window"""
import json
import re
import time

from . import gen_pubsub, lib

PID = "C19"
H = "harness_pubsub"
HC = "harness_pubsub_cmd"   # command-level build (no internal API of memdb): the fallback when H does not compile
HR = "harness_pubsub_race"
RUNNER = "pubsubrun"


# ----------------------------------------------------------------------------- (D) sequential

def run_seq(d, cases, tag="p", harness=H, timeout=600):
    """cases: list of line lists. Returns dict case-id -> (verdict, text); harness death is
    reported on the case that was running."""
    prog, trace, ver = d / (tag + ".prog"), d / (tag + ".trace"), d / (tag + ".verdict")
    prog.write_text("\n".join("\n".join(c) for c in cases) + "\n")
    for f in (trace, ver):
        if f.exists():
            f.unlink()
    rc, log = lib.sh("%s seq %s %s" % (lib.BUILD / harness, prog, trace), cwd=d, timeout=timeout)
    res = {}
    crashed = None
    if rc != 0 or not trace.exists():
        txt = trace.read_text() if trace.exists() else ""
        ids = re.findall(r"^CASE (\S+)$", txt, flags=re.M)
        ends = len(re.findall(r"^END$", txt, flags=re.M))
        crashed = ids[-1] if len(ids) > ends else (ids[-1] if ids else cases[0][0].split()[1])
        # keep the complete cases for the model, drop the torn one
        keep, cur = [], []
        for l in txt.splitlines():
            cur.append(l)
            if l == "END":
                keep += cur
                cur = []
        trace.write_text("\n".join(keep) + ("\n" if keep else ""))
        what = "RACE" if "DATA RACE" in log else "CRASH"
        res[crashed] = (what, "harness rc=%s: %s" % (rc, tail_of_go_failure(log)))
    rc2, log2 = lib.sh("%s seq %s %s" % (lib.BUILD / RUNNER, trace, ver), cwd=d, timeout=timeout)
    if rc2 != 0 or not ver.exists():
        raise RuntimeError("pubsubrun failed: rc=%s %s" % (rc2, log2[-1500:]))
    for l in ver.read_text().splitlines():
        f = l.split(" ", 2)
        if len(f) >= 2 and f[0] not in res:
            res[f[0]] = (f[1], f[2] if len(f) > 2 else "")
    return res


def tail_of_go_failure(log):
    m = re.search(r"(fatal error:[^\n]*|panic:[^\n]*|WARNING: DATA RACE)", log)
    head = m.group(1) if m else ""
    lines = [l for l in log.splitlines() if "pubsub" in l or "db_manager" in l][:6]
    return (head + " | " + " ; ".join(x.strip() for x in lines))[:1200] if (head or lines) else log[-800:]


def failing(res, cid):
    v = res.get(cid)
    return v is None or v[0] != "OK"


def shrink(d, case, harness=H):
    """drop operations / shorten arguments while the case still fails"""
    cid = case[0].split()[1]
    ops = case[1:-1]
    budget = 120
    t_stop = time.time() + 90

    def fails(ops2):
        nonlocal budget
        if budget <= 0 or time.time() > t_stop or not ops2 or not gen_pubsub.valid(ops2):
            return False
        budget -= 1
        res = run_seq(d, [["CASE " + cid] + ops2 + ["END"]], tag="shrink", harness=harness, timeout=120)
        return failing(res, cid)

    changed = True
    while changed and budget > 0:
        changed = False
        i = len(ops) - 1
        while i >= 0:
            cand = ops[:i] + ops[i + 1:]
            if fails(cand):
                ops = cand
                changed = True
            i -= 1
    # shorten payloads and multi-channel subscribes
    for i, l in enumerate(list(ops)):
        f = l.split()
        cands = []
        if f[0] == "P" and len(f[3]) > 2:
            cands.append(" ".join(f[:3] + ["6d"]))
        if f[0] == "S" and len(f) > 3:
            cands += [" ".join(f[:3]), " ".join(f[:2] + f[3:])]
        for c in cands:
            if fails(ops[:i] + [c] + ops[i + 1:]):
                ops = ops[:i] + [c] + ops[i + 1:]
                break
    return ["CASE " + cid] + ops + ["END"]


def describe_ops(case):
    out = []
    for l in case[1:-1]:
        f = l.split()
        def s(h):
            return repr(bytes.fromhex(h) if h != "-" else b"")[1:]
        if f[0] == "S":
            out.append("conn %s: SUBSCRIBE %s" % (f[1], " ".join(s(h) for h in f[2:])))
        elif f[0] == "U":
            out.append("conn %s: UnSubscribe(%s) [API]" % (f[1], s(f[2])))
        elif f[0] == "P":
            out.append("conn %s: PUBLISH %s %s" % (f[1], s(f[2]), s(f[3]) if len(f[3]) < 200 else "<%d bytes>" % (len(f[3]) // 2)))
        elif f[0] == "D":
            out.append("conn %s: client closes the connection" % f[1])
        elif f[0] == "K":
            out.append("conn %s: connection dies (writes to it fail from now on; the server has not noticed)" % f[1])
    return out


# ----------------------------------------------------------------------------- (V) concurrent

PUSH = re.compile(r"^A\[b:6d657373616765,b:([0-9a-f-]+),b:([0-9a-f-]+)\]$")
CONF = re.compile(r"^A\[b:737562736372696265,b:([0-9a-f-]+),i:(-?\d+)\]$")
INF = 1 << 62


def run_conc(d, args, tag, harness=H, timeout=300):
    """args = (seed, pubs, subs, msgs, chans, stall, watchdog). Returns (findings, stats)."""
    out = d / (tag + ".conc")
    if out.exists():
        out.unlink()
    rc, log = lib.sh("%s conc %s %s" % (lib.BUILD / harness, " ".join(str(a) for a in args), out),
                     cwd=d, timeout=timeout)
    findings = []
    txt = out.read_text() if out.exists() else ""
    if rc != 0:
        kind = "watchdog" if rc == 4 else ("race" if "DATA RACE" in log else ("timeout" if rc == 124 else "crash"))
        findings.append(dict(kind=kind, rc=rc, detail=tail_of_go_failure(log)))
    chans, pubs, conns = {}, [], {}
    done = False
    for l in txt.splitlines():
        f = l.split(" ")
        if f[0] == "CHAN":
            chans[f[2]] = int(f[1])
        elif f[0] == "PUB":
            pubs.append(dict(k=int(f[1]), seq=int(f[2]), ci=int(f[3]), t1=int(f[4]), t2=int(f[5]), n=int(f[6]), payload=f[7]))
        elif f[0] == "CONN":
            conns[int(f[1])] = dict(kind=f[2], ev=[], stream=None, end=None)
        elif f[0] == "EV":
            conns[int(f[1])]["ev"].append(f[2:])
        elif f[0] == "STREAM":
            conns[int(f[1])]["stream"] = f[2]
        elif f[0] == "FAIL":
            findings.append(dict(kind="harness-fail", detail=" ".join(f[1:])))
        elif f[0] == "DONE":
            done = True
    if not done and rc == 0:
        findings.append(dict(kind="incomplete", detail="no DONE line"))
    # decode every stream with the extracted decoder
    dec_in, dec_out = d / (tag + ".decin"), d / (tag + ".decout")
    dec_in.write_text("".join("%d %s\n" % (i, c["stream"]) for i, c in sorted(conns.items()) if c["stream"] is not None))
    rc2, log2 = lib.sh("%s decode %s %s" % (lib.BUILD / RUNNER, dec_in, dec_out), cwd=d, timeout=timeout)
    if rc2 != 0:
        raise RuntimeError("pubsubrun decode failed: " + log2[-1500:])
    decoded = {}
    for l in dec_out.read_text().splitlines():
        f = l.split("\t")
        decoded[int(f[0])] = ([] if f[1] == "-" else f[1].split(" "), f[2])
    published = {(p["k"], p["seq"]): p for p in pubs}
    nmsgs = 0
    definite, possible = {}, {}   # ci -> list of (conn, a, b)
    for cid, c in sorted(conns.items()):
        evs = c["ev"]
        end = [e for e in evs if e[0] == "END"]
        endkind = end[0][1] if end else "abrupt"
        t_end = int(end[0][2]) if end else 0
        t_closed = int(end[0][3]) if end else INF
        # intervals
        open_at = {}
        for e in evs:
            if e[0] == "SUB":
                ci, ts, ta = int(e[1]), int(e[2]), int(e[3])
                open_at.setdefault(ci, (ts, ta))
            elif e[0] == "SUBM":
                for ci in [int(x) for x in e[1].split(",")]:
                    open_at.setdefault(ci, (int(e[2]), int(e[3])))
            elif e[0] == "UNSUB":
                ci = int(e[1])
                if ci in open_at:
                    ts, ta = open_at.pop(ci)
                    definite.setdefault(ci, []).append((cid, ta, int(e[2])))
                    possible.setdefault(ci, []).append((cid, ts, int(e[3])))
        for ci, (ts, ta) in open_at.items():
            if endkind == "graceful":
                definite.setdefault(ci, []).append((cid, ta, t_end))
            possible.setdefault(ci, []).append((cid, ts, INF if endkind == "stalled" else t_closed))
        if c["kind"] == "stalled" or cid not in decoded:
            continue
        vals, left = decoded[cid]
        cmds = []
        pend = []
        for e in evs:
            if e[0] == "SUB":
                cmds.append(("SUB", int(e[1])))
            elif e[0] == "SUBM":
                cmds.append(("SUBM", [int(x) for x in e[1].split(",")]))
            elif e[0] == "UNSUB":
                pend.append(int(e[1]))
            elif e[0] == "BARRIER":
                cmds.append(("BARRIER", pend))
                pend = []
        active, j, last, got = set(), 0, {}, set()
        for v in vals:
            m = PUSH.match(v)
            if m:
                nmsgs += 1
                ci = chans.get(m.group(1))
                legal = ci is not None and (ci in active or (j < len(cmds) and (cmds[j] == ("SUB", ci) or (cmds[j][0] == "SUBM" and ci in cmds[j][1]))))
                if not legal:
                    findings.append(dict(kind="delivered-to-non-subscriber", conn=cid, value=v,
                                         detail="push for a channel this connection is not subscribed to at that point of its stream (never subscribed, or after the unsubscribe was acknowledged)"))
                    continue
                pl = bytes.fromhex(m.group(2)) if m.group(2) != "-" else b""
                mm = re.match(rb"^(\d+):(\d+):", pl)
                p = published.get((int(mm.group(1)), int(mm.group(2)))) if mm else None
                if p is None or p["ci"] != ci or p["payload"] != m.group(2):
                    findings.append(dict(kind="not-intact", conn=cid, value=v, detail="payload/channel differs from what was published"))
                    continue
                key = (ci, p["k"])
                if key in last and last[key] >= p["seq"]:
                    findings.append(dict(kind="duplicate-or-out-of-order", conn=cid, value=v,
                                         detail="publisher %d on channel %d: message %d after %d" % (p["k"], ci, p["seq"], last[key])))
                last[key] = p["seq"]
                got.add((p["k"], p["seq"]))
            else:
                if j >= len(cmds):
                    findings.append(dict(kind="unexpected-reply", conn=cid, value=v))
                    continue
                cmd = cmds[j]
                if cmd[0] == "SUB":
                    m2 = CONF.match(v)
                    if not m2 or chans.get(m2.group(1)) != cmd[1]:
                        findings.append(dict(kind="bad-confirmation", conn=cid, value=v))
                    active.add(cmd[1])
                elif cmd[0] == "SUBM":
                    # one confirmation per occurrence (one flat array, or Redis' one array per channel is not
                    # expected here: the command had one reply), in the order of the command
                    got_ch = [chans.get(h) for h in re.findall(r"b:737562736372696265,b:([0-9a-f-]+),i:-?\d+", v)]
                    if not v.startswith("A[") or got_ch != cmd[1]:
                        findings.append(dict(kind="bad-confirmation", conn=cid, value=v, detail="expected one confirmation per named channel %s" % cmd[1]))
                    active.update(cmd[1])
                else:
                    if not v.startswith("e:"):
                        findings.append(dict(kind="bad-barrier-reply", conn=cid, value=v))
                    for ci in cmd[1]:
                        active.discard(ci)
                j += 1
        if endkind == "graceful" and (left != "-" or j != len(cmds)):
            findings.append(dict(kind="stream-incomplete", conn=cid, detail="leftover=%s replies=%d/%d" % (left[:60], j, len(cmds))))
        c["got"] = got
    # nothing missing; count inside the linearizability window
    for p in pubs:
        if p["n"] < 0:
            continue
        lo = set()
        for (cid, a, b) in definite.get(p["ci"], []):
            if a < p["t1"] and p["t2"] < b:
                lo.add(cid)
                if (p["k"], p["seq"]) not in conns[cid].get("got", set()):
                    findings.append(dict(kind="message-missing", conn=cid,
                                         detail="publisher %d message %d on channel %d was published while the connection was subscribed, but never arrived" % (p["k"], p["seq"], p["ci"])))
        hi = {cid for (cid, a, b) in possible.get(p["ci"], []) if a < p["t2"] and p["t1"] < b}
        if not (len(lo) <= p["n"] <= len(hi)):
            findings.append(dict(kind="publish-count", detail="PUBLISH by %d #%d on channel %d replied %d; subscribed throughout: %d, possibly subscribed: %d" % (p["k"], p["seq"], p["ci"], p["n"], len(lo), len(hi))))
    stats = dict(publishes=len(pubs), connections=len(conns), pushes_checked=nmsgs,
                 abrupt=sum(1 for c in conns.values() if any(e[0] == "END" and e[1] == "abrupt" for e in c["ev"])),
                 unsubscribes=sum(1 for c in conns.values() for e in c["ev"] if e[0] == "UNSUB"),
                 dropped_by_write_deadline=sum(1 for c in conns.values() for e in c["ev"] if e[0] == "DROPPED"))
    return findings, stats


# ----------------------------------------------------------------------------- stalled subscriber

STALL_ARGS = (6, 500, 3)   # healthy subscribers, write deadline of Send in ms (hook H5), rounds


RETIRE_ARGS = (300, 8)     # write deadline of Send in ms (hook H5), rounds
DLRESET_ARGS = (300, 6)    # write deadline of Send in ms (hook H5), rounds


def run_stall_once(d, args, tag, sub="stall", harness=None):
    """One run of `harness_pubsub stall`.  Returns (status, info): status OK | SUSPECT | SLOW.
    The verdict per round is the model's (pubsubrun seq): both PUBLISH replies = k, every healthy
    subscriber received m1 and m2.  A round that fails is SUSPECT unless every failed write to a
    healthy subscriber is explained by time having passed: the server had allowed (about) the whole
    deadline for it (remaining >= D/2) and at least D/2 elapsed between setting the deadline and the
    failure.  A write that fails at once, or with a deadline that had expired when it was set, is the
    server's fault whatever the load of the machine."""
    dms, rounds = args[-2], args[-1]
    trace, diag, ver = d / (tag + ".trace"), d / (tag + ".diag"), d / (tag + ".verdict")
    for f in (trace, diag, ver):
        if f.exists():
            f.unlink()
    rc, log = lib.sh("%s %s %s %s %s" % (lib.BUILD / (harness or H), sub, " ".join(str(a) for a in args), trace, diag), cwd=d, timeout=120 + rounds * 30)
    if rc != 0 or not trace.exists():
        return "SUSPECT", dict(round="?", verdict="CRASH", detail="harness rc=%s: %s" % (rc, tail_of_go_failure(log)), program=[], writes=[])
    rc2, log2 = lib.sh("%s seq %s %s" % (lib.BUILD / RUNNER, trace, ver), cwd=d, timeout=120)
    if rc2 != 0 or not ver.exists():
        raise RuntimeError("pubsubrun failed: rc=%s %s" % (rc2, log2[-1500:]))
    progs, cur, cid = {}, [], None
    for l in trace.read_text().splitlines():
        if l.startswith("CASE "):
            cid, cur = l.split()[1], []
        elif l.startswith("OP "):
            cur.append(l[3:])
        elif l == "END":
            progs[cid] = cur
    writes = {}
    for l in diag.read_text().splitlines():
        f = l.split()
        if f and f[0] == "W":
            writes.setdefault(f[1], []).append(dict(conn=int(f[2]), remaining_ms=float(f[3]), gap_ms=float(f[4]), dur_ms=float(f[5]), err=f[6]))
    slow = suspect = None
    for l in ver.read_text().splitlines():
        f = l.split(" ", 2)
        if len(f) < 2 or f[1] == "OK":
            continue
        failed = [w for w in writes.get(f[0], []) if w["conn"] != 1 and w["err"] != "-"]
        unexplained = [w for w in failed if not (w["remaining_ms"] >= dms / 2 and w["gap_ms"] + w["dur_ms"] >= dms / 2)]
        info = dict(round=f[0], verdict=f[1], detail=(f[2] if len(f) > 2 else "")[:3000], program=progs.get(f[0], []),
                    writes=(unexplained or failed)[:8], deadline_ms=dms)
        if unexplained or not failed:
            if suspect is None or len(info["program"]) < len(suspect["program"]):
                suspect = info      # report the failing round with the shortest program
            continue
        slow = info
    if suspect:
        return "SUSPECT", suspect
    return ("SLOW", slow) if slow else ("OK", dict(rounds=len(progs)))


def run_stall(d, args, sub="stall", harness=None):
    """SUSPECT must be seen twice to be reported; SLOW (machine too loaded to tell) is retried.
    sub="retire": the SUBSCRIBE-during-a-pruning-PUBLISH scenario (args = deadline ms, rounds), same
    trace/diag format and the same judgement."""
    suspects, last = 0, None
    for attempt in range(4):
        st, info = run_stall_once(d, args, "%s%d" % (sub, attempt), sub=sub, harness=harness)
        if st == "OK" and suspects == 0:
            return "OK", dict(attempts=attempt + 1, **info)
        if st == "SUSPECT":
            suspects += 1
            last = info
            if suspects >= 2:
                return "VIOLATION", last
    if suspects:
        return "OK", dict(attempts=4, note="a failing round was seen once and did not repeat", seen=last)
    return "OK", dict(attempts=4, note="inconclusive: writes to healthy subscribers took longer than half the deadline on this machine")


# ----------------------------------------------------------------------------- the check

def account(seq_stats, c, verdict):
    replies = int(verdict[1] or 0)
    seq_stats["cases"] += 1
    seq_stats["ops"] += len(c) - 2
    seq_stats["replies"] += replies
    n_conf = sum(len(l.split()) - 2 for l in c[1:-1] if l[0] == "S")
    n_pub = sum(1 for l in c[1:-1] if l[0] == "P")
    pushes = replies - n_conf - n_pub
    seq_stats["pushes"] += pushes
    if pushes > 0:
        seq_stats["nontrivial"] += 1   # at least one message push was delivered and compared


def fallback_search(ctx, d, build_log):
    """harness_pubsub does not compile against the working tree.  Run the sequential programs that
    need no internal API through the command-level build; report the first failing one, shrunk."""
    cases = gen_pubsub.gen_programs(ctx.seed, 400 if ctx.tier == "quick" else 4000, api=False)
    nfixed = len(gen_pubsub.fixed_cases(api=False))
    batches = [cases[:nfixed]] + [cases[i:i + 100] for i in range(nfixed, len(cases), 100)]
    nops = 0
    for bi, batch in enumerate(batches):
        res = run_seq(d, batch, tag="fb%d" % bi, harness=HC, timeout=600)
        for c in batch:
            cid = c[0].split()[1]
            nops += len(c) - 2
            if failing(res, cid):
                small = shrink(d, c, harness=HC)
                res2 = run_seq(d, [small], tag="fbfinal", harness=HC, timeout=120)
                v = res2.get(small[0].split()[1], ("MISSING", ""))
                if v[0] == "OK":
                    small, v = c, res.get(cid, ("MISSING", ""))
                lib.violation(PID, dict(kind="impl-vs-model", harness=HC, theorem="C19_delivery_exact / C19_publish_step / C19_publish_count / C19_subscribe_command_duplicates",
                                        program=small[1:-1], readable=describe_ops(small), verdict=v[0], detail=v[1][:4000],
                                        internal_api_build_error=build_log[-1500:],
                                        note="harness_pubsub (which also uses ChanMap.Subscribe/UnSubscribe and hook H5 directly) no longer compiles against the working tree, so the lock obligation and the API-level scenarios could not be evaluated; this program was found with the command-level build harness_pubsub_cmd (real TCP connections into server.Manager.Handle, nothing else) and compared with the extracted model as usual"))
                ctx.violations += 1
                return dict(evaluations=nops, readable=" | ".join(describe_ops(small)))
    st, info = run_stall(d, (ctx.seed, 16), sub="ff", harness=HC)
    if st != "OK":
        ff_violation(ctx, info, (ctx.seed, 16), dict(internal_api_build_error=build_log[-1500:]), harness=HC)
        return dict(evaluations=nops, readable=" | ".join(describe_ops(["CASE s"] + info.get("program", []) + ["END"])))
    return None


def ff_violation(ctx, info, fargs, extra, harness=H):
    lib.violation(PID, dict(kind="ff", harness=harness, theorem="C19_delivery_exact / C19_publish_step: a Publish operation of the model is a PUBLISH request the server received completely — whether the publisher ever reads the reply, or is still there, does not enter",
                            args=list(fargs), program=info.get("program"),
                            readable=describe_ops(["CASE s"] + info.get("program", []) + ["END"]),
                            verdict=info.get("verdict"), detail=info.get("detail"), **extra,
                            note="connection 1 wrote all its PUBLISH frames (k = 1, 2, 8, 32 by round; in the later rounds with an unrelated SET in between) in ONE write and went away at once without reading a reply: over net.Pipe by Close (the write had returned: the server had read every byte), over TCP by CloseWrite. The trace was taken after the publisher's Manager.Handle had returned. Connections 2 and 3 are subscribed and drained by reader goroutines: each must have every message, in order; connection 4 (other channel) nothing."))
    ctx.violations += 1


def lock_obligation(d):
    out = d / "lock.json"
    rc, log = lib.sh("%s lockcheck %s %s" % (lib.BUILD / H, lib.REPO, out), cwd=d, timeout=120)
    if rc != 0 or not out.exists():
        return None, "lockcheck failed: " + log[-1500:]
    facts = json.loads(out.read_text())
    bad = [a for k in ("accesses", "writes", "table_mutations", "foreign_deadlines", "conn_write_locks") for a in facts.get(k) or [] if not a["guarded"]]
    if not facts["all_guarded"] and not bad:
        bad = [dict(what="shape", why="Send/Subscribe/UnSubscribe or their table accesses not found: the code no longer has the shape the model describes")]
    return facts, bad


def replay(ctx, d, harness=H):
    r = json.load(open(ctx.replay))
    if r.get("kind") == "conc" and r.get("args"):
        findings, stats = run_conc(d, r["args"], "replay", harness=H if not r.get("race") else HR)
        print("concurrent scenario", r["args"], "->", "%d findings" % len(findings), stats)
        for f in findings[:5]:
            print("  ", f)
        return 1 if findings else 0
    if r.get("kind") in ("stall", "retire", "dlreset", "ff"):
        st, info = run_stall(d, tuple(r["args"]), sub=r["kind"], harness=harness)
        print("%s scenario %s =" % (r["kind"], "(healthy subscribers, deadline ms, rounds)" if r["kind"] == "stall" else "(seed, rounds)" if r["kind"] == "ff" else "(deadline ms, rounds)"), r["args"], "->", st)
        if st != "OK":
            print("   round", info.get("round"), info.get("verdict"), info.get("detail", "")[:1500])
            for w in info.get("writes", []):
                print("   failed write to a healthy subscriber:", w)
        return 0 if st == "OK" else 1
    if not r.get("program"):
        print("replay has no input (a proof / obligation was broken):", r.get("what", "")[:2000])
        facts, bad = lock_obligation(d)
        print("lock obligation now:", "holds" if bad == [] else bad)
        return 1 if bad else 0
    case = ["CASE r"] + r["program"] + ["END"]
    res = run_seq(d, [case], tag="replay", harness=harness)
    v = res.get("r", ("MISSING", ""))
    print("program:")
    for l in describe_ops(case):
        print("   ", l)
    print("implementation vs model (= specification by C19_delivery_exact / C19_publish_step):", v[0])
    if v[0] != "OK":
        print("  ", v[1][:3000])
    return 0 if v[0] == "OK" else 1


def run(ctx):
    thorough = ctx.tier == "thorough"
    cov, broken = lib.proof_gate(ctx, extra_tb=[
        "ml/pubsubutil.ml + ml/pubsubrun.ml (hex parsing, int<->N, printing): trusted glue; harness_pubsub/*.go (drives real TCP connections into server.Manager.Handle, RESP value boundaries only to know when a reply arrived); checks/c19.py (the analysis of the concurrent run: order, duplicates, windows)",
        "harness_pubsub lockcheck (go/ast, pattern based, conservative): trusted to report where conns/numSubs are accessed and which locks enclose them",
        "modelled, not verified: net.Conn.Write as an atomic append to what the client reads (or a failure for a closed connection); Go map iteration order (irrelevant: one queue per connection); sync.RWMutex exclusion; uuid freshness",
        "partial: how and when the kernel reports a failed TCP write, goroutine scheduling and the Go memory model are not modelled; the (V) run samples schedules, it does not enumerate them",
    ])
    ok1, log1 = lib.ensure_runner(RUNNER, "Extract/ExtractPubSub.v", ("pubsubutil.ml", "pubsubrun.ml"), ("pubsubmodel",))
    ok2, log2 = lib.ensure_harness(H, srcdir="harness_pubsub")
    ok3, log3 = (True, "")
    if thorough:
        ok3, log3 = lib.ensure_harness(HR, srcdir="harness_pubsub", race=True)
    built = ok1 and ok2 and ok3
    if not built:
        broken = broken or ("build failed (does the repository still compile with -tags verif?): " +
                            (log1 if not ok1 else log2 if not ok2 else log3)[-2500:])
    d = lib.scratch("c19-")
    if ctx.replay:
        r0 = json.load(open(ctx.replay))
        if ok1 and (not ok2 or r0.get("harness") == HC) and r0.get("program") and not any(l.startswith("U ") for l in r0["program"]):
            okc, logc = lib.ensure_harness(HC, srcdir="harness_pubsub_cmd")
            if okc:
                return replay(ctx, d, harness=HC)
        if not built:
            print(broken)
            return 1
        return replay(ctx, d)
    if ok1 and not ok2:
        # the internal API of memdb's channel table changed: search for a failing input at the
        # command level (server.Manager.Handle over TCP only) before giving up
        okc, logc = lib.ensure_harness(HC, srcdir="harness_pubsub_cmd")
        if okc:
            found = fallback_search(ctx, d, log2)
            if found:
                cov["discharged"] = 0
                lib.write_evidence(PID, ctx.tier, ctx.seed, dict(cov, evaluations=found["evaluations"], distinct_nontrivial=0,
                                                                 rule="command-level fallback search (harness_pubsub did not build)", samples=[found["readable"]]),
                                   ["command-level fallback"], ctx.wall(), 1)
                return 1
        else:
            broken = (broken or "") + " | the command-level harness does not build either: " + logc[-1500:]

    rc = 0
    nobl = 5
    facts, bad = (None, None)
    seq_stats = dict(cases=0, ops=0, replies=0, pushes=0, nontrivial=0)
    conc_stats = []
    stall_info = {}
    retire_info = {}
    ff_info = {}
    dlreset_info = {}
    samples = []
    if built:
        # ---- (T) lock obligation
        facts, bad = lock_obligation(d)
        lock_ok = facts is not None and bad == []
        extra = {} if lock_ok else dict(lock_obligation_broken=bad if isinstance(bad, list) else str(bad))
        # ---- (D) sequential differential run
        ncases = 2000 if not thorough else 30000
        cases = gen_pubsub.gen_programs(ctx.seed, ncases)
        harnesses = [H] + ([HR] if thorough else [])
        first_bad = None
        nfixed = len(gen_pubsub.fixed_cases())
        for hn in harnesses:
            todo = cases if hn == H else cases[: 3000]
            # the fixed cases first, then batches: stop at the first batch with a failure
            batches = [todo[:nfixed]] + [todo[i:i + 200] for i in range(nfixed, len(todo), 200)]
            for bi, batch in enumerate(batches):
                res = run_seq(d, batch, tag="main_%s_%d" % (hn, bi), harness=hn, timeout=900)
                for c in batch:
                    cid = c[0].split()[1]
                    if failing(res, cid):
                        if first_bad is None:
                            first_bad = (hn, c, res.get(cid, ("MISSING", "")))
                        break
                    if hn == H:
                        account(seq_stats, c, res[cid])
                if first_bad:
                    break
            if first_bad:
                break
        for c in cases[10:13]:
            samples.append(" | ".join(describe_ops(c))[:400])
        if first_bad:
            hn, c, v = first_bad
            small = shrink(d, c, harness=hn)
            res = run_seq(d, [small], tag="final", harness=hn, timeout=120)
            v2 = res.get(small[0].split()[1], v)
            if v2[0] == "OK":
                small, v2 = c, v
            lib.violation(PID, dict(kind="impl-vs-model", theorem="C19_delivery_exact / C19_publish_step / C19_publish_count",
                                    program=small[1:-1], readable=describe_ops(small), verdict=v2[0], detail=v2[1][:4000],
                                    race_build=(hn == HR), **extra,
                                    note="every byte each connection received, decoded by the extracted decoder, must equal the model's output queue (= the specification by the theorems); 'conn=<c> model=… observed=…' names the first connection that differs"))
            ctx.violations += 1
            rc = 1
        # ---- fire-and-forget publishers: every PUBLISH the server received completely is delivered
        if rc == 0:
            fargs = (ctx.seed, 16 if not thorough else 96)
            st, ff_info = run_stall(d, fargs, sub="ff")
            ff_info["args"] = list(fargs)
            if st != "OK":
                ff_violation(ctx, ff_info, fargs, extra)
                rc = 1
        # ---- one subscriber that never reads must cost the others nothing
        if rc == 0:
            sargs = STALL_ARGS if not thorough else (7, 700, 8)
            st, stall_info = run_stall(d, sargs)
            stall_info["args"] = list(sargs)
            if st != "OK":
                lib.violation(PID, dict(kind="stall", theorem="C19_delivery_exact / C19_publish_step / C19_publish_count (model: the stalled connection is one whose writes fail, the healthy ones are open)",
                                        args=list(sargs), program=stall_info.get("program"),
                                        readable=describe_ops(["CASE s"] + stall_info.get("program", []) + ["END"]),
                                        verdict=stall_info.get("verdict"), detail=stall_info.get("detail"),
                                        failed_writes_to_healthy_subscribers=stall_info.get("writes"), **extra,
                                        note="connection 1 subscribed and never reads; connections 2.. read all the time; Send's write deadline = %d ms (hook H5). After PUBLISH every healthy subscriber must have the message and still be subscribed (second PUBLISH reaches them, both replies = number of healthy subscribers). failed_writes: remaining_ms = time the server allowed for the write when it set the deadline, gap_ms/dur_ms = time that actually passed: a write failing with (almost) no time allowed or passed is not a slow machine." % sargs[1]))
                ctx.violations += 1
                rc = 1
        # ---- a SUBSCRIBE that arrives while a PUBLISH is dropping the channel's last subscriber
        if rc == 0:
            rargs = RETIRE_ARGS if not thorough else (400, 36)
            st, retire_info = run_stall(d, rargs, sub="retire")
            retire_info["args"] = list(rargs)
            if st != "OK":
                lib.violation(PID, dict(kind="retire", theorem="C19_atomic_ops_linearizable + C19_delivery_exact / C19_publish_count on either order of the two overlapping commands",
                                        args=list(rargs), program=retire_info.get("program"),
                                        readable=describe_ops(["CASE s"] + retire_info.get("program", []) + ["END"]),
                                        verdict=retire_info.get("verdict"), detail=retire_info.get("detail"),
                                        failed_writes_to_healthy_subscribers=retire_info.get("writes"), **extra,
                                        note="connection 1 is the only subscriber and never reads; connection 3's first PUBLISH blocks in Send until the write deadline (%d ms, hook H5) and drops it; connection 2's SUBSCRIBE is sent during that window (a different fraction of the deadline each round). The program lists the two overlapping commands in the order shown by the first PUBLISH reply (both orders are legal). Afterwards PUBLISH hello must reach connection 2 and reply 1: a connection that has its confirmation but is not reached is a lost subscription." % rargs[0]))
                ctx.violations += 1
                rc = 1
        # ---- nobody takes Send's write deadline away (the subscriber's own handler, another Send)
        if rc == 0:
            dargs = DLRESET_ARGS if not thorough else (400, 24)
            st, dlreset_info = run_stall(d, dargs, sub="dlreset")
            dlreset_info["args"] = list(dargs)
            if st != "OK":
                lib.violation(PID, dict(kind="dlreset", theorem="'never block publishers indefinitely': in the model a write either succeeds or fails (C19_publish_prunes_closed: the subscriber that does not take the message is pruned, the PUBLISH replies); the code must turn a blocked write into a failed one after the write deadline",
                                        args=list(dargs), program=dlreset_info.get("program"),
                                        readable=describe_ops(["CASE s"] + dlreset_info.get("program", []) + ["END"]),
                                        verdict=dlreset_info.get("verdict"), detail=dlreset_info.get("detail"), **extra,
                                        note="write deadline of Send = %d ms (hook H5). Even rounds: connection 1 (net.Pipe) sends SUBSCRIBE and reads its confirmation only after connection 3's PUBLISH has started writing to it, then never reads again. Odd rounds: connection 1 is subscribed to two channels, PUBLISH Y is writing to it, PUBLISH X queues behind, connection 1 reads the first message only. Every PUBLISH must reply within the deadline + 6 s, a later SUBSCRIBE and PUBLISH must get through. An ERR verdict names the command that never came back." % dargs[0]))
                ctx.violations += 1
                rc = 1
        # ---- (V) concurrent runs
        if rc == 0:
            runs = [(ctx.seed, 4, 5, 1500, 3, 1, 60), (ctx.seed + 1, 6, 6, 1200, 2, 0, 60), (ctx.seed + 2, 3, 8, 2500, 1, 1, 60)]
            if thorough:
                runs = [(ctx.seed + i, 4 + i % 4, 4 + i % 5, 4000, 1 + i % 4, i % 2, 240) for i in range(24)]
            for i, a in enumerate(runs):
                hn = HR if thorough and i % 2 == 0 else H
                findings, st = run_conc(d, a, "conc%d" % i, harness=hn, timeout=a[6] + 120)
                st["args"] = list(a)
                st["race_build"] = hn == HR
                conc_stats.append(st)
                if findings:
                    lib.violation(PID, dict(kind="conc", args=list(a), race=(hn == HR), findings=findings[:8], n_findings=len(findings), stats=st, **extra,
                                            note="concurrent scenario: harness_pubsub conc <seed> <publishers> <subscribers> <messages per publisher> <channels> <stalled subscriber> <watchdog s>"))
                    ctx.violations += 1
                    rc = 1
                    break
        # ---- a broken lock obligation with no failing run found
        if rc == 0 and not lock_ok:
            # hunt: heavier churn on one channel
            hunt = (ctx.seed + 77, 8, 8, 3000, 1, 0, 120)
            findings, st = run_conc(d, hunt, "hunt", harness=HR if thorough else H, timeout=300)
            if findings:
                lib.violation(PID, dict(kind="conc", args=list(hunt), race=thorough, findings=findings[:8], stats=st,
                                        obligation=bad, note="found while hunting for a failing schedule after the lock obligation broke"))
            else:
                lib.violation(PID, dict(kind="tie-broken", what="lock obligation (hypothesis of C19_atomic_ops_linearizable) does not hold on the source",
                                        unguarded=bad if isinstance(bad, list) else str(bad)), found_input=False)
            ctx.violations += 1
            rc = 1
    if rc == 0 and broken:
        lib.violation(PID, dict(kind="tie-broken", what=broken), found_input=False)
        ctx.violations += 1
        rc = 1
    for kf in lib.known_findings(PID):
        if kf["kind"] == "open":
            print("KNOWN-FINDING: property=%s %s %s" % (PID, kf["id"], kf["text"]))
    lock_ok = facts is not None and bad == []
    cov["obligations"] = cov["obligations"] + nobl
    cov["discharged"] = cov["discharged"] + (nobl if lock_ok else 0) if cov["discharged"] else 0
    cov.update(dict(
        lock_obligation=dict(holds=lock_ok,
                             accesses=len(facts["accesses"]) if facts else 0,
                             writes_with_deadline=len(facts["writes"]) if facts else 0,
                             table_mutations=len(facts["table_mutations"]) if facts else 0,
                             foreign_deadline_calls=len(facts.get("foreign_deadlines") or []) if facts else 0,
                             conn_write_locks=len(facts.get("conn_write_locks") or []) if facts else 0,
                             functions=facts["functions"] if facts else [],
                             parts=["(A) conns/numSubs only under the channel lock", "(B) each of Send's writes has its own deadline computed from time.Now()", "(C) channel table mutated under the table lock", "(D) no SetWriteDeadline/SetDeadline on client connections outside ChanMap.Send (memdb, server, resp)", "(E) deadline + write + clear under the per-connection write lock"]),
        evaluations=seq_stats["ops"] + sum(s["publishes"] for s in conc_stats),
        distinct_nontrivial=seq_stats["nontrivial"],
        rule="sequential: 10 fixed programs (repeated SUBSCRIBE, client gone, dead connection, framing, retire/re-create a channel…) + seeded random programs of 3-28 operations (SUBSCRIBE of 1-3 channels, PUBLISH, API-level UnSubscribe, client close, server-side kill) over 2-5 connections and 1-3 channels with names/payloads containing CR LF NUL 0xff, RESP look-alikes, empty and long (to 70 kB) byte strings; a program counts as non-trivial when it subscribes, publishes and at least one message push was delivered and compared; evaluations = operations executed sequentially + PUBLISH commands of the concurrent runs",
        sequential=seq_stats, fire_and_forget_publishers=ff_info, stalled_subscriber=stall_info, subscribe_during_pruning_publish=retire_info, write_deadline_not_taken_away=dlreset_info, concurrent=conc_stats, samples=samples or ["(none)"],
        correspondence="bytes received on every connection (real TCP, server.Manager.Handle from the working tree) decoded by extracted decode_stream and compared by extracted observed_match with outq of the extracted model",
    ))
    lib.write_evidence(PID, ctx.tier, ctx.seed, cov,
                       ["Go net/TCP loopback delivers written bytes in order", "extraction + OCaml compiler",
                        "the server has no UNSUBSCRIBE command: Unsubscribe is exercised through ChanMap.UnSubscribe (the function a closing connection runs)"],
                       ctx.wall(), ctx.violations)
    return rc
