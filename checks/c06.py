"""C06 — expiring keys disappear at their deadline and not before.

Proof half: coq/Properties/C06.v (theorems about exec/run of coq/Mem, proofs in Mem/TtlProofs.v).
Tie: virtual-clock differential run (harness memx, mode view: Go faketime, exact millisecond
placement of every probe) of the real executors against the extracted model: every reply and a
keyspace dump after every probe.  Thorough tier adds the full matrix and a real-clock TCP sample."""
from . import gen_ttl, memlib, ttllib

PID = "C06"

# value types / probe families present in the Coq model; engineers adding a family extend
# gen_ttl.TYPES / gen_ttl.PROBES and these lists
MODEL_TYPES = ["string", "list", "hash", "zset", "set", "stream"]
MODEL_FAMILIES = ["string", "key", "list", "hash", "zset", "set", "stream"]


def make_cases(tier, seed):
    cases = gen_ttl.gen_timer(seed, MODEL_TYPES)
    cases += gen_ttl.gen_boundary(seed, tier)
    cases += gen_ttl.gen_crossdb(seed, tier, MODEL_TYPES)
    cases += gen_ttl.gen_matrix(seed, tier, MODEL_TYPES, MODEL_FAMILIES)
    cases += gen_ttl.gen_random(seed, 2000 if tier == "quick" else 60000, MODEL_TYPES)
    return cases


def post(ctx, d):
    if ctx.tier != "thorough":
        return None, dict(tcp_sample="thorough tier only")
    failing, cov = ttllib.tcp_sample(ctx, d, PID, gen_ttl.gen_tcp(ctx.seed, 40, MODEL_TYPES))
    if failing:
        from . import lib
        lib.violation(PID, failing)
        ctx.violations += 1
        return None, cov      # the violation line is already printed; run() turns it into exit 1
    return None, cov


def run(ctx):
    nways = {t: len(gen_ttl.attach_ways(t)) for t in MODEL_TYPES}
    rc = memlib.run_family(
        ctx, PID, make_cases, runner=ttllib.memx_runner("view"),
        rule="(a) matrix: value type x way of attaching/keeping/removing a deadline (EXPIRE x {none,NX,XX,GT,LT} x "
             "{no, earlier, later existing deadline}, EXPIRE 0/negative/twice, PERSIST, SETEX, SET EX/PX(1,999,1000,1001,1500,2000)/"
             "EXAT/KEEPTTL/plain/NX/XX GET, MSET, APPEND/INCR/RPUSH/LPOP/LMOVE-self/HSET/HINCRBY+HDEL/ZADD+ZREM/SADD+SREM/SMOVE/XADD, *STORE over a key with deadline, RENAME onto/away/self, DEL+recreate) x each "
             "candidate deadline d x probe instant {d-1s, d-1ms, d, d+1ms, d+1s} x probing command (all "
             "string/key/list/hash/zset/set/stream reads and writes incl. SUNION/SINTER/SDIFF(STORE), SMOVE, SPOP, XADD, XRANGE, MGET, DEL, EXISTS, RENAME, LMOVE, BLPOP, KEYS, HRANDFIELD, ZADD options; quick: own-family + key-command probes + 10 sampled foreign probes, one seeded clock phase; thorough: all probes, six phases), "
             "dump after attach, after the probe and after TTL/TYPE/EXISTS; (b) timer scenarios (re-created/extended/persisted/"
             "renamed keys vs the old timer, 3 s after the deadline); (c) seeded random TTL-heavy programs with sleeps around "
             "second boundaries; (c3) numeric boundaries: SET EX / PX / PX+GET / EXAT / PXAT, SETEX, PSETEX, GETEX, EXPIRE x {none,NX,XX,GT,LT} x {no, existing} "
             "deadline, PEXPIRE, EXPIREAT (commands the server does not have are errors on both sides) x values 0, 1, 999..2001, negative, 2^31+-1, "
             "2^32+-1, 2^53+-1, 9223372036(000)+-1, 9223372036854775+-1, 10^13, 2^62, MaxInt64-1/+0/+1, MinInt64-1/+0, MaxInt64-now-1/+0/+1/+2 "
             "(memx token @X), absolute now-1000..now+1000 (@T) -- then TTL, GET, EXISTS, dump, and again after 1.001 s and 2.002 s; "
             "(c2) cross-database slice: the same key name in databases 0, 1, 2 (one connection per database) with different "
             "value types and different / no deadlines, a way of attaching/removing a deadline in one database, TTL/read/TYPE/EXISTS of the key in "
             "all three around a candidate deadline and 3 s later, dumps of all databases (quick: 6 type pairs x 18 ways x 2 offsets; thorough: "
             "all type pairs x all ways x {no, 2, 5} victim deadline x 5 offsets); thorough: (d) real-clock TCP sample, TTL 1-2 s, either second accepted for a step that straddles a boundary",
        extra_tb=["virtual clock: Go runtime faketime (timers and sleeps exact); real goroutine latency of the expiry timer is only "
                  "exercised by the real-clock TCP sample (thorough)"],
        extra_cov=dict(value_types=MODEL_TYPES, attach_ways=nways, probes=len([p for p in gen_ttl.PROBES.values() if p[0] in MODEL_FAMILIES])),
        post=post)
    return 1 if ctx.violations else rc
