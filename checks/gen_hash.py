"""Program generator for the hash commands (C10). One PRNG, seeded by VERIF_SEED."""
import random

from .gen import Case, pick, randcase, KEYS, SLEEPS

FIELDS = [b"f", b"g", b"F", b"", b"n", b"fl", b"a b", b"x\r\ny", b"\x00\xff", b"field3", b"10", b"-0"]
# empty, numeric, -0, 007, +5, 2^63-1, 2^63, -2^63, -2^63-1, non-numeric, binary with CR/LF/NUL/0xff, floats
HVALS = [b"", b"v", b"0", b"1", b"10", b"-1", b"-0", b"007", b"+5", b"9223372036854775807", b"9223372036854775806",
         b"9223372036854775808", b"-9223372036854775808", b"-9223372036854775809", b"abc", b" 12", b"12 ",
         b"a\r\nb", b"\x00", b"\x00\x01\xfe\xff", b"\xff", b"3.5", b"0.25", b"-1.5", b"10.125", b"0.1", b"1e3", b"inf",
         b"nan", b"-inf", b"1.", b".5", b"1.50", b"99999999999999.5", b"999999999999999", b"1e308", b"x" * 40]
INCRS = [b"0", b"1", b"-1", b"5", b"-5", b"100", b"9223372036854775807", b"-9223372036854775808", b"9223372036854775806",
         b"+3", b"007", b"-0", b"abc", b"", b"1.5", b"99999999999999999999", b" 1", b"1\r\n"]
FINCRS = [b"0", b"1", b"-1", b"0.5", b"-0.5", b"0.25", b"2.75", b"10.125", b"-3.5", b"1.50", b"007.5", b"+1.5", b".5", b"5.",
          b"0.1", b"0.2", b"1e3", b"1E-2", b"-0", b"-0.0", b"nan", b"NaN", b"inf", b"-inf", b"+Inf", b"Infinity", b"-infinity",
          b"abc", b"", b"1.2.3", b"--1", b"1e", b"0x10", b"0x1p-2", b"1_0", b" 1", b"1 ", b"1\r\n2", b"1e308", b"1e400",
          b"999999999999999", b"99999999999999.5", b"123456789012345678", b"0.0000000000000001", b"1.7976931348623157e308"]


def counts(r, n):
    """HRANDFIELD counts around the current (approximate) number of fields n."""
    c = [0, 1, -1, n, -n, n + 3, -(n + 3), 2, -2, 1 << 40, -(1 << 40), -(1 << 63), (1 << 63) - 1,
         -(1 << 20) - 1, (1 << 20) + 7, -300]
    # (exactly -(1<<20) is accepted and yields a million-element reply: exercised by hand, see design.d/C10.md)
    return str(pick(r, c)).encode()


def hash_cmd(r, keys, nfields):
    """nfields: dict key -> rough upper bound of the number of fields (drives the HRANDFIELD counts)."""
    k = lambda: pick(r, keys)
    f = lambda: pick(r, FIELDS)
    v = lambda: pick(r, HVALS)
    c = r.randrange(100)
    if c < 16:
        key = k()
        n = r.choice([1, 1, 1, 2, 3, 4])
        a = [randcase(r, b"hset"), key]
        for _ in range(n):
            a += [f(), v()]
        nfields[key] = nfields.get(key, 0) + n
        if r.random() < 0.06:
            a.append(f())           # odd number of field/value arguments
        return a
    if c < 21:
        key = k()
        nfields[key] = nfields.get(key, 0) + 1
        return [randcase(r, b"hsetnx"), key, f(), v()]
    if c < 29:
        return [randcase(r, b"hget"), k(), f()]
    if c < 34:
        return [b"hmget", k()] + [f() for _ in range(r.randrange(1, 5))]
    if c < 39:
        return [pick(r, [b"hgetall", b"HGETALL"]), k()]
    if c < 42:
        return [b"hkeys", k()]
    if c < 45:
        return [b"hvals", k()]
    if c < 49:
        return [b"hlen", k()]
    if c < 53:
        return [b"hexists", k(), f()]
    if c < 57:
        return [b"hstrlen", k(), f()]
    if c < 66:
        return [randcase(r, b"hdel"), k()] + [f() for _ in range(r.choice([1, 1, 2, 3, 6]))]
    if c < 73:
        key = k()
        nfields[key] = nfields.get(key, 0) + 1
        return [randcase(r, b"hincrby"), key, pick(r, [b"n", b"n", b"f", b"10", b""]) if r.random() < 0.6 else f(), pick(r, INCRS)]
    if c < 81:
        key = k()
        nfields[key] = nfields.get(key, 0) + 1
        return [randcase(r, b"hincrbyfloat"), key, pick(r, [b"fl", b"fl", b"n", b"f"]) if r.random() < 0.6 else f(), pick(r, FINCRS)]
    if c < 91:
        key = k()
        a = [randcase(r, b"hrandfield"), key]
        q = r.random()
        if q < 0.8:
            a.append(counts(r, min(nfields.get(key, 0), len(FIELDS))) if r.random() < 0.93 else pick(r, [b"x", b"", b"1.5", b"+2", b"007"]))
            if r.random() < 0.45:
                a.append(randcase(r, pick(r, [b"withvalues", b"withvalues", b"withvalues", b"bogus", b"with\r\nvalues"])))
        return a
    if c < 94:
        return [pick(r, [b"exists", b"type", b"ttl", b"del"]), k()]
    if c < 96:
        return [b"expire", k(), pick(r, [b"1", b"2", b"3", b"100"])]
    if c < 97:
        return [pick(r, [b"set", b"lpush", b"rename"]), k(), pick(r, [b"v", b"other"])]
    # malformed arity / stray arguments
    name = pick(r, [b"hset", b"hsetnx", b"hget", b"hmget", b"hgetall", b"hkeys", b"hvals", b"hlen", b"hexists", b"hstrlen",
                    b"hdel", b"hincrby", b"hincrbyfloat", b"hrandfield"])
    return [name] + [pick(r, FIELDS + HVALS[:12] + keys) for _ in range(r.randrange(0, 6))]


def prepop(r, c, keys, nfields):
    q = r.random()
    if q < 0.35:
        c.cmd([pick(r, [b"set", b"lpush"]), keys[0], pick(r, [b"v", b"10", b""])])     # a key of another type
    if q > 0.2:
        key = keys[-1]
        n = r.randrange(1, 6)
        a = [b"hset", key]
        for f in r.sample(FIELDS, n):
            a += [f, pick(r, HVALS)]
        nfields[key] = n
        c.cmd(a)
        if r.random() < 0.35:
            c.cmd([b"expire", key, pick(r, [b"1", b"2", b"3"])])                     # TTL interplay across the deadline


def gen_c10(seed, ncases, maxlen=30):
    r = random.Random(seed)
    cases = []
    for i in range(ncases):
        c = Case("c10_%d_%d" % (seed, i))
        keys = r.sample(KEYS, r.randrange(2, 5))
        nfields = {}
        prepop(r, c, keys, nfields)
        n = r.randrange(1, maxlen + 1)
        every = r.random() < 0.5
        for _ in range(n):
            c.cmd(hash_cmd(r, keys, nfields), sleep_ms=pick(r, SLEEPS) if r.random() < 0.18 else 0)
            if every:
                c.dump()
        c.dump()
        cases.append(c)
    return cases


def directed():
    """Small fixed programs for the behaviours the property names (always run first)."""
    out = []

    def case(name, cmds):
        c = Case("c10_dir_" + name)
        for x in cmds:
            if isinstance(x, tuple):
                c.cmd(x[0], sleep_ms=x[1])
            else:
                c.cmd(x)
            c.dump()
        out.append(c)

    case("emptyval", [[b"hset", b"h", b"f", b""], [b"hget", b"h", b"f"], [b"hmget", b"h", b"f", b"g"], [b"hstrlen", b"h", b"f"],
                      [b"hexists", b"h", b"f"], [b"hlen", b"h"], [b"hgetall", b"h"], [b"hincrby", b"h", b"f", b"1"],
                      [b"hincrbyfloat", b"h", b"f", b"1"], [b"hsetnx", b"h", b"f", b"x"], [b"hget", b"h", b"f"]])
    case("missing", [[b"hmget", b"nokey", b"a", b"b"], [b"hget", b"nokey", b"a"], [b"hgetall", b"nokey"], [b"hlen", b"nokey"],
                     [b"hrandfield", b"nokey"], [b"hrandfield", b"nokey", b"3"], [b"hrandfield", b"nokey", b"-3", b"withvalues"],
                     [b"hdel", b"nokey", b"a"], [b"exists", b"nokey"]])
    case("hsetcount", [[b"hset", b"h", b"a", b"1", b"b", b"2", b"a", b"3"], [b"hset", b"h", b"a", b"4", b"c", b"5"], [b"hgetall", b"h"],
                       [b"hsetnx", b"h", b"a", b"zz"], [b"hsetnx", b"h", b"d", b""], [b"hgetall", b"h"]])
    case("incr", [[b"hset", b"h", b"n", b"9223372036854775807", b"m", b"-9223372036854775808", b"z", b"abc"],
                  [b"hincrby", b"h", b"n", b"1"], [b"hincrby", b"h", b"m", b"-1"], [b"hincrby", b"h", b"z", b"1"],
                  [b"hincrby", b"h", b"n", b"-1"], [b"hincrby", b"h", b"new", b"-9223372036854775808"], [b"hincrby", b"h", b"new", b"-1"],
                  [b"hincrby", b"nokey", b"f", b"7"], [b"hgetall", b"h"], [b"hgetall", b"nokey"]])
    case("float", [[b"hincrbyfloat", b"h", b"x", b"10.5"], [b"hincrbyfloat", b"h", b"x", b"0.25"], [b"hincrbyfloat", b"h", b"x", b"-10.75"],
                   [b"hincrbyfloat", b"h", b"x", b"nan"], [b"hincrbyfloat", b"h", b"x", b"inf"], [b"hincrbyfloat", b"h", b"x", b"-Infinity"],
                   [b"hincrbyfloat", b"h", b"y", b"NaN"], [b"hset", b"h", b"big", b"1e308"], [b"hincrbyfloat", b"h", b"big", b"1e308"],
                   [b"hset", b"h", b"s", b"inf"], [b"hincrbyfloat", b"h", b"s", b"1"], [b"hgetall", b"h"],
                   [b"hincrbyfloat", b"nokey", b"f", b"nan"], [b"exists", b"nokey"]])
    case("rand", [[b"hset", b"h", b"a", b"1", b"b", b"", b"c", b"3"], [b"hrandfield", b"h"], [b"hrandfield", b"h", b"0"],
                  [b"hrandfield", b"h", b"2"], [b"hrandfield", b"h", b"3"], [b"hrandfield", b"h", b"6"], [b"hrandfield", b"h", b"-1"],
                  [b"hrandfield", b"h", b"-6"], [b"hrandfield", b"h", b"-6", b"WITHVALUES"], [b"hrandfield", b"h", b"6", b"withvalues"],
                  [b"hrandfield", b"h", b"1099511627776"], [b"hrandfield", b"h", b"-1099511627776"],
                  [b"hrandfield", b"h", b"-9223372036854775808"], [b"hrandfield", b"h", b"-9223372036854775808", b"withvalues"],
                  [b"hrandfield", b"h", b"9223372036854775807", b"withvalues"], [b"hrandfield", b"h", b"-1048577"],
                  [b"hrandfield", b"h", b"2", b"with\r\nvalues"], [b"hgetall", b"h"]])
    case("lastfield", [[b"hset", b"h", b"a", b"1"], [b"expire", b"h", b"100"], [b"hdel", b"h", b"a", b"a", b"zz"], [b"exists", b"h"],
                       [b"type", b"h"], [b"ttl", b"h"], [b"hset", b"h", b"b", b"2"], [b"ttl", b"h"], [b"hdel", b"h", b"zz"], [b"hlen", b"h"]])
    case("ttl", [[b"hset", b"h", b"a", b"1", b"b", b"2"], [b"expire", b"h", b"2"], ([b"hget", b"h", b"a"], 1500), ([b"hget", b"h", b"a"], 600),
                 [b"hlen", b"h"], [b"hdel", b"h", b"a"], [b"hexists", b"h", b"b"], [b"hsetnx", b"h", b"a", b"new"], [b"ttl", b"h"], [b"hgetall", b"h"]])
    case("ttl2", [[b"hset", b"h", b"a", b"1"], [b"expire", b"h", b"1"], ([b"hdel", b"h", b"a"], 1200), [b"hset", b"h", b"z", b"9"], [b"ttl", b"h"],
                  [b"expire", b"h", b"1"], ([b"hincrby", b"h", b"z", b"1"], 1100), [b"expire", b"h", b"1"],
                  ([b"hincrbyfloat", b"h", b"z", b"1.5"], 1100), [b"expire", b"h", b"1"], ([b"hrandfield", b"h", b"-2"], 1000),
                  [b"hset", b"h", b"q", b"1"], [b"expire", b"h", b"1"], ([b"hmget", b"h", b"q"], 1000), [b"hset", b"h", b"q", b"1"],
                  [b"expire", b"h", b"1"], ([b"hstrlen", b"h", b"q"], 1000), [b"hkeys", b"h"], [b"hvals", b"h"]])
    case("wrongtype", [[b"set", b"s", b"v"], [b"hset", b"s", b"f", b"v"], [b"hsetnx", b"s", b"f", b"v"], [b"hget", b"s", b"f"],
                       [b"hmget", b"s", b"f"], [b"hgetall", b"s"], [b"hkeys", b"s"], [b"hvals", b"s"], [b"hlen", b"s"], [b"hexists", b"s", b"f"],
                       [b"hstrlen", b"s", b"f"], [b"hdel", b"s", b"f"], [b"hincrby", b"s", b"f", b"1"], [b"hincrbyfloat", b"s", b"f", b"1"],
                       [b"hincrbyfloat", b"s", b"f", b"1e3"], [b"hincrbyfloat", b"s", b"f", b"1e"], [b"hrandfield", b"s"],
                       [b"hrandfield", b"s", b"2"], [b"get", b"s"], [b"hset", b"h", b"f", b"v"], [b"get", b"h"], [b"lpush", b"h", b"x"]])
    return out
