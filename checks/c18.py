"""C18 — stream IDs strictly increase; XRANGE returns what was added."""
from . import gen_stream, memlib

PID = "C18"

# A stream defect can make the implementation spin (XADD k ~ a b did at the pinned commit).  The
# shared driver allows 1500 s for the main run and 120 s per shrink candidate; a single case runs in
# milliseconds, so this check bounds both (only in its own process) to keep a hang a quick alarm.
_run_prog = memlib.run_prog


def _bounded_run_prog(d, progtext, tag="p", timeout=600):
    limit = {"main": 400, "replay": 60}.get(tag, 4)
    return _run_prog(d, progtext, tag=tag, timeout=min(timeout, limit))


memlib.run_prog = _bounded_run_prog


def make_cases(tier, seed):
    n = 10000 if tier == "quick" else 150000
    return gen_stream.gen_c18(seed, n)


def run(ctx):
    return memlib.run_family(
        ctx, PID, make_cases,
        rule="seeded random programs (1-40 commands + a final XRANGE - + of every key) of XADD / XRANGE over 1-3 keys on the "
             "virtual clock: same-millisecond bursts, clock not advancing, explicit ids at last and last+-1 in both components, "
             "0-0, 0-1, max-uint64 components, ms-only and ms-* ids, malformed ids; NOMKSTREAM on missing/existing keys, MAXLEN in "
             "{0,1,len-1,len,len+1} with =/~/none, MINID at and next to stored ids, LIMIT, option keywords in both letter cases "
             "and repeated, truncated option blocks; every XRANGE bound shape (-, +, full, ms-only, neighbours of stored ids, "
             "reversed, malformed) with COUNT in {0,1,len-1,len,len+1,-1,x}; fields with CR/LF/empty/binary bytes; keys of other "
             "types; EXPIRE/PERSIST/RENAME/DEL interplay; a malformed-arity stream")
