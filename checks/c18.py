"""C18 — stream IDs strictly increase; XRANGE returns what was added."""
from . import gen_stream, memlib

PID = "C18"

# A stream defect can make the implementation spin (XADD k ~ a b did at the pinned commit).  The
# shared driver allows 1500 s for the main run and 120 s per shrink candidate; a single case runs in
# milliseconds, so this check bounds both (only in its own process) to keep a hang a quick alarm.
_run_prog = memlib.run_prog


_main_limit = [150]


def _bounded_run_prog(d, progtext, tag="p", timeout=600):
    limit = {"main": _main_limit[0], "replay": 60}.get(tag, 4)
    return _run_prog(d, progtext, tag=tag, timeout=min(timeout, limit))


memlib.run_prog = _bounded_run_prog


def make_cases(tier, seed):
    n = 20000 if tier == "quick" else 200000
    return gen_stream.gen_c18(seed, n)


def _unhex(h):
    return b"" if h == "-" else bytes.fromhex(h)


def stream_stats(ctx, d):
    """Measured on the implementation's trace of the generated programs: what the XADD / XRANGE
    steps looked like (id forms, options, outcomes, stream sizes)."""
    import collections
    tr = d / "main.trace"
    if not tr.exists():
        return None, {}
    idform, outcome, opts, xr_sizes, bounds = (collections.Counter() for _ in range(5))
    maxlen_stream = 0
    for l in tr.read_text().splitlines():
        if l.startswith("D "):
            fs = l.split()
            if len(fs) > 5 and fs[4] == "X":
                maxlen_stream = max(maxlen_stream, int(fs[5]))
            continue
        if not l.startswith("S "):
            continue
        left, _, obs = l.partition("|")
        obs = obs.strip()
        args = [_unhex(h) for h in left.split()[4:]]
        if not args:
            continue
        name = args[0].lower()
        if name == b"xadd":
            kind = "id" if obs.startswith("$") and obs != "$nil" else {"$nil": "nil(NOMKSTREAM)", "-W": "WRONGTYPE"}.get(obs, "error" if obs.startswith("-") else obs[:6])
            outcome["xadd:" + kind] += 1
            low = [a.lower() for a in args[2:]]
            for o in (b"nomkstream", b"maxlen", b"minid", b"limit", b"~", b"="):
                if o in low:
                    opts[o.decode()] += 1
            for a in args[2:]:
                if a == b"*":
                    idform["*"] += 1
                    break
                if a.endswith(b"-*"):
                    idform["ms-*"] += 1
                    break
                if a[:1].isdigit():
                    continue
        elif name == b"xrange":
            if obs.startswith("*["):
                inner = obs[2:-1]
                n = sum(1 for p in memlib_split(inner))
                xr_sizes[min(n, 10)] += 1
            else:
                xr_sizes[obs[:4]] += 1
            for a in args[2:4]:
                bounds["-" if a == b"-" else "+" if a == b"+" else "ms-seq" if a.count(b"-") == 1 and a.replace(b"-", b"").isdigit()
                       else "ms" if a.isdigit() else "malformed"] += 1
    return None, dict(xadd_outcomes=dict(outcome), xadd_options_seen=dict(opts), xadd_auto_id_forms=dict(idform),
                      xrange_reply_sizes={str(k): v for k, v in sorted(xr_sizes.items(), key=lambda kv: str(kv[0]))},
                      xrange_bound_shapes=dict(bounds), longest_stream_in_a_dump=maxlen_stream)


def memlib_split(inner):
    depth, cur, res = 0, "", []
    for ch in inner:
        if ch == "[":
            depth += 1
        elif ch == "]":
            depth -= 1
        if ch == " " and depth == 0:
            res.append(cur)
            cur = ""
        else:
            cur += ch
    if cur:
        res.append(cur)
    return res


def run(ctx):
    _main_limit[0] = 150 if ctx.tier == "quick" else 1500
    return memlib.run_family(
        ctx, PID, make_cases, wire_every=2,
        rule="seeded random programs (1-40 commands + a final XRANGE - + of every key) of XADD / XRANGE over 1-3 keys on the "
             "virtual clock: same-millisecond bursts, clock not advancing, explicit ids at last and last+-1 in both components, "
             "0-0, 0-1, max-uint64 components, ms-only and ms-* ids, malformed ids; NOMKSTREAM on missing/existing keys, MAXLEN in "
             "{0,1,len-1,len,len+1} with =/~/none, MINID at and next to stored ids, LIMIT, option keywords in both letter cases "
             "and repeated, truncated option blocks; every XRANGE bound shape (-, +, full, ms-only, neighbours of stored ids, "
             "reversed, malformed) with COUNT in {0,1,len-1,len,len+1,-1,x}; fields with CR/LF/empty/binary bytes; keys of other "
             "types; EXPIRE/PERSIST/RENAME/DEL interplay; a malformed-arity stream",
        post=stream_stats)
