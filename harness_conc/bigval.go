package main

// The "bigval" phase: replies must not alias state that is modified in place.
// One key holds N bytes of ONE letter.  Writers overwrite the whole value with N copies of their
// own letter (SETRANGE k 0 ..., SET k ...), readers GET / GETRANGE / MGET it.  In every
// sequential order the value is uniform, so every reply must be N copies of one letter.  As in
// server.(*Manager).Handle the reply is serialised (ToBytes) only after the executor has
// returned and released its lock -- here immediately, as Handle does, and sometimes after a yield; with VERIF_CONC_TCP=1 the
// commands go through real connections served by Manager.Handle.  A reply containing two
// letters is a value the key never held.

import (
	"context"
	"encoding/hex"
	"fmt"
	"os"
	"path/filepath"
	"runtime"
	"strconv"
	"strings"
	"sync"
	"sync/atomic"

	"github.com/innovationb1ue/RedisGO/server"
)

func letterStats(b []byte) (counts map[byte]int, firstChange int) {
	var tab [256]int
	firstChange = -1
	var first byte
	n := 0
	for _, c := range b {
		if c >= 'a' && c <= 'z' {
			if n == 0 {
				first = c
			} else if c != first && firstChange < 0 {
				firstChange = n
			}
			tab[c]++
			n++
		}
	}
	counts = map[byte]int{}
	for c := 'a'; c <= 'z'; c++ {
		if tab[c] > 0 {
			counts[byte(c)] = tab[c]
		}
	}
	return
}

func runBigval(seed uint64, tier string, outdir string, tcp bool) (string, error) {
	dir := filepath.Join(outdir, "bigval")
	if err := os.MkdirAll(dir, 0o755); err != nil {
		return "", err
	}
	cfg := setupServer(dir)
	mgr := server.NewManager(cfg)
	n := 256 << 10
	nw, nr, wops, rops := 4, 4, 60, 150
	if tier == "thorough" {
		wops, rops = 600, 1500
	}
	if raceEnabled {
		// the race detector does the work there: smaller values, fewer commands
		n = 32 << 10
		wops, rops = wops/4+1, rops/4+1
	}
	if v, err := strconv.Atoi(os.Getenv("VERIF_CONC_BIGN")); err == nil && v > 0 {
		n = v
	}
	if v, err := strconv.Atoi(os.Getenv("VERIF_CONC_BIGR")); err == nil && v > 0 {
		nr = v
	}
	if v, err := strconv.Atoi(os.Getenv("VERIF_CONC_BIGP")); err == nil && v > 0 {
		defer runtime.GOMAXPROCS(runtime.GOMAXPROCS(v))
	}
	big := func(c byte) []byte { return []byte(strings.Repeat(string(c), n)) }
	key := "bigval"

	var yieldTick atomic.Int64
	var prog progress
	var exec func(slot int, cmd [][]byte) []byte // serialised reply (letters are payload only)
	closeAll := func() {}
	if tcp {
		ex, cl, err := tcpExecutor(mgr, nw+nr+1)
		if err != nil {
			return "", err
		}
		closeAll = cl
		exec = func(slot int, cmd [][]byte) []byte {
			out := ex(slot, cmd)
			// canonical text: hex payloads; decode them back
			var res []byte
			for _, f := range strings.FieldsFunc(out, func(r rune) bool { return r == ' ' || r == '[' || r == ']' || r == '*' }) {
				if strings.HasPrefix(f, "$") && f != "$nil" {
					if b, err := hex.DecodeString(f[1:]); err == nil {
						res = append(res, b...)
					}
				}
			}
			return res
		}
	} else {
		exec = func(_ int, cmd [][]byte) (out []byte) {
			defer func() {
				if e := recover(); e != nil {
					out = []byte("PANIC")
				}
			}()
			r := mgr.ExecCommand(context.Background(), cmd, nil)
			// the executor has returned and released its lock; Handle serialises now.  Mostly
			// at once (a waiting writer gets the lock at this very moment), sometimes after a yield
			if yieldTick.Add(1)%8 == 0 {
				runtime.Gosched()
			}
			if r == nil {
				return nil
			}
			return r.ToBytes()
		}
	}
	defer closeAll()
	exec(nw+nr, [][]byte{[]byte("SET"), []byte(key), big('a')})

	var torn, reads, writes, readersLeft atomic.Int64
	readersLeft.Store(int64(nr))
	var mu sync.Mutex
	reports := []string{}
	var wg sync.WaitGroup
	start := make(chan struct{})
	for w := 0; w < nw; w++ {
		wg.Add(1)
		go func(w int) {
			defer wg.Done()
			<-start
			// keep overwriting until the readers are done (at least wops times)
			for i := 0; i < wops || readersLeft.Load() > 0; i++ {
				val := big(byte('b' + w)) // a fresh argument for every command, as the RESP parser produces
				if i%16 == 15 {
					exec(w, [][]byte{[]byte("SET"), []byte(key), val})
				} else {
					exec(w, [][]byte{[]byte("SETRANGE"), []byte(key), []byte("0"), val})
				}
				writes.Add(1)
				prog.tick()
				if i > 200*wops {
					break
				}
			}
		}(w)
	}
	for rd := 0; rd < nr; rd++ {
		wg.Add(1)
		go func(rd int) {
			defer wg.Done()
			defer readersLeft.Add(-1)
			<-start
			for i := 0; i < rops; i++ {
				var cmd [][]byte
				switch (i + rd) % 3 {
				case 0:
					cmd = [][]byte{[]byte("GET"), []byte(key)}
				case 1:
					cmd = [][]byte{[]byte("GETRANGE"), []byte(key), []byte("0"), []byte("-1")}
				default:
					cmd = [][]byte{[]byte("MGET"), []byte(key)}
				}
				out := exec(nw+rd, cmd)
				reads.Add(1)
				prog.tick()
				counts, fc := letterStats(out)
				total := 0
				for _, c := range counts {
					total += c
				}
				if len(counts) != 1 || total != n {
					torn.Add(1)
					mu.Lock()
					if len(reports) < 3 {
						parts := []string{}
						for c := byte('a'); c <= 'z'; c++ {
							if counts[c] > 0 {
								parts = append(parts, fmt.Sprintf("%c:%d", c, counts[c]))
							}
						}
						reports = append(reports, fmt.Sprintf("TORN %s payload=%d first_change_at=%d letters=%s",
							string(cmd[0]), total, fc, strings.Join(parts, ",")))
					}
					mu.Unlock()
				}
			}
		}(rd)
	}
	done := make(chan struct{})
	go func() { wg.Wait(); close(done) }()
	close(start)
	status := awaitDone(done, &prog, dir, tier)
	var b strings.Builder
	for _, r := range reports {
		b.WriteString(r + "\n")
	}
	fmt.Fprintf(&b, "DONE status=%s n=%d reads=%d writes=%d torn=%d\n", status, n, reads.Load(), writes.Load(), torn.Load())
	mode := "inproc"
	if tcp {
		mode = "tcp"
	}
	text := strings.ReplaceAll(b.String(), "TORN ", "TORN "+mode+" ")
	text = strings.ReplaceAll(text, "DONE ", "DONE mode="+mode+" ")
	f, err := os.OpenFile(filepath.Join(dir, "result.txt"), os.O_APPEND|os.O_CREATE|os.O_WRONLY, 0o644)
	if err != nil {
		return "", err
	}
	defer f.Close()
	if _, err := f.WriteString(text); err != nil {
		return "", err
	}
	return status, nil
}
